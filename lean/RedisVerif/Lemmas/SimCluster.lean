import RedisVerif.Model.SimCluster
import RedisVerif.Lemmas.ClusterAE
import RedisVerif.Lemmas.GossipSim
import RedisVerif.Lemmas.AntiEntropy

/-!
  The simulation behind `C06.sim_refines_cluster_ae`: every step of the `MultiNodeSimulation`
  model (`Model/SimCluster.lean`) is a run of events of layer 1 with state transfers
  (`Model/ClusterAE.lean`): a client command is its `record_*` calls, a gossip round is the
  deliveries of the flights that came due, an anti-entropy exchange is the snapshots of both delta
  sets (pre-state) followed by their application — under the invariant that every delta in an
  outbox or in flight is an issued delta.
-/
namespace RedisVerif
namespace SimC
open Gossip Cluster ACluster

/-! ## generalities about `ACluster.run` -/

theorem runA_append (c : ACluster) (a b : List AEv) : c.run (a ++ b) = (c.run a).run b := by
  simp [ACluster.run, List.foldl_append]

theorem runA_ev (es : List Ev) : ∀ (c : ACluster), c.run (es.map AEv.ev) = { c with base := c.base.run es } := by
  induction es with
  | nil => intro c; rfl
  | cons e es ih =>
    intro c
    simp only [List.map_cons, ACluster.run, List.foldl_cons] at ih ⊢
    rw [ih (c.step (.ev e))]
    rfl

def isLocA : AEv → Bool
  | .ev (.loc _ _) => true
  | _ => false

theorem list_set_same {α : Type} {l : List α} {i : Nat} {x : α} (h : l[i]? = some x) : l.set i x = l := by
  apply List.ext_getElem?
  intro n
  rw [List.getElem?_set]
  split
  · rename_i hin; subst hin
    split
    · exact h.symm
    · rename_i hlt; rw [List.getElem?_eq_none (by omega)]
  · rfl

/-! ## the invariant -/

structure SInv (c : Sim) : Prop where
  pend : ∀ nd ∈ c.nodes, ∀ m ∈ nd.ps.pending, m ∈ c.issued
  queue : ∀ f ∈ c.queue, ∀ m ∈ f.deltas, m ∈ c.issued

theorem sinv_init (n : Nat) (causal : Bool) (routers : List (Option Router)) (autoAE : Bool) :
    SInv (Sim.init n causal routers autoAE) := by
  constructor
  · intro nd hnd m hm
    simp only [Sim.init, List.mem_map, List.mem_range] at hnd
    obtain ⟨i, _, rfl⟩ := hnd
    simp [SNode.init, PShard.init] at hm
  · intro f hf; simp [Sim.init] at hf

theorem abs_init (n : Nat) (causal : Bool) (routers : List (Option Router)) (autoAE : Bool) :
    (Sim.init n causal routers autoAE).abs = ACluster.init n causal := by
  simp [Sim.abs, Sim.init, ACluster.init, Cluster.init, List.map_map, SNode.init, PShard.init, Function.comp_def]

/-! ## a client command -/

/-- the step function folded by `SNode.record` -/
def recF (cap me : Nat) (acc : PShard × List Msg) (op : LOp) : PShard × List Msg :=
  let r := acc.1.localOp cap me op
  (r.1, match r.2 with | some d => acc.2 ++ [⟨me, op.key, d⟩] | none => acc.2)

theorem record_eq (cap me : Nat) (ps : PShard) (ops : List LOp) :
    SNode.record cap me ps ops = ops.foldl (recF cap me) (ps, []) := rfl

theorem record_run (cap i : Nat) : ∀ (ops : List LOp) (ps : PShard) (acc : List Msg) (C : Cluster),
    C.nodes[i]? = some ps.sh →
    ∃ ds, (ops.foldl (recF cap i) (ps, acc)).2 = acc ++ ds ∧
      C.run (ops.map (Ev.loc i)) =
        { nodes := C.nodes.set i (ops.foldl (recF cap i) (ps, acc)).1.sh
          sent := C.sent ++ ds
          log := C.log ++ ds.map (fun m => ⟨i, m.key, m.val⟩) } ∧
      (∀ m ∈ (ops.foldl (recF cap i) (ps, acc)).1.pending, m ∈ ps.pending ∨ m ∈ ds) := by
  intro ops
  induction ops with
  | nil =>
    intro ps acc C hs
    refine ⟨[], by simp, ?_, fun m hm => Or.inl hm⟩
    simp only [List.map_nil, Cluster.run, List.foldl_nil, List.append_nil]
    rw [list_set_same hs]
  | cons op ops ih =>
    intro ps acc C hs
    have hilt : i < C.nodes.length := (List.getElem?_eq_some_iff.mp hs).1
    simp only [List.foldl_cons, List.map_cons, Cluster.run]
    cases hd : (Shard.step ps.sh op.toOp).2 with
    | none =>
      have hrec : recF cap i (ps, acc) op = ({ ps with sh := (Shard.step ps.sh op.toOp).1 }, acc) := by
        simp only [recF, PShard.localOp, hd]
      have hstep : C.step (.loc i op) = { C with nodes := C.nodes.set i (Shard.step ps.sh op.toOp).1 } := by
        simp only [Cluster.step, hs, hd]
      rw [hrec, hstep]
      obtain ⟨ds, h1, h2, h3⟩ := ih { ps with sh := (Shard.step ps.sh op.toOp).1 } acc
        { C with nodes := C.nodes.set i (Shard.step ps.sh op.toOp).1 }
        (by simp only; exact List.getElem?_set_self hilt)
      refine ⟨ds, h1, ?_, h3⟩
      simp only [Cluster.run] at h2
      rw [h2]
      simp only [List.set_set]
    | some d =>
      have hrec : recF cap i (ps, acc) op =
          ({ sh := (Shard.step ps.sh op.toOp).1, pending := enforceCap cap (ps.pending ++ [⟨i, op.key, d⟩]) },
            acc ++ [⟨i, op.key, d⟩]) := by
        simp only [recF, PShard.localOp, hd]
      have hstep : C.step (.loc i op) =
          { nodes := C.nodes.set i (Shard.step ps.sh op.toOp).1
            sent := C.sent ++ [⟨i, op.key, d⟩]
            log := C.log ++ [⟨i, op.key, d⟩] } := by
        simp only [Cluster.step, hs, hd]
      rw [hrec, hstep]
      obtain ⟨ds, h1, h2, h3⟩ := ih
        { sh := (Shard.step ps.sh op.toOp).1, pending := enforceCap cap (ps.pending ++ [⟨i, op.key, d⟩]) }
        (acc ++ [⟨i, op.key, d⟩])
        { nodes := C.nodes.set i (Shard.step ps.sh op.toOp).1
          sent := C.sent ++ [⟨i, op.key, d⟩]
          log := C.log ++ [⟨i, op.key, d⟩] }
        (by simp only; exact List.getElem?_set_self hilt)
      refine ⟨⟨i, op.key, d⟩ :: ds, by rw [h1]; simp, ?_, ?_⟩
      · simp only [Cluster.run] at h2
        rw [h2]
        simp only [List.set_set, List.append_assoc, List.singleton_append, List.map_cons]
      · intro m hm
        rcases h3 m hm with h | h
        · have := mem_enforceCap h
          simp only [List.mem_append, List.mem_singleton] at this
          rcases this with h' | h'
          · exact Or.inl h'
          · exact Or.inr (by rw [h']; simp)
        · exact Or.inr (List.mem_cons_of_mem _ h)

/-! ## deliveries -/

theorem applyOne_sh (nd : SNode) (d : Msg) :
    (nd.applyOne d).ps.sh = nd.ps.sh.applyRemote d.key d.val ∧ (nd.applyOne d).ps.pending = nd.ps.pending := by
  simp [SNode.applyOne]

theorem applyAll_sh (ds : List Msg) : ∀ (nd : SNode),
    (nd.applyAll ds).ps.sh = MCluster.applyAll nd.ps.sh ds ∧ (nd.applyAll ds).ps.pending = nd.ps.pending := by
  induction ds with
  | nil => intro nd; exact ⟨rfl, rfl⟩
  | cons d ds ih =>
    intro nd
    simp only [SNode.applyAll, List.foldl_cons, MCluster.applyAll] at ih ⊢
    have := ih (nd.applyOne d)
    rw [(applyOne_sh nd d).1, (applyOne_sh nd d).2] at this
    exact this

theorem abs_nodes_get (c : Sim) (i : Nat) (nd : SNode) (h : c.nodes[i]? = some nd) :
    c.abs.base.nodes[i]? = some nd.ps.sh := by
  simp [Sim.abs, List.getElem?_map, h]

/-- one delivered flight = the deliveries of its deltas -/
theorem deliverFlight_sim (c : Sim) (f : Flight) (hf : ∀ m ∈ f.deltas, m ∈ c.issued) :
    ∃ es : List Ev, (Sim.deliverFlight c f).abs = c.abs.run (es.map AEv.ev) ∧ es.filter isLoc = [] ∧
      (Sim.deliverFlight c f).issued = c.issued ∧ (Sim.deliverFlight c f).queue = c.queue ∧
      (Sim.deliverFlight c f).parts = c.parts ∧
      ((∀ nd ∈ c.nodes, nd.ps.pending = []) → ∀ nd ∈ (Sim.deliverFlight c f).nodes, nd.ps.pending = []) := by
  cases hn : c.nodes[f.dst]? with
  | none =>
    have hdf : Sim.deliverFlight c f = c := by simp only [Sim.deliverFlight, hn]
    rw [hdf]
    exact ⟨[], rfl, rfl, rfl, rfl, rfl, fun h => h⟩
  | some nd =>
    have hdf : Sim.deliverFlight c f = { c with
        nodes := c.nodes.set f.dst (nd.applyAll f.deltas)
        log := c.log ++ f.deltas.map (fun d => ⟨f.dst, d.key, d.val⟩) } := by
      simp only [Sim.deliverFlight, hn]
    rw [hdf]
    refine ⟨deliverEvs c.issued f.dst f.deltas, ?_, filter_isLoc_deliverEvs _ _ _, rfl, rfl, rfl, ?_⟩
    · rw [runA_ev]
      have := run_deliverEvs f.deltas c.abs.base f.dst nd.ps.sh (abs_nodes_get c _ nd hn) hf
      simp only [Sim.abs] at this ⊢
      rw [this]
      simp [List.map_set, (applyAll_sh f.deltas nd).1]
    · intro h nd' hnd'
      rcases mem_set hnd' with h1 | h1
      · rw [h1, (applyAll_sh f.deltas nd).2]; exact h nd (List.mem_of_getElem? hn)
      · exact h nd' h1

theorem deliverFlights_sim (fs : List Flight) : ∀ (c : Sim), (∀ f ∈ fs, ∀ m ∈ f.deltas, m ∈ c.issued) →
    ∃ es : List Ev, (fs.foldl Sim.deliverFlight c).abs = c.abs.run (es.map AEv.ev) ∧ es.filter isLoc = [] ∧
      (fs.foldl Sim.deliverFlight c).issued = c.issued ∧ (fs.foldl Sim.deliverFlight c).queue = c.queue ∧
      (fs.foldl Sim.deliverFlight c).parts = c.parts ∧
      ((∀ nd ∈ c.nodes, nd.ps.pending = []) → ∀ nd ∈ (fs.foldl Sim.deliverFlight c).nodes, nd.ps.pending = []) := by
  induction fs with
  | nil => intro c _; exact ⟨[], rfl, rfl, rfl, rfl, rfl, fun h => h⟩
  | cons f fs ih =>
    intro c hfs
    obtain ⟨es1, h1, l1, i1, q1, p1, e1⟩ := deliverFlight_sim c f (hfs f (by simp))
    obtain ⟨es2, h2, l2, i2, q2, p2, e2⟩ := ih (Sim.deliverFlight c f)
      (fun g hg m hm => by rw [i1]; exact hfs g (List.mem_cons_of_mem _ hg) m hm)
    refine ⟨es1 ++ es2, ?_, by simp [List.filter_append, l1, l2], by rw [List.foldl_cons, i2, i1],
      by rw [List.foldl_cons, q2, q1], by rw [List.foldl_cons, p2, p1], fun h => e2 (e1 h)⟩
    rw [List.foldl_cons, h2, h1, List.map_append, runA_append]

/-! ## what a gossip round puts into the queue -/

theorem sendsOf_mem (routers : List (Option Router)) (n src : Nat) (ds : List Msg) :
    ∀ p ∈ Sim.sendsOf routers n src ds, ∀ m ∈ p.2, m ∈ ds := by
  intro p hp m hm
  unfold Sim.sendsOf at hp
  split at hp
  · cases hp
  · have bc : ∀ p ∈ ((List.range n).filter (· ≠ src)).map (fun t => (t, ds)), ∀ m ∈ p.2, m ∈ ds := by
      intro p hp m hm
      simp only [List.mem_map] at hp
      obtain ⟨t, _, rfl⟩ := hp
      exact hm
    split at hp
    · split at hp
      · simp only [List.mem_map] at hp
        obtain ⟨q, hq, rfl⟩ := hp
        rename_i r _ _
        exact routeSelective_mem r ds q hq m hm
      · exact bc p hp m hm
    · exact bc p hp m hm

theorem sendOne_mem (parts : List (Nat × Nat)) (now : Nat) (acc : List Flight × List (Bool × Nat))
    (src : Nat) (p : Nat × List Msg) :
    ∀ f ∈ (Sim.sendOne parts now acc src p).1, f ∈ acc.1 ∨ f.deltas = p.2 := by
  intro f hf
  unfold Sim.sendOne at hf
  split at hf
  · exact Or.inl hf
  · simp only [] at hf
    split at hf
    · exact Or.inl hf
    · simp only [List.mem_append, List.mem_singleton] at hf
      rcases hf with h | h
      · exact Or.inl h
      · exact Or.inr (by rw [h])

theorem sendFold_mem (parts : List (Nat × Nat)) (now : Nat) (sends : List (Nat × Nat × List Msg)) :
    ∀ (acc : List Flight × List (Bool × Nat)),
    ∀ f ∈ (sends.foldl (fun acc sp => Sim.sendOne parts now acc sp.1 sp.2) acc).1,
      f ∈ acc.1 ∨ ∃ sp ∈ sends, f.deltas = sp.2.2 := by
  induction sends with
  | nil => intro acc f hf; exact Or.inl hf
  | cons sp sends ih =>
    intro acc f hf
    simp only [List.foldl_cons] at hf
    rcases ih _ f hf with h | ⟨sp', h1, h2⟩
    · rcases sendOne_mem parts now acc sp.1 sp.2 f h with h' | h'
      · exact Or.inl h'
      · exact Or.inr ⟨sp, by simp, h'⟩
    · exact Or.inr ⟨sp', List.mem_cons_of_mem _ h1, h2⟩

theorem popReady_split (parts : List (Nat × Nat)) (now : Nat) (q : List Flight) :
    (Sim.popReady parts now q).1 ++ (Sim.popReady parts now q).2 = q := by
  induction q with
  | nil => rfl
  | cons m q ih =>
    simp only [Sim.popReady]
    split
    · simp only [List.cons_append, ih]
    · rfl

/-! ## an anti-entropy exchange -/

def snapMsg (sn : Snap) : Msg := ⟨sn.src, sn.key, sn.val⟩

theorem snapsOf_msgs (log : List Absorbed) (src : Nat) (ds : List (Nat × RV)) :
    (Sim.snapsOf log src ds).map snapMsg = Sim.toMsgs src ds := by
  simp [Sim.snapsOf, Sim.toMsgs, snapMsg, List.map_map, Function.comp_def]

/-- building the transfers of one delta set -/
theorem run_snapshots (i : Nat) (s : Shard) : ∀ (ds : List (Nat × RV)) (C : ACluster),
    C.base.nodes[i]? = some s → (∀ p ∈ ds, NMap.get s.keys p.1 = some p.2) →
    C.run (ds.map (fun p => AEv.snapshot i p.1)) = { C with snaps := C.snaps ++ Sim.snapsOf C.base.log i ds } := by
  intro ds
  induction ds with
  | nil => intro C _ _; simp [ACluster.run, Sim.snapsOf]
  | cons p ds ih =>
    intro C hs hg
    have hstep : C.step (.snapshot i p.1) =
        { C with snaps := C.snaps ++ [⟨i, p.1, p.2, carriedOf C.base.log i p.1⟩] } := by
      simp only [ACluster.step, hs, hg p (by simp)]
    simp only [List.map_cons, ACluster.run, List.foldl_cons]
    rw [hstep]
    have := ih { C with snaps := C.snaps ++ [⟨i, p.1, p.2, carriedOf C.base.log i p.1⟩] } hs
      (fun q hq => hg q (List.mem_cons_of_mem _ hq))
    simp only [ACluster.run] at this
    rw [this]
    simp [Sim.snapsOf]

/-- applying a block of transfers at one node -/
theorem run_applySnaps (j : Nat) : ∀ (sn : List Snap) (P : Nat) (s : Shard) (C : ACluster),
    C.base.nodes[j]? = some s → (∀ t, t < sn.length → C.snaps[P + t]? = sn[t]?) →
    C.run ((List.range' P sn.length).map (fun p => AEv.applySnap j p)) =
      { C with base := { C.base with
          nodes := C.base.nodes.set j (MCluster.applyAll s (sn.map snapMsg))
          log := C.base.log ++ Sim.absorbedOf j sn } } := by
  intro sn
  induction sn with
  | nil =>
    intro P s C hs _
    simp only [List.length_nil, List.range'_zero, List.map_nil, ACluster.run, List.foldl_nil, MCluster.applyAll,
      Sim.absorbedOf, List.flatMap_nil, List.append_nil]
    rw [list_set_same hs]
  | cons x sn ih =>
    intro P s C hs hsn
    have hjlt : j < C.base.nodes.length := (List.getElem?_eq_some_iff.mp hs).1
    have hx : C.snaps[P]? = some x := by
      have := hsn 0 (by simp)
      simpa using this
    have hstep : C.step (.applySnap j P) =
        { C with base := { C.base with
            nodes := C.base.nodes.set j (Shard.applyRemote s x.key x.val)
            log := C.base.log ++ x.carried.map (fun v => ⟨j, x.key, v⟩) } } := by
      simp only [ACluster.step, hs, hx]
    simp only [List.length_cons, List.range'_succ, List.map_cons, ACluster.run, List.foldl_cons]
    rw [hstep]
    have := ih (P + 1) (Shard.applyRemote s x.key x.val)
      { C with base := { C.base with
            nodes := C.base.nodes.set j (Shard.applyRemote s x.key x.val)
            log := C.base.log ++ x.carried.map (fun v => ⟨j, x.key, v⟩) } }
      (by simp only; exact List.getElem?_set_self hjlt)
      (by
        intro t ht
        have := hsn (t + 1) (by simp; omega)
        simp only [List.getElem?_cons_succ] at this
        rw [← this]
        congr 1
        omega)
    simp only [ACluster.run] at this
    rw [this]
    simp [List.set_set, MCluster.applyAll, Sim.absorbedOf, snapMsg]

theorem mem_iter' {π : List Nat} {s : NMap RV} {q : Nat × RV} (h : q ∈ AE.iter π s) : NMap.get s q.1 = some q.2 := by
  unfold AE.iter at h
  rw [List.mem_filterMap] at h
  obtain ⟨k, _, hk⟩ := h
  cases hg : NMap.get s k with
  | none => rw [hg] at hk; simp at hk
  | some v => rw [hg] at hk; simp at hk; subst hk; exact hg

/-- an anti-entropy delta is an entry of the sender's state -/
theorem getKeysInBuckets_mem {arr : AE.Arrange} (harr : AE.ArrOK arr) (H : AE.Hasher) (vs : AE.ValueStream)
    (depth limit : Nat) (π : List Nat) (s : NMap RV) (div : List Nat) (q : Nat × RV)
    (h : q ∈ AE.getKeysInBuckets arr H vs depth limit π s div) : NMap.get s q.1 = some q.2 := by
  unfold AE.getKeysInBuckets at h
  have h1 := List.mem_of_mem_take h
  have h2 := (harr _).mem_iff.mp h1
  exact mem_iter' (List.mem_filter.mp h2).1

theorem syncDeltas_mem (H : AE.Hasher) (cfg : Cfg) (a b : NMap RV) (da db : List (Nat × RV))
    (h : Sim.syncDeltas H cfg a b = some (da, db)) :
    (∀ p ∈ da, NMap.get a p.1 = some p.2) ∧ (∀ p ∈ db, NMap.get b p.1 = some p.2) := by
  unfold Sim.syncDeltas at h
  simp only [] at h
  split at h
  · split at h
    · simp only [Option.some.injEq, Prod.mk.injEq] at h
      obtain ⟨rfl, rfl⟩ := h
      exact ⟨fun p hp => getKeysInBuckets_mem (AE.arrOK_arrangeOf _ _) _ _ _ _ _ _ _ p hp,
        fun p hp => getKeysInBuckets_mem (AE.arrOK_arrangeOf _ _) _ _ _ _ _ _ _ p hp⟩
    · cases h
  · cases h

theorem syncDeltas_self (H : AE.Hasher) (cfg : Cfg) (a : NMap RV) : Sim.syncDeltas H cfg a a = none := by
  unfold Sim.syncDeltas
  simp [AE.differsFrom]

theorem filter_isLocA_snapshot (i : Nat) (ds : List (Nat × RV)) :
    (ds.map (fun p => AEv.snapshot i p.1)).filter isLocA = [] := by
  induction ds with
  | nil => rfl
  | cons d ds ih => simp only [List.map_cons, List.filter_cons, isLocA] at ih ⊢; exact ih

theorem filter_isLocA_apply (j : Nat) (l : List Nat) :
    (l.map (fun p => AEv.applySnap j p)).filter isLocA = [] := by
  induction l with
  | nil => rfl
  | cons d ds ih => simp only [List.map_cons, List.filter_cons, isLocA] at ih ⊢; exact ih

theorem filter_isLocA_ev (es : List Ev) : (es.map AEv.ev).filter isLocA = (es.filter isLoc).map AEv.ev := by
  induction es with
  | nil => rfl
  | cons e es ih =>
    cases e <;> simp [List.filter_cons, isLocA, isLoc, ih]

theorem syncStep_sim (H : AE.Hasher) (cfg : Cfg) (c : Sim) (hi : SInv c) (a b : Nat) :
    ∃ es : List AEv, (Sim.syncStep H cfg c a b).abs = c.abs.run es ∧ es.filter isLocA = [] ∧
      SInv (Sim.syncStep H cfg c a b) := by
  cases hna : c.nodes[a]? with
  | none =>
    have : Sim.syncStep H cfg c a b = c := by simp only [Sim.syncStep, hna]
    rw [this]; exact ⟨[], rfl, rfl, hi⟩
  | some na =>
    cases hnb : c.nodes[b]? with
    | none =>
      have : Sim.syncStep H cfg c a b = c := by simp only [Sim.syncStep, hna, hnb]
      rw [this]; exact ⟨[], rfl, rfl, hi⟩
    | some nb =>
      cases hsd : Sim.syncDeltas H cfg na.ps.sh.keys nb.ps.sh.keys with
      | none =>
        have : Sim.syncStep H cfg c a b = c := by simp only [Sim.syncStep, hna, hnb, hsd]
        rw [this]; exact ⟨[], rfl, rfl, hi⟩
      | some dd =>
        obtain ⟨da, db⟩ := dd
        have hab : a ≠ b := by
          intro e; subst e
          rw [hna] at hnb; cases hnb
          rw [syncDeltas_self] at hsd; cases hsd
        have hst : Sim.syncStep H cfg c a b =
            { c with
              nodes := (c.nodes.set b (nb.applyAll (Sim.toMsgs a da))).set a (na.applyAll (Sim.toMsgs b db))
              syncs := c.syncs + 1
              snaps := c.snaps ++ Sim.snapsOf c.log a da ++ Sim.snapsOf c.log b db
              log := c.log ++ Sim.absorbedOf b (Sim.snapsOf c.log a da) ++ Sim.absorbedOf a (Sim.snapsOf c.log b db) } := by
          simp only [Sim.syncStep, hna, hnb, hsd]
        obtain ⟨hma, hmb⟩ := syncDeltas_mem H cfg _ _ da db hsd
        have halt : a < c.nodes.length := (List.getElem?_eq_some_iff.mp hna).1
        have hblt : b < c.nodes.length := (List.getElem?_eq_some_iff.mp hnb).1
        refine ⟨da.map (fun p => AEv.snapshot a p.1) ++ (db.map (fun p => AEv.snapshot b p.1) ++
          ((List.range' c.snaps.length (Sim.snapsOf c.log a da).length).map (fun p => AEv.applySnap b p) ++
           (List.range' (c.snaps.length + (Sim.snapsOf c.log a da).length) (Sim.snapsOf c.log b db).length).map
             (fun p => AEv.applySnap a p))), ?_, ?_, ?_⟩
        · rw [hst, runA_append, runA_append, runA_append]
          have e1 := run_snapshots a na.ps.sh da c.abs (abs_nodes_get c a na hna) hma
          have e2 := run_snapshots b nb.ps.sh db
            { c.abs with snaps := c.abs.snaps ++ Sim.snapsOf c.abs.base.log a da } (abs_nodes_get c b nb hnb) hmb
          have e3 := run_applySnaps b (Sim.snapsOf c.log a da) c.snaps.length nb.ps.sh
            { c.abs with snaps := c.abs.snaps ++ Sim.snapsOf c.abs.base.log a da ++ Sim.snapsOf c.abs.base.log b db }
            (abs_nodes_get c b nb hnb)
            (by
              intro t ht
              show ((c.snaps ++ Sim.snapsOf c.log a da) ++ Sim.snapsOf c.log b db)[c.snaps.length + t]? = _
              rw [List.getElem?_append_left (by simp; omega), List.getElem?_append_right (by omega)]
              congr 1; omega)
          have e4 := run_applySnaps a (Sim.snapsOf c.log b db) (c.snaps.length + (Sim.snapsOf c.log a da).length) na.ps.sh
            { c.abs with
              snaps := c.abs.snaps ++ Sim.snapsOf c.abs.base.log a da ++ Sim.snapsOf c.abs.base.log b db
              base := { c.abs.base with
                nodes := c.abs.base.nodes.set b (MCluster.applyAll nb.ps.sh ((Sim.snapsOf c.log a da).map snapMsg))
                log := c.abs.base.log ++ Sim.absorbedOf b (Sim.snapsOf c.log a da) } }
            (by
              show (c.abs.base.nodes.set b _)[a]? = some na.ps.sh
              rw [List.getElem?_set_ne (Ne.symm hab)]
              exact abs_nodes_get c a na hna)
            (by
              intro t ht
              show ((c.snaps ++ Sim.snapsOf c.log a da) ++ Sim.snapsOf c.log b db)[c.snaps.length + (Sim.snapsOf c.log a da).length + t]? = _
              rw [List.getElem?_append_right (by simp)]
              congr 1; simp)
          rw [e1, e2, e3, e4]
          simp only [Sim.abs, snapsOf_msgs, List.map_set, (applyAll_sh _ nb).1, (applyAll_sh _ na).1,
            List.append_assoc]
        · simp [List.filter_append, filter_isLocA_snapshot, filter_isLocA_apply]
        · rw [hst]
          constructor
          · intro nd hnd m hm
            simp only at hnd
            rcases mem_set hnd with h1 | h1
            · rw [h1, (applyAll_sh _ na).2] at hm
              exact hi.pend na (List.mem_of_getElem? hna) m hm
            · rcases mem_set h1 with h2 | h2
              · rw [h2, (applyAll_sh _ nb).2] at hm
                exact hi.pend nb (List.mem_of_getElem? hnb) m hm
              · exact hi.pend nd h2 m hm
          · exact hi.queue

/-! ## one step, a whole run -/

/-- the layer-1 local events of a simulator event -/
def locsOf : SEv → List Ev
  | .exec i op => op.lops.map (Ev.loc i)
  | _ => []

theorem run_loc_no_node (i : Nat) (ops : List LOp) : ∀ (C : Cluster), C.nodes[i]? = none →
    C.run (ops.map (Ev.loc i)) = C := by
  induction ops with
  | nil => intro C _; rfl
  | cons op ops ih =>
    intro C h
    simp only [List.map_cons, Cluster.run, List.foldl_cons]
    have : C.step (.loc i op) = C := by simp only [Cluster.step, h]
    rw [this]
    exact ih C h

theorem syncFold_sim (H : AE.Hasher) (cfg : Cfg) (ps : List (Nat × Nat)) : ∀ (c : Sim), SInv c →
    ∃ es : List AEv,
      (ps.foldl (fun c p => if Sim.canComm c.parts p.1 p.2 then Sim.syncStep H cfg c p.1 p.2 else c) c).abs = c.abs.run es ∧
      es.filter isLocA = [] ∧
      SInv (ps.foldl (fun c p => if Sim.canComm c.parts p.1 p.2 then Sim.syncStep H cfg c p.1 p.2 else c) c) := by
  induction ps with
  | nil => intro c hi; exact ⟨[], rfl, rfl, hi⟩
  | cons p ps ih =>
    intro c hi
    simp only [List.foldl_cons]
    by_cases hc : Sim.canComm c.parts p.1 p.2 = true
    · simp only [hc, if_true]
      obtain ⟨es1, h1, l1, i1⟩ := syncStep_sim H cfg c hi p.1 p.2
      obtain ⟨es2, h2, l2, i2⟩ := ih _ i1
      exact ⟨es1 ++ es2, by rw [h2, h1, runA_append], by simp [List.filter_append, l1, l2], i2⟩
    · simp only [hc]
      exact ih c hi

theorem step_sim (H : AE.Hasher) (cfg : Cfg) (c : Sim) (hi : SInv c) (e : SEv) :
    SInv (c.step H cfg e) ∧
    ∃ es : List AEv, (c.step H cfg e).abs = c.abs.run es ∧ es.filter isLocA = (locsOf e).map AEv.ev := by
  cases e with
  | exec i op =>
    cases hn : c.nodes[i]? with
    | none =>
      have : c.step H cfg (.exec i op) = c := by simp only [Sim.step, hn]
      rw [this]
      refine ⟨hi, (op.lops.map (Ev.loc i)).map AEv.ev, ?_, ?_⟩
      · rw [runA_ev, run_loc_no_node i op.lops c.abs.base (by simp [Sim.abs, List.getElem?_map, hn])]
      · rw [filter_isLocA_ev]
        congr 1
        simp only [locsOf]
        induction op.lops with
        | nil => rfl
        | cons o os ih => simp [List.filter_cons, isLoc, ih]
    | some nd =>
      obtain ⟨ds, h1, h2, h3⟩ := record_run cfg.pendingCap i op.lops nd.ps [] c.abs.base (abs_nodes_get c i nd hn)
      have hst : c.step H cfg (.exec i op) =
          { c with
            nodes := c.nodes.set i { ps := (SNode.record cfg.pendingCap i nd.ps op.lops).1, kv := SNode.kvExec nd.kv op }
            issued := c.issued ++ (SNode.record cfg.pendingCap i nd.ps op.lops).2
            log := c.log ++ (SNode.record cfg.pendingCap i nd.ps op.lops).2.map (fun m => ⟨i, m.key, m.val⟩) } := by
        simp only [Sim.step, hn]
      rw [record_eq] at hst
      simp only [List.nil_append] at h1
      rw [h1] at hst
      rw [hst]
      refine ⟨?_, (op.lops.map (Ev.loc i)).map AEv.ev, ?_, ?_⟩
      · constructor
        · intro nd' hnd' m hm
          rcases mem_set hnd' with h | h
          · rw [h] at hm
            rcases h3 m hm with h' | h'
            · exact List.mem_append_left _ (hi.pend nd (List.mem_of_getElem? hn) m h')
            · exact List.mem_append_right _ h'
          · exact List.mem_append_left _ (hi.pend nd' h m hm)
        · intro f hf m hm
          exact List.mem_append_left _ (hi.queue f hf m hm)
      · rw [runA_ev, h2]
        simp [Sim.abs, List.map_set]
      · rw [filter_isLocA_ev]
        congr 1
        simp only [locsOf]
        induction op.lops with
        | nil => rfl
        | cons o os ih => simp [List.filter_cons, isLoc, ih]
  | gossip oracle =>
    simp only [Sim.step, locsOf, List.map_nil]
    -- the queue after the sends, its ready prefix, the state the deliveries start from
    generalize hq : ((((List.range c.nodes.length).flatMap fun src =>
        (Sim.sendsOf c.routers c.nodes.length src ((c.nodes.map fun nd => nd.ps.pending)[src]?.getD [])).map
          fun p => (src, p)).foldl (fun acc sp => Sim.sendOne c.parts c.now acc sp.1 sp.2) (c.queue, oracle)).1) = q
    have hqmem : ∀ f ∈ q, ∀ m ∈ f.deltas, m ∈ c.issued := by
      intro f hf m hm
      rw [← hq] at hf
      rcases sendFold_mem c.parts c.now _ (c.queue, oracle) f hf with h | ⟨sp, hsp, hd⟩
      · exact hi.queue f h m hm
      · simp only [List.mem_flatMap, List.mem_map, List.mem_range] at hsp
        obtain ⟨src, _, p, hp, rfl⟩ := hsp
        rw [hd] at hm
        have hm' := sendsOf_mem _ _ _ _ p hp m hm
        simp only [List.getElem?_map] at hm'
        cases hsrc : c.nodes[src]? with
        | none => rw [hsrc] at hm'; simp at hm'
        | some nd =>
          rw [hsrc] at hm'
          simp only [Option.map_some, Option.getD_some] at hm'
          exact hi.pend nd (List.mem_of_getElem? hsrc) m hm'
    have hsplit := popReady_split c.parts c.now q
    obtain ⟨es, h1, l1, i1, q1, _, e1⟩ := deliverFlights_sim (Sim.popReady c.parts c.now q).1
      { c with nodes := c.nodes.map (fun nd => { nd with ps := { nd.ps with pending := [] } }),
               queue := (Sim.popReady c.parts c.now q).2 }
      (fun f hf m hm => hqmem f (by rw [← hsplit]; exact List.mem_append_left _ hf) m hm)
    refine ⟨?_, es.map AEv.ev, ?_, ?_⟩
    · constructor
      · intro nd hnd m hm
        have := e1 (by
          intro nd' hnd'
          simp only [List.mem_map] at hnd'
          obtain ⟨x, _, rfl⟩ := hnd'
          rfl) nd hnd
        rw [this] at hm; cases hm
      · intro f hf m hm
        rw [q1] at hf
        rw [i1]
        exact hqmem f (by rw [← hsplit]; exact List.mem_append_right _ hf) m hm
    · rw [h1]
      congr 1
      simp [Sim.abs, List.map_map, Function.comp_def]
    · rw [filter_isLocA_ev, l1]; rfl
  | advance ms => exact ⟨⟨hi.pend, hi.queue⟩, [], rfl, rfl⟩
  | partition a b => exact ⟨⟨hi.pend, hi.queue⟩, [], rfl, rfl⟩
  | heal a b =>
    simp only [Sim.step, locsOf, List.map_nil]
    have hi1 : SInv { c with parts := c.parts.filter (· ≠ Sim.norm a b) } := ⟨hi.pend, hi.queue⟩
    split
    · obtain ⟨es, h1, l1, i1⟩ := syncStep_sim H cfg _ hi1 a b
      exact ⟨i1, es, h1, l1⟩
    · exact ⟨hi1, [], rfl, rfl⟩
  | sync a b =>
    obtain ⟨es, h1, l1, i1⟩ := syncStep_sim H cfg c hi a b
    exact ⟨i1, es, h1, l1⟩
  | fullSync =>
    obtain ⟨es, h1, l1, i1⟩ := syncFold_sim H cfg (Sim.allPairs c.nodes.length) c hi
    exact ⟨i1, es, h1, l1⟩

theorem run_sim (H : AE.Hasher) (cfg : Cfg) (evs : List SEv) : ∀ (c : Sim), SInv c →
    SInv (c.run H cfg evs) ∧
    ∃ es : List AEv, (c.run H cfg evs).abs = c.abs.run es ∧ es.filter isLocA = (evs.flatMap locsOf).map AEv.ev := by
  induction evs with
  | nil => intro c hi; exact ⟨hi, [], rfl, rfl⟩
  | cons e evs ih =>
    intro c hi
    obtain ⟨hi1, es1, h1, f1⟩ := step_sim H cfg c hi e
    obtain ⟨hi2, es2, h2, f2⟩ := ih (c.step H cfg e) hi1
    refine ⟨hi2, es1 ++ es2, ?_, ?_⟩
    · simp only [Sim.run, List.foldl_cons] at h2 ⊢
      rw [h2, h1, runA_append]
    · simp [List.filter_append, f1, f2]

end SimC
end RedisVerif
