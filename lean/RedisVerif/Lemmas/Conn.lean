import RedisVerif.Model.Conn
import RedisVerif.Lemmas.Resp

/-
  Helper lemmas for C04: on a buffer that is a prefix of a stream of well-formed command frames
  the four recognisers (with `HEADER_LEN = 14` as written) never accept and never panic, the
  generic decoder yields exactly the frames, and the read loop is the buffer loop of C15.
-/
namespace RedisVerif.Conn
open RedisVerif.Resp

/-- a command: its arguments (the first is the name) -/
abbrev Cmd := List Bytes

def cmdFrame (c : Cmd) : Val := .array (c.map Val.bulk)
def encCmd (c : Cmd) : Bytes := encode2 (cmdFrame c)
/-- the byte stream of a pipeline -/
def stream (cmds : List Cmd) : Bytes := (cmds.map encCmd).flatten

theorem digits_cr (ds x y : Bytes) (d : Nat) (hd : AllDigits ds) (hne : ds ≠ [])
    (h : ds ++ 13 :: x = d :: 13 :: y) : ds = [d] ∧ x = y := by
  cases ds with
  | nil => exact absurd rfl hne
  | cons d1 ds' =>
    simp only [List.cons_append, List.cons.injEq] at h
    obtain ⟨h1, h2⟩ := h
    subst h1
    cases ds' with
    | nil =>
      simp at h2
      exact ⟨rfl, h2⟩
    | cons d2 _ =>
      simp only [List.cons_append, List.cons.injEq] at h2
      have := hd d2 (by simp)
      omega

theorem dec_single (n d : Nat) (h : dec n = [d]) : n + 48 = d := by
  have hv := dec_val n
  have hd := dec_digits n d (by rw [h]; simp)
  rw [h] at hv
  simp [digitsVal, isDigit, hd.1, hd.2] at hv
  omega

theorem encode2List_bulk_cons (a : Bytes) (as : List Bytes) :
    encode2ListS true ((a :: as).map Val.bulk) =
      36 :: (dec a.length ++ 13 :: 10 :: (a ++ 13 :: 10 :: encode2ListS true (as.map Val.bulk))) := by
  simp [encode2ListS, encode2S, crlf]

theorem encCmd_eq (c : Cmd) :
    encCmd c = 42 :: (dec c.length ++ 13 :: 10 :: encode2ListS true (c.map Val.bulk)) := by
  simp [encCmd, cmdFrame, encode2, encode2S, crlf]

/-- a frame that starts like `*2\r\n$3\r\n…` or `*3\r\n$3\r\n…` has, at offset 13, the `$` of its
    second argument and at offset 14 a decimal digit -/
theorem frame_shape (c : Cmd) (more : Bytes) (n0 : Nat) (hn0 : n0 = 50 ∨ n0 = 51)
    (h : (encCmd c ++ more).take 8 = [42, n0, 13, 10, 36, 51, 13, 10]) :
    ∃ x1 x2 x3 d tail, encCmd c = 42 :: n0 :: 13 :: 10 :: 36 :: 51 :: 13 :: 10 :: x1 :: x2 :: x3 :: 13 :: 10 :: 36 :: d :: tail
      ∧ 48 ≤ d ∧ d ≤ 57 := by
  rw [encCmd_eq] at h ⊢
  -- the element count
  have h1 : ∃ y, dec c.length ++ 13 :: 10 :: (encode2ListS true (c.map Val.bulk) ++ more) = n0 :: 13 :: y := by
    cases hd : dec c.length with
    | nil => exact absurd hd (dec_ne_nil _)
    | cons d1 ds =>
      rw [hd] at h
      cases ds with
      | nil => simp at h; exact ⟨_, by rw [h.1]; rfl⟩
      | cons d2 ds2 =>
        simp at h
        have := dec_digits c.length d2 (by rw [hd]; simp)
        omega
  obtain ⟨y, hy⟩ := h1
  have hcnt := digits_cr _ _ _ _ (dec_digits c.length) (dec_ne_nil _) hy
  have hlen := dec_single _ _ hcnt.1
  -- so there are at least two arguments
  match c, hlen with
  | [], hl => simp at hl; omega
  | [_], hl => simp at hl; omega
  | a1 :: a2 :: as, _ =>
    rw [hcnt.1] at h ⊢
    rw [encode2List_bulk_cons] at h ⊢
    simp only [List.cons_append, List.nil_append, List.append_assoc, List.take_succ_cons] at h
    -- length of the first argument
    have h2 : ∃ y, dec a1.length ++ 13 :: 10 :: (a1 ++ 13 :: 10 :: (encode2ListS true ((a2 :: as).map Val.bulk) ++ more)) = 51 :: 13 :: y := by
      cases hd : dec a1.length with
      | nil => exact absurd hd (dec_ne_nil _)
      | cons d1 ds =>
        rw [hd] at h
        cases ds with
        | nil => simp at h; exact ⟨_, by rw [h]; rfl⟩
        | cons d2 ds2 =>
          simp at h
          have := dec_digits a1.length d2 (by rw [hd]; simp)
          omega
    obtain ⟨y2, hy2⟩ := h2
    have hcnt2 := digits_cr _ _ _ _ (dec_digits a1.length) (dec_ne_nil _) hy2
    have hl1 := dec_single _ _ hcnt2.1
    match a1, hl1 with
    | [x1, x2, x3], _ =>
      rw [hcnt2.1, encode2List_bulk_cons]
      cases hd2 : dec a2.length with
      | nil => exact absurd hd2 (dec_ne_nil _)
      | cons e es =>
        have := dec_digits a2.length e (by rw [hd2]; simp)
        exact ⟨x1, x2, x3, e, _, by simp; rfl, this.1, this.2⟩
    | [], hl => simp at hl
    | [_], hl => simp at hl
    | [_, _], hl => simp at hl
    | _ :: _ :: _ :: _ :: _, hl => simp at hl

theorem startsWith_take (buf hdr : Bytes) (h : startsWith buf hdr = true) :
    buf.take hdr.length = hdr ∧ hdr.length ≤ buf.length := by
  unfold startsWith at h
  rw [List.isPrefixOf_iff_prefix] at h
  obtain ⟨t, ht⟩ := h
  subst ht
  simp

/-- on a buffer that is a prefix of (a well-formed frame followed by anything) a recogniser with
    `HEADER_LEN = 14` either declines or waits — and waits only while the frame is incomplete -/
theorem recog_dead_aux (buf rest more : Bytes) (c : Cmd) (hdr : Bytes) (n0 : Nat) (hn0 : n0 = 50 ∨ n0 = 51)
    (hhdr : hdr.take 8 = [42, n0, 13, 10, 36, 51, 13, 10]) (hlen : hdr.length = 13)
    (h : buf ++ rest = encCmd c ++ more) (hs : startsWith buf hdr = true) :
    15 ≤ (encCmd c).length ∧ (15 ≤ buf.length → ∃ d, (buf.drop 14).head? = some d ∧ d ≠ 36) := by
  have ht := startsWith_take buf hdr hs
  have h8 : (encCmd c ++ more).take 8 = [42, n0, 13, 10, 36, 51, 13, 10] := by
    rw [← h, List.take_append_of_le_length (by omega)]
    have : buf.take 8 = (buf.take hdr.length).take 8 := by
      rw [List.take_take]; congr 1; omega
    rw [this, ht.1, hhdr]
  obtain ⟨x1, x2, x3, d, tail, hshape, hd1, hd2⟩ := frame_shape c more n0 hn0 h8
  refine ⟨by rw [hshape]; simp, ?_⟩
  intro h15
  refine ⟨d, ?_, by omega⟩
  have e1 : (buf.drop 14).head? = buf[14]? := by simp [List.head?_drop]
  have e2 : buf[14]? = (buf ++ rest)[14]? := by
    rw [List.getElem?_append_left (by omega)]
  rw [e1, e2, h, hshape]
  simp

theorem recogGet_dead (ck : Bool) (buf rest more : Bytes) (c : Cmd) (h : buf ++ rest = encCmd c ++ more) :
    recogGet 14 ck buf = .notFast ∨ (recogGet 14 ck buf = .needMore ∧ buf.length < (encCmd c).length) := by
  unfold recogGet
  by_cases hs : (startsWith buf getHdrU || startsWith buf getHdrL) = true
  · have haux : 15 ≤ (encCmd c).length ∧ (15 ≤ buf.length → ∃ d, (buf.drop 14).head? = some d ∧ d ≠ 36) := by
      simp only [Bool.or_eq_true] at hs
      cases hs with
      | inl hs => exact recog_dead_aux buf rest more c getHdrU 50 (Or.inl rfl) (by decide) (by decide) h hs
      | inr hs => exact recog_dead_aux buf rest more c getHdrL 50 (Or.inl rfl) (by decide) (by decide) h hs
    simp only [hs, not_true_eq_false, if_false]
    by_cases hl : buf.length < 14 + 1
    · right; simp only [hl, if_true]; exact ⟨trivial, by omega⟩
    · left
      simp only [hl, if_false]
      obtain ⟨d, hd, hne⟩ := haux.2 (by omega)
      simp [hd, hne]
  · left; simp [hs]

theorem recogSet_dead (ck : Bool) (buf rest more : Bytes) (c : Cmd) (h : buf ++ rest = encCmd c ++ more) :
    recogSet 14 ck buf = .notFast ∨ (recogSet 14 ck buf = .needMore ∧ buf.length < (encCmd c).length) := by
  unfold recogSet
  by_cases hs : (startsWith buf setHdrU || startsWith buf setHdrL) = true
  · have haux : 15 ≤ (encCmd c).length ∧ (15 ≤ buf.length → ∃ d, (buf.drop 14).head? = some d ∧ d ≠ 36) := by
      simp only [Bool.or_eq_true] at hs
      cases hs with
      | inl hs => exact recog_dead_aux buf rest more c setHdrU 51 (Or.inr rfl) (by decide) (by decide) h hs
      | inr hs => exact recog_dead_aux buf rest more c setHdrL 51 (Or.inr rfl) (by decide) (by decide) h hs
    simp only [hs, not_true_eq_false, if_false]
    by_cases hl : buf.length < 14 + 1
    · right; simp only [hl, if_true]; exact ⟨trivial, by omega⟩
    · left
      simp only [hl, if_false]
      obtain ⟨d, hd, hne⟩ := haux.2 (by omega)
      simp [hd, hne]
  · left; simp [hs]

theorem recogGet_nil (ck : Bool) : recogGet 14 ck [] = .notFast := rfl
theorem recogSet_nil (ck : Bool) : recogSet 14 ck [] = .notFast := rfl

/-! ### the generic decoder on command frames -/

theorem wfList_bulk (c : Cmd) : Val.wfList codec1 (c.map Val.bulk) = true := by
  induction c with
  | nil => simp [Val.wfList]
  | cons a as ih => simp [Val.wfList, Val.wf, ih]

theorem depthList_bulk (c : Cmd) : Val.depthList (c.map Val.bulk) ≤ 1 := by
  induction c with
  | nil => simp [Val.depthList]
  | cons a as ih => simp [Val.depthList, Val.depth]; omega

theorem arrList_bulk (c : Cmd) : Val.arrList (c.map Val.bulk) = 0 := by
  induction c with
  | nil => simp [Val.arrList]
  | cons a as ih => simp [Val.arrList, Val.arr, ih]

theorem sanList_bulk (c : Cmd) : Val.sanList (c.map Val.bulk) = c.map Val.bulk := by
  induction c with
  | nil => simp [Val.sanList]
  | cons a as ih => simp [Val.sanList, Val.san, ih]

/-- the command's name (first argument) has no non-white-space character -/
def nameWs : Cmd → Bool
  | n :: _ => isWsName n
  | [] => false

/-- a command the handler can take: the decoder has the two stack frames a command frame needs, and
    — unless `check_acl_permission` is guarded (`nameGuard`, after the fix) — its name is not empty
    / white space only -/
def CmdOK (cfg : Config) (c : Cmd) : Prop := 2 ≤ cfg.env.depth ∧ (cfg.nameGuard = true ∨ nameWs c = false)

instance (cfg : Config) (c : Cmd) : Decidable (CmdOK cfg c) := by unfold CmdOK; infer_instance

theorem namePanics_cmdFrame (cfg : Config) (inTx : Bool) (c : Cmd) (h : CmdOK cfg c) :
    namePanics cfg.nameGuard inTx (cmdFrame c) = false := by
  unfold namePanics
  cases h.2 with
  | inl hg => simp [hg]
  | inr hw =>
    cases c with
    | nil => simp [cmdFrame]
    | cons n rest =>
      simp only [nameWs] at hw
      simp [cmdFrame, hw]

/-- a complete command frame at the front of the buffer is decoded as that frame -/
theorem parse1_frame (env : Env) (c : Cmd) (rest : Bytes) (hok : 2 ≤ env.depth)
    (hs : Small (encCmd c ++ rest)) :
    (parse1 env (encCmd c ++ rest)).out = .ok (cmdFrame c) (encCmd c).length := by
  have h := parseD_encode codec1 codec1_good maxNesting codec1_fixed env.mem env.depth 0 (cmdFrame c)
    (by have := depthList_bulk c; simp only [cmdFrame, Val.depth]; omega)
    (by simp [cmdFrame, Val.arr, arrList_bulk, maxNesting])
    (by simp [cmdFrame, Val.wf, wfList_bulk]) rest hs
  have hsan : (cmdFrame c).san = cmdFrame c := by simp [cmdFrame, Val.san, sanList_bulk]
  rw [hsan] at h
  exact h

/-- a proper prefix of a command frame: the decoder waits -/
theorem parse1_partial (env : Env) (c : Cmd) (buf ext : Bytes) (hok : 2 ≤ env.depth)
    (h : buf ++ ext = encCmd c) (hlt : buf.length < (encCmd c).length) (hs : Small (encCmd c)) :
    (parse1 env buf).out.isIncomplete = true := by
  cases hd : (parse1 env buf).out.isIncomplete with
  | true => rfl
  | false =>
    exfalso
    have hst := parseD_stable codec1 codec1_good env.mem env.depth 0 buf ext (by rw [h]; exact hs) hd
    have hfull := parse1_frame env c [] hok (by simpa using hs)
    simp only [List.append_nil] at hfull
    unfold parse1 parseG at hfull hd
    rw [← h, hst] at hfull
    have hcons := parseD_consumed codec1 codec1_good env.mem env.depth 0 buf
      (by unfold Small at *; rw [← h] at hs; simp at hs; omega) _ _ hfull
    rw [h] at hcons
    omega

/-! ### the collectors and the sequential loop on well-formed input -/

theorem collectGet_dead (ck : Bool) (fuel : Nat) (buf rest : Bytes) (cmds : List Cmd) (h : buf ++ rest = stream cmds) :
    collectGet 14 ck fuel buf = some ([], buf) := by
  cases fuel with
  | zero => rfl
  | succ f =>
    unfold collectGet
    cases cmds with
    | nil =>
      simp [stream] at h
      rw [h.1, recogGet_nil]
    | cons c cs =>
      simp only [stream, List.map_cons, List.flatten_cons] at h
      cases recogGet_dead ck buf rest _ c h with
      | inl hh => rw [hh]
      | inr hh => rw [hh.1]

theorem collectSet_dead (ck : Bool) (fuel : Nat) (buf rest : Bytes) (cmds : List Cmd) (h : buf ++ rest = stream cmds) :
    collectSet 14 ck fuel buf = some ([], buf) := by
  cases fuel with
  | zero => rfl
  | succ f =>
    unfold collectSet
    cases cmds with
    | nil =>
      simp [stream] at h
      rw [h.1, recogSet_nil]
    | cons c cs =>
      simp only [stream, List.map_cons, List.flatten_cons] at h
      cases recogSet_dead ck buf rest _ c h with
      | inl hh => rw [hh]
      | inr hh => rw [hh.1]

/-- the actions of a well-formed pipeline: every command executed once, in order, on the generic path -/
def execAll (cmds : List Cmd) : List Action := cmds.map (fun c => Action.exec (cmdFrame c) .generic)

theorem stream_cons (c : Cmd) (cs : List Cmd) : stream (c :: cs) = encCmd c ++ stream cs := by
  simp [stream]

theorem stream_append (a b : List Cmd) : stream (a ++ b) = stream a ++ stream b := by
  simp [stream]

theorem fastPath_dead (ck : Bool) (inTx : Bool) (buf rest more : Bytes) (c : Cmd) (h : buf ++ rest = encCmd c ++ more) :
    fastPath 14 ck inTx buf = .notFast ∨ (fastPath 14 ck inTx buf = .needMore ∧ buf.length < (encCmd c).length) := by
  unfold fastPath
  split
  · exact Or.inl rfl
  · split
    · exact Or.inl rfl
    · cases recogGet_dead ck buf rest more c h with
      | inl hg =>
        rw [hg]
        exact recogSet_dead ck buf rest more c h
      | inr hg =>
        rw [hg.1]
        exact Or.inr ⟨rfl, hg.2⟩

/-- configurations whose recognisers never take (a prefix of) a well-formed command frame: the code
    as it is (`HEADER_LEN = 14`: off by one, dead for well-formed frames), or — with the repaired
    recognisers and gate — a user WITHOUT unrestricted key access (`user_has_unrestricted_keys()` is
    false: neither the fast path nor the collectors are entered) -/
def DeadCfg (cfg : Config) : Prop :=
  (cfg.repaired = false ∧ cfg.headerLen = 14) ∨ (cfg.repaired = true ∧ cfg.unrestricted = false)

instance (cfg : Config) : Decidable (DeadCfg cfg) := by unfold DeadCfg; infer_instance

theorem DeadCfg.of14 {cfg : Config} (hr : cfg.repaired = false) (h14 : cfg.headerLen = 14) : DeadCfg cfg :=
  Or.inl ⟨hr, h14⟩

theorem fastPathC_nil (cfg : Config) (inTx : Bool) : fastPathC cfg inTx [] = .notFast := by
  unfold fastPathC fastPathR fastPath
  cases cfg.unrestricted <;> cases cfg.repaired <;> cases inTx <;> simp

theorem fastPathC_dead (cfg : Config) (hd : DeadCfg cfg) (inTx : Bool) (buf rest more : Bytes) (c : Cmd)
    (h : buf ++ rest = encCmd c ++ more) :
    fastPathC cfg inTx buf = .notFast ∨ (fastPathC cfg inTx buf = .needMore ∧ buf.length < (encCmd c).length) := by
  unfold fastPathC
  cases hd with
  | inl hd =>
    rw [hd.1, hd.2]
    cases cfg.unrestricted with
    | false => exact Or.inl rfl
    | true => simpa using fastPath_dead cfg.checked inTx buf rest more c h
  | inr hd =>
    rw [hd.2]
    exact Or.inl rfl

theorem batchGate_dead (cfg : Config) (hd : DeadCfg cfg) (tx : Bool) (fuel : Nat) (buf rest : Bytes) (cmds : List Cmd)
    (h : buf ++ rest = stream cmds) : batchGate cfg tx fuel buf = some ([], buf) := by
  unfold batchGate
  cases hd with
  | inl hd =>
    unfold collectGetC collectSetC
    rw [hd.1, hd.2]
    simp only [Bool.false_eq_true, if_false]
    split
    · rw [collectGet_dead cfg.checked fuel buf rest cmds h]
      simp only []
      split
      · rw [collectSet_dead cfg.checked fuel buf rest cmds h]
        simp [batchActs]
      · simp [batchActs]
    · rfl
  | inr hd =>
    simp [hd.1, hd.2]

theorem append_split (a b c d : Bytes) (h : a ++ b = c ++ d) (hl : c.length ≤ a.length) :
    ∃ t, a = c ++ t ∧ d = t ++ b := by
  rw [List.append_eq_append_iff] at h
  cases h with
  | inl h =>
    obtain ⟨a', h1, h2⟩ := h
    have : a' = [] := by
      have := congrArg List.length h1
      simp at this
      cases a' with
      | nil => rfl
      | cons _ _ => simp at this; omega
    subst this
    exact ⟨[], by simpa using h1.symm, by simpa using h2.symm⟩
  | inr h =>
    obtain ⟨c', h1, h2⟩ := h
    exact ⟨c', h1, h2⟩

theorem append_split' (a b c d : Bytes) (h : a ++ b = c ++ d) (hl : a.length < c.length) :
    ∃ t, a ++ t = c := by
  rw [List.append_eq_append_iff] at h
  cases h with
  | inl h =>
    obtain ⟨a', h1, _⟩ := h
    exact ⟨a', h1.symm⟩
  | inr h =>
    obtain ⟨c', h1, _⟩ := h
    have := congrArg List.length h1
    simp at this
    omega

/-- the sequential loop on a buffer that is a prefix of a well-formed stream executes exactly the
    complete frames in it, on the generic path, and keeps the incomplete tail -/
theorem seqLoop_wf (cfg : Config) (h14 : DeadCfg cfg) (hcodec : cfg.codec = codec1) (hdepth : 1 ≤ cfg.env.depth) :
    ∀ (cmds : List Cmd) (fuel : Nat) (buf rest : Bytes) (inTx : Bool),
      buf ++ rest = stream cmds → buf.length < fuel → Small (stream cmds) →
      (∀ c ∈ cmds, CmdOK cfg c) →
      ∃ (done left : List Cmd) (buf' : Bytes) (tx' : Bool),
        cmds = done ++ left ∧ buf = stream done ++ buf' ∧ buf' ++ rest = stream left ∧
        (∀ c cs, left = c :: cs → buf'.length < (encCmd c).length) ∧
        seqLoop cfg fuel buf inTx = (execAll done, buf', tx', false) := by
  intro cmds
  induction cmds with
  | nil =>
    intro fuel buf rest inTx h hf _ _
    simp [stream] at h
    obtain ⟨hb, hr⟩ := h
    subst hb
    refine ⟨[], [], [], inTx, rfl, by simp [stream], by simp [stream, hr], ?_, ?_⟩
    · intro c cs h; cases h
    · cases fuel with
      | zero => simp at hf
      | succ f =>
        have hp : (parseG codec1 cfg.env []).out = .incomplete .empty := by
          unfold parseG
          cases hd : cfg.env.depth with
          | zero => omega
          | succ d => simp [parseD]
        unfold seqLoop
        have hfp : fastPathC cfg inTx [] = .notFast := fastPathC_nil cfg inTx
        rw [hcodec]
        simp only [hfp, hp, execAll, List.map_nil]
  | cons c cs ih =>
    intro fuel buf rest inTx h hf hs hok
    rw [stream_cons] at h hs
    have hokc := hok c (by simp)
    have hsc : Small (encCmd c) := hs.of_append
    cases fuel with
    | zero => omega
    | succ f =>
      by_cases hle : (encCmd c).length ≤ buf.length
      · -- a complete frame is at the front
        obtain ⟨t, hbt, hrt⟩ := append_split buf rest (encCmd c) (stream cs) h hle
        have hfp : fastPathC cfg inTx buf = .notFast := by
          cases fastPathC_dead cfg h14 inTx buf rest (stream cs) c h with
          | inl hh => exact hh
          | inr hh => omega
        have hsb : Small (encCmd c ++ t) := by
          unfold Small at *
          have := congrArg List.length hrt
          simp at hs this ⊢
          omega
        have hp : (parseG codec1 cfg.env (encCmd c ++ t)).out = .ok (cmdFrame c) (encCmd c).length :=
          parse1_frame cfg.env c t hokc.1 hsb
        have hk1 : 1 ≤ (encCmd c).length := by
          rw [encCmd_eq]; simp
        have hscs : Small (stream cs) := by
          unfold Small at *; simp at hs ⊢; omega
        obtain ⟨done, left, buf', tx', e1, e2, e3, e4, e5⟩ :=
          ih f t rest (txAfter inTx (cmdFrame c)) hrt.symm
            (by rw [hbt] at hf; simp at hf; omega) hscs (fun x hx => hok x (by simp [hx]))
        refine ⟨c :: done, left, buf', tx', by simp [e1], ?_, e3, e4, ?_⟩
        · rw [hbt, stream_cons, e2]; simp
        · unfold seqLoop
          rw [hcodec, hfp]
          simp only []
          rw [hbt, hp]
          simp only [namePanics_cmdFrame cfg inTx c hokc, Bool.false_eq_true, if_false,
            List.drop_append_of_le_length (Nat.le_refl _), List.drop_length,
            List.nil_append]
          rw [e5]
          simp [execAll]
      · -- only a proper prefix of the next frame is there
        have hlt : buf.length < (encCmd c).length := by omega
        obtain ⟨ext, hext⟩ := append_split' buf rest (encCmd c) (stream cs) h hlt
        have hinc : (parseG codec1 cfg.env buf).out.isIncomplete = true :=
          parse1_partial cfg.env c buf ext hokc.1 hext hlt hsc
        refine ⟨[], c :: cs, buf, inTx, rfl, by simp [stream], by rw [stream_cons]; exact h, ?_, ?_⟩
        · intro c' cs' hh
          cases hh
          exact hlt
        · unfold seqLoop
          rw [hcodec]
          cases fastPathC_dead cfg h14 inTx buf rest (stream cs) c h with
          | inl hh =>
            rw [hh]
            simp only []
            cases hout : (parseG codec1 cfg.env buf).out with
            | incomplete k => simp [execAll]
            | ok v k => simp [hout, Outcome.isIncomplete] at hinc
            | error k => simp [hout, Outcome.isIncomplete] at hinc
            | crash k => simp [hout, Outcome.isIncomplete] at hinc
          | inr hh =>
            rw [hh.1]
            simp [execAll]

theorem encCmd_len_pos (c : Cmd) : 1 ≤ (encCmd c).length := by
  rw [encCmd_eq]; simp

theorem stream_len_le (a b : List Cmd) : (stream b).length ≤ (stream (a ++ b)).length := by
  rw [stream_append]; simp

/-- one `read()` on a well-formed stream: no batching, no fast path, no error — exactly the frames
    that are complete now are executed -/
theorem onRead_wf (cfg : Config) (h14 : DeadCfg cfg) (hcodec : cfg.codec = codec1) (hdepth : 1 ≤ cfg.env.depth)
    (cmds : List Cmd) (b0 chunk rest : Bytes) (tx : Bool)
    (h : (b0 ++ chunk) ++ rest = stream cmds) (hs : Small (stream cmds))
    (hmx0 : b0.length + chunk.length ≤ cfg.maxBuffer) (hok : ∀ c ∈ cmds, CmdOK cfg c) :
    ∃ (done left : List Cmd) (buf' : Bytes) (tx' : Bool),
      cmds = done ++ left ∧ buf' ++ rest = stream left ∧
      (∀ c cs, left = c :: cs → buf'.length < (encCmd c).length) ∧
      onRead cfg ⟨b0, tx, false⟩ chunk = (⟨buf', tx', false⟩, execAll done) := by
  have hlen : (b0 ++ chunk).length ≤ (stream cmds).length := by
    rw [← h]; simp
  obtain ⟨done, left, buf', tx', e1, _, e3, e4, e5⟩ :=
    seqLoop_wf cfg h14 hcodec hdepth cmds ((b0 ++ chunk).length + 1) (b0 ++ chunk) rest tx h (by omega) hs hok
  refine ⟨done, left, buf', tx', e1, e3, e4, ?_⟩
  unfold onRead
  have hmx : ¬ (b0.length + chunk.length > cfg.maxBuffer) := by omega
  simp only [Bool.false_eq_true, if_false, hmx]
  have hgate : batchGate cfg tx ((b0 ++ chunk).length + 1) (b0 ++ chunk) = some ([], b0 ++ chunk) :=
    batchGate_dead cfg h14 tx _ _ rest cmds h
  rw [hgate]
  simp only []
  rw [e5]
  simp

/-- every `read()` of every segmentation -/
theorem reads_wf (cfg : Config) (h14 : DeadCfg cfg) (hcodec : cfg.codec = codec1) (hdepth : 1 ≤ cfg.env.depth) :
    ∀ (chunks : List Bytes) (cmds : List Cmd) (b0 : Bytes) (tx : Bool) (acts : List Action),
      b0 ++ chunks.flatten = stream cmds → Small (stream cmds) → (stream cmds).length ≤ cfg.maxBuffer →
      (∀ c ∈ cmds, CmdOK cfg c) →
      (∀ c cs, cmds = c :: cs → b0.length < (encCmd c).length) →
      (chunks.foldl (fun (acc : St × List Action) c =>
          let (s', a) := onRead cfg acc.1 c; (s', acc.2 ++ a)) (⟨b0, tx, false⟩, acts)).2
        = acts ++ execAll cmds := by
  intro chunks
  induction chunks with
  | nil =>
    intro cmds b0 tx acts h _ _ _ hb
    simp at h
    cases cmds with
    | nil => simp [execAll]
    | cons c cs =>
      have := hb c cs rfl
      rw [h, stream_cons] at this
      simp at this
      omega
  | cons ch chunks ih =>
    intro cmds b0 tx acts h hs hmax hok _
    simp only [List.flatten_cons] at h
    obtain ⟨done, left, buf', tx', e1, e3, e4, e5⟩ :=
      onRead_wf cfg h14 hcodec hdepth cmds b0 ch chunks.flatten tx (by simpa using h) hs
        (by have := congrArg List.length h; simp at this; omega) hok
    simp only [List.foldl_cons, e5]
    have hsl : Small (stream left) := by
      have := stream_len_le done left
      unfold Small at *
      rw [← e1] at this
      omega
    have hml : (stream left).length ≤ cfg.maxBuffer := by
      have := stream_len_le done left
      rw [← e1] at this
      omega
    rw [ih left buf' tx' (acts ++ execAll done) e3 hsl hml
      (fun c hc => hok c (by rw [e1]; simp [hc])) e4]
    rw [e1]
    simp [execAll]

/-- every `read()` of every segmentation of a PREFIX of the stream (the client has sent only part
    of the pipeline so far — cut at any byte — and `rest` is still to come): exactly the commands
    that are complete in what has arrived have been executed, the buffer holds a proper prefix of
    the next frame -/
theorem reads_wf_prefix (cfg : Config) (h14 : DeadCfg cfg) (hcodec : cfg.codec = codec1) (hdepth : 1 ≤ cfg.env.depth) :
    ∀ (chunks : List Bytes) (cmds : List Cmd) (b0 rest : Bytes) (tx : Bool) (acts : List Action),
      (b0 ++ chunks.flatten) ++ rest = stream cmds → Small (stream cmds) → (stream cmds).length ≤ cfg.maxBuffer →
      (∀ c ∈ cmds, CmdOK cfg c) →
      (∀ c cs, cmds = c :: cs → b0.length < (encCmd c).length) →
      ∃ (done left : List Cmd) (buf' : Bytes) (tx' : Bool),
        cmds = done ++ left ∧ buf' ++ rest = stream left ∧
        (∀ c cs, left = c :: cs → buf'.length < (encCmd c).length) ∧
        chunks.foldl (fun (acc : St × List Action) c =>
          let (s', a) := onRead cfg acc.1 c; (s', acc.2 ++ a)) (⟨b0, tx, false⟩, acts)
          = (⟨buf', tx', false⟩, acts ++ execAll done) := by
  intro chunks
  induction chunks with
  | nil =>
    intro cmds b0 rest tx acts h _ _ _ hb
    exact ⟨[], cmds, b0, tx, rfl, by simpa using h, hb, by simp [execAll]⟩
  | cons ch chunks ih =>
    intro cmds b0 rest tx acts h hs hmax hok _
    have h' : (b0 ++ ch) ++ (chunks.flatten ++ rest) = stream cmds := by
      simpa [List.append_assoc] using h
    obtain ⟨done, left, buf', tx', e1, e3, e4, e5⟩ :=
      onRead_wf cfg h14 hcodec hdepth cmds b0 ch (chunks.flatten ++ rest) tx h' hs
        (by have := congrArg List.length h'; simp at this; omega) hok
    simp only [List.foldl_cons, e5]
    have hsl : Small (stream left) := by
      have := stream_len_le done left
      unfold Small at *
      rw [← e1] at this
      omega
    have hml : (stream left).length ≤ cfg.maxBuffer := by
      have := stream_len_le done left
      rw [← e1] at this
      omega
    obtain ⟨done2, left2, buf2, tx2, f1, f3, f4, f5⟩ :=
      ih left buf' rest tx' (acts ++ execAll done) (by simpa [List.append_assoc] using e3) hsl hml
        (fun c hc => hok c (by rw [e1]; simp [hc])) e4
    refine ⟨done ++ done2, left2, buf2, tx2, by rw [e1, f1]; simp, f3, f4, ?_⟩
    rw [f5]
    simp [execAll]

theorem splitReads_flatten (n : Nat) : ∀ (f : Nat) (seg : Bytes), (splitReads n f seg).flatten = seg := by
  intro f
  induction f with
  | zero => intro seg; simp [splitReads]
  | succ f ih =>
    intro seg
    unfold splitReads
    split
    · simp
    · simp [ih]

theorem flatMap_splitReads_flatten (n : Nat) (segs : List Bytes) :
    (segs.flatMap (fun s => splitReads n s.length s)).flatten = segs.flatten := by
  induction segs with
  | nil => simp
  | cons s ss ih => simp [List.flatMap_cons, splitReads_flatten, ih]

/-- MAIN LEMMA of C04: whatever the segmentation, the read size and the batching configuration,
    a connection that receives a well-formed pipeline executes every command exactly once, in
    order, on the generic path -/
theorem run_wf (cfg : Config) (h14 : DeadCfg cfg) (hcodec : cfg.codec = codec1) (hdepth : 1 ≤ cfg.env.depth)
    (cmds : List Cmd) (segs : List Bytes) (h : segs.flatten = stream cmds)
    (hs : Small (stream cmds)) (hmax : (stream cmds).length ≤ cfg.maxBuffer)
    (hok : ∀ c ∈ cmds, CmdOK cfg c) :
    run cfg segs = execAll cmds := by
  unfold run feedSegs St.init
  have := reads_wf cfg h14 hcodec hdepth (segs.flatMap (fun s => splitReads cfg.readSize s.length s)) cmds [] false []
    (by simp [flatMap_splitReads_flatten, h]) hs hmax hok
    (by intro c cs _; have := encCmd_len_pos c; simp; omega)
  simpa using this

/-! ### the overflow guard: frames that leave `read_size - 1` bytes of room never trip it -/

theorem splitReads_len (n : Nat) (hn : 1 ≤ n) : ∀ (f : Nat) (seg : Bytes), seg.length ≤ f →
    ∀ ch ∈ splitReads n f seg, ch.length ≤ n := by
  intro f
  induction f with
  | zero => intro seg h ch hc; simp [splitReads] at hc; subst hc; omega
  | succ f ih =>
    intro seg h ch hc
    unfold splitReads at hc
    split at hc
    · rename_i hle
      simp at hc
      subst hc
      omega
    · rename_i hle
      simp at hc
      cases hc with
      | inl e => subst e; simp; omega
      | inr e => exact ih (seg.drop n) (by simp; omega) ch e

/-- every `read()` of every segmentation, when every frame leaves `read_size - 1` bytes of room
    below `max_buffer_size` (the stream itself may be arbitrarily long) -/
theorem reads_wf_frames (cfg : Config) (h14 : DeadCfg cfg) (hcodec : cfg.codec = codec1) (hdepth : 1 ≤ cfg.env.depth) :
    ∀ (chunks : List Bytes) (cmds : List Cmd) (b0 : Bytes) (tx : Bool) (acts : List Action),
      b0 ++ chunks.flatten = stream cmds → Small (stream cmds) →
      (∀ c ∈ cmds, (encCmd c).length + cfg.readSize ≤ cfg.maxBuffer + 1) →
      (∀ ch ∈ chunks, ch.length ≤ cfg.readSize) →
      (∀ c ∈ cmds, CmdOK cfg c) →
      (∀ c cs, cmds = c :: cs → b0.length < (encCmd c).length) →
      (chunks.foldl (fun (acc : St × List Action) c =>
          let (s', a) := onRead cfg acc.1 c; (s', acc.2 ++ a)) (⟨b0, tx, false⟩, acts)).2
        = acts ++ execAll cmds := by
  intro chunks
  induction chunks with
  | nil =>
    intro cmds b0 tx acts h _ _ _ _ hb
    simp at h
    cases cmds with
    | nil => simp [execAll]
    | cons c cs =>
      have := hb c cs rfl
      rw [h, stream_cons] at this
      simp at this
      omega
  | cons ch chunks ih =>
    intro cmds b0 tx acts h hs hfr hch hok hb
    simp only [List.flatten_cons] at h
    have hmx : b0.length + ch.length ≤ cfg.maxBuffer := by
      cases cmds with
      | nil =>
        simp [stream] at h
        rw [h.1, h.2.1]; simp
      | cons c cs =>
        have h1 := hb c cs rfl
        have h2 := hfr c (by simp)
        have h3 := hch ch (by simp)
        omega
    obtain ⟨done, left, buf', tx', e1, e3, e4, e5⟩ :=
      onRead_wf cfg h14 hcodec hdepth cmds b0 ch chunks.flatten tx (by simpa using h) hs hmx hok
    simp only [List.foldl_cons, e5]
    have hsl : Small (stream left) := by
      have := stream_len_le done left
      unfold Small at *
      rw [← e1] at this
      omega
    rw [ih left buf' tx' (acts ++ execAll done) e3 hsl
      (fun c hc => hfr c (by rw [e1]; simp [hc])) (fun x hx => hch x (by simp [hx]))
      (fun c hc => hok c (by rw [e1]; simp [hc])) e4]
    rw [e1]
    simp [execAll]

/-- NO OVERFLOW BELOW THE LIMIT: a pipeline of any length whose every frame satisfies
    `|frame| + read_size ≤ max_buffer_size + 1` is executed completely, for every segmentation -/
theorem run_wf_frames (cfg : Config) (h14 : DeadCfg cfg) (hcodec : cfg.codec = codec1) (hdepth : 1 ≤ cfg.env.depth)
    (hrs : 1 ≤ cfg.readSize)
    (cmds : List Cmd) (segs : List Bytes) (h : segs.flatten = stream cmds)
    (hs : Small (stream cmds)) (hfr : ∀ c ∈ cmds, (encCmd c).length + cfg.readSize ≤ cfg.maxBuffer + 1)
    (hok : ∀ c ∈ cmds, CmdOK cfg c) :
    run cfg segs = execAll cmds := by
  unfold run feedSegs St.init
  have hch : ∀ ch ∈ segs.flatMap (fun s => splitReads cfg.readSize s.length s), ch.length ≤ cfg.readSize := by
    intro ch hc
    simp only [List.mem_flatMap] at hc
    obtain ⟨s, _, hcs⟩ := hc
    exact splitReads_len cfg.readSize hrs s.length s (Nat.le_refl _) ch hcs
  have := reads_wf_frames cfg h14 hcodec hdepth (segs.flatMap (fun s => splitReads cfg.readSize s.length s)) cmds [] false []
    (by simp [flatMap_splitReads_flatten, h]) hs hfr hch hok
    (by intro c cs _; have := encCmd_len_pos c; simp; omega)
  simpa using this

/-! ### arbitrary bytes after a well-formed pipeline: the earlier commands are unaffected -/

theorem collectGet_dead' (ck : Bool) (fuel : Nat) (buf rest more : Bytes) (c : Cmd) (h : buf ++ rest = encCmd c ++ more) :
    collectGet 14 ck fuel buf = some ([], buf) := by
  cases fuel with
  | zero => rfl
  | succ f =>
    unfold collectGet
    cases recogGet_dead ck buf rest more c h with
    | inl hh => rw [hh]
    | inr hh => rw [hh.1]

theorem collectSet_dead' (ck : Bool) (fuel : Nat) (buf rest more : Bytes) (c : Cmd) (h : buf ++ rest = encCmd c ++ more) :
    collectSet 14 ck fuel buf = some ([], buf) := by
  cases fuel with
  | zero => rfl
  | succ f =>
    unfold collectSet
    cases recogSet_dead ck buf rest more c h with
    | inl hh => rw [hh]
    | inr hh => rw [hh.1]

theorem batchGate_dead' (cfg : Config) (hd : DeadCfg cfg) (tx : Bool) (fuel : Nat) (buf rest more : Bytes) (c : Cmd)
    (h : buf ++ rest = encCmd c ++ more) : batchGate cfg tx fuel buf = some ([], buf) := by
  unfold batchGate
  cases hd with
  | inl hd =>
    unfold collectGetC collectSetC
    rw [hd.1, hd.2]
    simp only [Bool.false_eq_true, if_false]
    split
    · rw [collectGet_dead' cfg.checked fuel buf rest more c h]
      simp only []
      split
      · rw [collectSet_dead' cfg.checked fuel buf rest more c h]
        simp [batchActs]
      · simp [batchActs]
    · rfl
  | inr hd =>
    simp [hd.1, hd.2]

/-- outcome of the sequential loop on `stream cmds ++ junk`: either some commands are still
    incomplete (then nothing but complete commands was executed) or all commands were executed
    and whatever the junk caused comes after them -/
def SeqJunk (cfg : Config) (cmds : List Cmd) (junk : Bytes) (fuel : Nat) (buf rest : Bytes) (inTx : Bool) : Prop :=
  ∃ (done left : List Cmd), cmds = done ++ left ∧
    ((left = [] ∧ ∃ tail r tx cr, seqLoop cfg fuel buf inTx = (execAll done ++ tail, r, tx, cr)) ∨
     (∃ c cs buf' tx', left = c :: cs ∧ buf' ++ rest = stream left ++ junk ∧
        buf'.length < (encCmd c).length ∧ seqLoop cfg fuel buf inTx = (execAll done, buf', tx', false)))

theorem seqLoop_junk (cfg : Config) (h14 : DeadCfg cfg) (hcodec : cfg.codec = codec1) (junk : Bytes) :
    ∀ (cmds : List Cmd) (fuel : Nat) (buf rest : Bytes) (inTx : Bool),
      buf ++ rest = stream cmds ++ junk → buf.length < fuel → Small (stream cmds ++ junk) →
      (∀ c ∈ cmds, CmdOK cfg c) → SeqJunk cfg cmds junk fuel buf rest inTx := by
  intro cmds
  induction cmds with
  | nil =>
    intro fuel buf rest inTx _ _ _ _
    refine ⟨[], [], rfl, Or.inl ⟨rfl, ?_⟩⟩
    exact ⟨(seqLoop cfg fuel buf inTx).1, (seqLoop cfg fuel buf inTx).2.1, (seqLoop cfg fuel buf inTx).2.2.1,
      (seqLoop cfg fuel buf inTx).2.2.2, by simp [execAll]⟩
  | cons c cs ih =>
    intro fuel buf rest inTx h hf hs hok
    rw [stream_cons, List.append_assoc] at h hs
    have hokc := hok c (by simp)
    have hsc : Small (encCmd c) := hs.of_append
    cases fuel with
    | zero => omega
    | succ f =>
      by_cases hle : (encCmd c).length ≤ buf.length
      · obtain ⟨t, hbt, hrt⟩ := append_split buf rest (encCmd c) (stream cs ++ junk) h hle
        have hfp : fastPathC cfg inTx buf = .notFast := by
          cases fastPathC_dead cfg h14 inTx buf rest (stream cs ++ junk) c h with
          | inl hh => exact hh
          | inr hh => omega
        have hsb : Small (encCmd c ++ t) := by
          unfold Small at *
          have := congrArg List.length hrt
          simp at hs this ⊢
          omega
        have hp : (parseG codec1 cfg.env (encCmd c ++ t)).out = .ok (cmdFrame c) (encCmd c).length :=
          parse1_frame cfg.env c t hokc.1 hsb
        have hscs : Small (stream cs ++ junk) := by
          unfold Small at *; simp at hs ⊢; omega
        obtain ⟨done, left, e1, e2⟩ :=
          ih f t rest (txAfter inTx (cmdFrame c)) hrt.symm
            (by rw [hbt] at hf; simp at hf; have := encCmd_len_pos c; omega) hscs (fun x hx => hok x (by simp [hx]))
        have hstep : seqLoop cfg (f + 1) buf inTx =
            (Action.exec (cmdFrame c) .generic :: (seqLoop cfg f t (txAfter inTx (cmdFrame c))).1,
             (seqLoop cfg f t (txAfter inTx (cmdFrame c))).2.1,
             (seqLoop cfg f t (txAfter inTx (cmdFrame c))).2.2.1,
             (seqLoop cfg f t (txAfter inTx (cmdFrame c))).2.2.2) := by
          conv => lhs; unfold seqLoop
          rw [hcodec, hfp]
          simp only []
          rw [hbt, hp]
          simp only [namePanics_cmdFrame cfg inTx c hokc, Bool.false_eq_true, if_false,
            List.drop_append_of_le_length (Nat.le_refl _), List.drop_length, List.nil_append]
        refine ⟨c :: done, left, by simp [e1], ?_⟩
        cases e2 with
        | inl e2 =>
          obtain ⟨hl, tail, r, tx, cr, hseq⟩ := e2
          left
          refine ⟨hl, tail, r, tx, cr, ?_⟩
          rw [hstep, hseq]
          simp [execAll]
        | inr e2 =>
          obtain ⟨c', cs', buf', tx', hl, hb', hlt', hseq⟩ := e2
          right
          refine ⟨c', cs', buf', tx', hl, hb', hlt', ?_⟩
          rw [hstep, hseq]
          simp [execAll]
      · have hlt : buf.length < (encCmd c).length := by omega
        obtain ⟨ext, hext⟩ := append_split' buf rest (encCmd c) (stream cs ++ junk) h hlt
        have hinc : (parseG codec1 cfg.env buf).out.isIncomplete = true :=
          parse1_partial cfg.env c buf ext hokc.1 hext hlt hsc
        refine ⟨[], c :: cs, rfl, Or.inr ⟨c, cs, buf, inTx, rfl, by rw [stream_cons, List.append_assoc]; exact h, hlt, ?_⟩⟩
        unfold seqLoop
        rw [hcodec]
        cases fastPathC_dead cfg h14 inTx buf rest (stream cs ++ junk) c h with
        | inl hh =>
          rw [hh]
          simp only []
          cases hout : (parseG codec1 cfg.env buf).out with
          | incomplete k => simp [execAll]
          | ok v k => simp [hout, Outcome.isIncomplete] at hinc
          | error k => simp [hout, Outcome.isIncomplete] at hinc
          | crash k => simp [hout, Outcome.isIncomplete] at hinc
        | inr hh =>
          rw [hh.1]
          simp [execAll]

/-- reads only ever append actions -/
theorem reads_append (cfg : Config) : ∀ (chunks : List Bytes) (st : St) (acts : List Action),
    ∃ tail, (chunks.foldl (fun (acc : St × List Action) c =>
      let (s', a) := onRead cfg acc.1 c; (s', acc.2 ++ a)) (st, acts)).2 = acts ++ tail := by
  intro chunks
  induction chunks with
  | nil => intro st acts; exact ⟨[], by simp⟩
  | cons c cs ih =>
    intro st acts
    simp only [List.foldl_cons]
    obtain ⟨tail, ht⟩ := ih (onRead cfg st c).1 (acts ++ (onRead cfg st c).2)
    exact ⟨(onRead cfg st c).2 ++ tail, by rw [ht]; simp⟩

theorem reads_junk (cfg : Config) (h14 : DeadCfg cfg) (hcodec : cfg.codec = codec1) (junk : Bytes) :
    ∀ (chunks : List Bytes) (cmds : List Cmd) (b0 : Bytes) (tx : Bool) (acts : List Action),
      b0 ++ chunks.flatten = stream cmds ++ junk → Small (stream cmds ++ junk) →
      (stream cmds ++ junk).length ≤ cfg.maxBuffer → (∀ c ∈ cmds, CmdOK cfg c) →
      (∀ c cs, cmds = c :: cs → b0.length < (encCmd c).length) →
      ∃ tail, (chunks.foldl (fun (acc : St × List Action) c =>
          let (s', a) := onRead cfg acc.1 c; (s', acc.2 ++ a)) (⟨b0, tx, false⟩, acts)).2
        = acts ++ execAll cmds ++ tail := by
  intro chunks
  induction chunks with
  | nil =>
    intro cmds b0 tx acts h _ _ _ hb
    simp at h
    cases cmds with
    | nil => exact ⟨[], by simp [execAll]⟩
    | cons c cs =>
      have := hb c cs rfl
      rw [h, stream_cons] at this
      simp at this
      omega
  | cons ch chunks ih =>
    intro cmds b0 tx acts h hs hmax hok hb
    cases cmds with
    | nil =>
      obtain ⟨tail, ht⟩ := reads_append cfg (ch :: chunks) ⟨b0, tx, false⟩ acts
      exact ⟨tail, by rw [ht]; simp [execAll]⟩
    | cons c cs =>
      simp only [List.flatten_cons] at h
      have h' : (b0 ++ ch) ++ chunks.flatten = encCmd c ++ (stream cs ++ junk) := by
        rw [List.append_assoc, h, stream_cons, List.append_assoc]
      have hlen : (b0 ++ ch).length ≤ (stream (c :: cs) ++ junk).length := by
        rw [← h]; simp
      have hmx : ¬ (b0.length + ch.length > cfg.maxBuffer) := by
        simp only [List.length_append] at hlen hmax; omega
      have hgate : batchGate cfg tx ((b0 ++ ch).length + 1) (b0 ++ ch) = some ([], b0 ++ ch) :=
        batchGate_dead' cfg h14 tx _ _ _ _ c h'
      have hread : onRead cfg ⟨b0, tx, false⟩ ch =
          (⟨(seqLoop cfg ((b0 ++ ch).length + 1) (b0 ++ ch) tx).2.1,
            (seqLoop cfg ((b0 ++ ch).length + 1) (b0 ++ ch) tx).2.2.1,
            (seqLoop cfg ((b0 ++ ch).length + 1) (b0 ++ ch) tx).2.2.2⟩,
           (seqLoop cfg ((b0 ++ ch).length + 1) (b0 ++ ch) tx).1) := by
        unfold onRead
        simp only [Bool.false_eq_true, if_false, hmx]
        rw [hgate]
        simp
      obtain ⟨done, left, e1, e2⟩ := seqLoop_junk cfg h14 hcodec junk (c :: cs) ((b0 ++ ch).length + 1) (b0 ++ ch)
        chunks.flatten tx (by rw [List.append_assoc]; exact h) (by omega) hs hok
      simp only [List.foldl_cons, hread]
      cases e2 with
      | inl e2 =>
        obtain ⟨hl, tail, r, tx2, cr, hseq⟩ := e2
        rw [hseq]
        simp only []
        obtain ⟨tail2, ht2⟩ := reads_append cfg chunks ⟨r, tx2, cr⟩ (acts ++ (execAll done ++ tail))
        subst hl
        simp only [List.append_nil] at e1
        exact ⟨tail ++ tail2, by rw [ht2, e1]; simp⟩
      | inr e2 =>
        obtain ⟨c', cs', buf', tx', hl, hb', hlt', hseq⟩ := e2
        rw [hseq]
        simp only []
        have hsl : Small (stream left ++ junk) := by
          have := stream_len_le done left
          unfold Small at *
          rw [← e1] at this
          simp at hs ⊢
          omega
        have hml : (stream left ++ junk).length ≤ cfg.maxBuffer := by
          have := stream_len_le done left
          rw [← e1] at this
          simp at hmax ⊢
          omega
        obtain ⟨tail, ht⟩ := ih left buf' tx' (acts ++ execAll done) hb' hsl hml
          (fun x hx => hok x (by rw [e1]; simp [hx]))
          (by intro c2 cs2 h2; rw [hl] at h2; cases h2; exact hlt')
        exact ⟨tail, by rw [ht, e1]; simp [execAll]⟩

/-- whatever follows a well-formed pipeline — garbage, truncated frames, frames that make the
    recognisers or the decoder panic — and however everything is segmented: the commands of the
    pipeline are executed exactly once, in order, before anything else happens -/
theorem run_junk (cfg : Config) (h14 : DeadCfg cfg) (hcodec : cfg.codec = codec1)
    (cmds : List Cmd) (junk : Bytes) (segs : List Bytes) (h : segs.flatten = stream cmds ++ junk)
    (hs : Small (stream cmds ++ junk)) (hmax : (stream cmds ++ junk).length ≤ cfg.maxBuffer)
    (hok : ∀ c ∈ cmds, CmdOK cfg c) :
    ∃ tail, run cfg segs = execAll cmds ++ tail := by
  unfold run feedSegs St.init
  obtain ⟨tail, ht⟩ := reads_junk cfg h14 hcodec junk (segs.flatMap (fun s => splitReads cfg.readSize s.length s)) cmds [] false []
    (by simp [flatMap_splitReads_flatten, h]) hs hmax hok
    (by intro c cs _; have := encCmd_len_pos c; simp; omega)
  exact ⟨tail, by simpa using ht⟩

/-! ### no panic in the recognisers once their arithmetic is checked; no crash of the connection -/

theorem addU_checked (a b r : Nat) (h : addU true a b = some r) : r = a + b ∧ a + b < W := by
  unfold addU at h
  simp only [if_true] at h
  split at h
  · simp at h; omega
  · simp at h

theorem addU2_checked (a b t : Nat) (h : (addU true a b).bind (fun e => addU true e 2) = some t) :
    t = a + b + 2 ∧ a + b + 2 < W := by
  cases h1 : addU true a b with
  | none => simp [h1] at h
  | some e =>
    simp [h1] at h
    have := addU_checked a b e h1
    have := addU_checked e 2 t h
    omega

theorem slice_some (buf : Bytes) (a b : Nat) (h1 : a ≤ b) (h2 : b ≤ buf.length) :
    slice buf a b = some ((buf.take b).drop a) := by
  unfold slice
  have : ¬ (a > b ∨ b > buf.length) := by omega
  simp [this]

theorem recogGet_no_crash (h : Nat) (buf : Bytes) : recogGet h true buf ≠ .crash := by
  unfold recogGet
  split
  · simp
  · split
    · simp
    · simp only []
      split
      · simp
      · split
        · simp
        · split
          · simp
          · rename_i keyLen _
            split
            · simp
            · rename_i total ht
              have := addU2_checked _ _ _ ht
              split
              · simp
              · rename_i hlen
                unfold W at this
                rw [Nat.mod_eq_of_lt (by unfold W; omega)]
                rw [slice_some buf _ _ (by omega) (by omega)]
                simp

theorem recogSet_no_crash (h : Nat) (buf : Bytes) : recogSet h true buf ≠ .crash := by
  unfold recogSet
  split
  · simp
  · split
    · simp
    · simp only []
      split
      · simp
      · split
        · simp
        · split
          · simp
          · rename_i keyLen _
            split
            · simp
            · rename_i keyEnd vls hke
              rename_i kcrlf _ _ _ _
              have hke' : keyEnd = h + 1 + kcrlf + 2 + keyLen ∧ vls = keyEnd + 2 ∧ vls < W := by
                cases h1 : addU true (h + 1 + kcrlf + 2) keyLen with
                | none => simp [h1] at hke
                | some e =>
                  cases h2 : addU true e 2 with
                  | none => simp [h1, h2] at hke
                  | some v =>
                    simp [h1, h2] at hke
                    obtain ⟨he, hv⟩ := hke
                    subst he hv
                    have a1 := addU_checked _ _ _ h1
                    have a2 := addU_checked _ _ _ h2
                    exact ⟨a1.1, a2.1, by omega⟩
              simp only [if_true]
              by_cases hnm : buf.length ≤ vls
              · rw [if_pos hnm]; simp
              · rw [if_neg hnm, if_neg (by omega : ¬ vls ≥ buf.length)]
                by_cases h36 : buf[vls]? ≠ some 36
                · rw [if_pos h36]; simp
                · rw [if_neg h36]
                  cases hm : memchrCR (buf.drop (vls + 1)) with
                  | none => simp
                  | some vcrlf =>
                    simp only []
                    cases hpu : parseUsize ((buf.drop (vls + 1)).take vcrlf) with
                    | none => simp
                    | some valLen =>
                      simp only []
                      cases hadd : (addU true (vls + 1 + vcrlf + 2) valLen).bind (fun e => addU true e 2) with
                      | none => simp
                      | some total =>
                        simp only []
                        have ht' := addU2_checked _ _ _ hadd
                        by_cases hlen : buf.length < total
                        · rw [if_pos hlen]; simp
                        · rw [if_neg hlen]
                          unfold W at ht' hke'
                          rw [Nat.mod_eq_of_lt (by unfold W; omega)]
                          rw [slice_some buf _ keyEnd (by omega) (by omega)]
                          rw [slice_some buf _ _ (by omega) (by omega)]
                          simp

theorem recogGetR_no_crash (h : Nat) (buf : Bytes) : recogGetR h buf ≠ .crash := by
  unfold recogGetR
  split
  · simp
  · split
    · simp
    · simp only []
      split
      · simp
      · split
        · simp
        · split
          · simp
          · split
            · simp
            · rename_i keyLen _
              split
              · simp
              · rename_i total ht
                have := addU2_checked _ _ _ ht
                split
                · simp
                · rename_i hlen
                  rw [slice_some buf _ _ (by omega) (by omega)]
                  simp only []
                  split <;> simp

theorem recogSetR_no_crash (h : Nat) (buf : Bytes) : recogSetR h buf ≠ .crash := by
  unfold recogSetR
  split
  · simp
  · split
    · simp
    · simp only []
      split
      · simp
      · split
        · simp
        · split
          · simp
          · split
            · simp
            · rename_i keyLen _
              split
              · simp
              · rename_i keyEnd vls hke
                rename_i kcrlf _ _ _ _ _
                have hke' : keyEnd = h + 1 + kcrlf + 2 + keyLen ∧ vls = keyEnd + 2 ∧ vls < W := by
                  cases h1 : addU true (h + 1 + kcrlf + 2) keyLen with
                  | none => simp [h1] at hke
                  | some e =>
                    cases h2 : addU true e 2 with
                    | none => simp [h1, h2] at hke
                    | some v =>
                      simp [h1, h2] at hke
                      obtain ⟨he, hv⟩ := hke
                      subst he hv
                      have a1 := addU_checked _ _ _ h1
                      have a2 := addU_checked _ _ _ h2
                      exact ⟨a1.1, a2.1, by omega⟩
                by_cases hnm : buf.length ≤ vls
                · rw [if_pos hnm]; simp
                · rw [if_neg hnm]
                  by_cases h36 : buf[vls]? ≠ some 36
                  · rw [if_pos h36]; simp
                  · rw [if_neg h36]
                    cases hm : memchrCR (buf.drop (vls + 1)) with
                    | none => simp
                    | some vcrlf =>
                      simp only []
                      split
                      · simp
                      · cases hpu : parseUsize ((buf.drop (vls + 1)).take vcrlf) with
                        | none => simp
                        | some valLen =>
                          simp only []
                          cases hadd : (addU true (vls + 1 + vcrlf + 2) valLen).bind (fun e => addU true e 2) with
                          | none => simp
                          | some total =>
                            simp only []
                            have ht' := addU2_checked _ _ _ hadd
                            by_cases hlen : buf.length < total
                            · rw [if_pos hlen]; simp
                            · rw [if_neg hlen]
                              rw [slice_some buf _ keyEnd (by omega) (by omega)]
                              rw [slice_some buf _ _ (by omega) (by omega)]
                              simp only []
                              split <;> simp

theorem collectGetR_ok (h : Nat) : ∀ (f : Nat) (buf : Bytes),
    ∃ ks r, collectGetR h f buf = some (ks, r) ∧ r.length ≤ buf.length := by
  intro f
  induction f with
  | zero => intro buf; exact ⟨[], buf, rfl, Nat.le_refl _⟩
  | succ f ih =>
    intro buf
    unfold collectGetR
    cases hr : recogGetR h buf with
    | get key total =>
      obtain ⟨ks, r, e1, e2⟩ := ih (buf.drop total)
      simp only [e1]
      exact ⟨_, r, rfl, by simp at e2; omega⟩
    | crash => exact absurd hr (recogGetR_no_crash h buf)
    | set k v t => exact ⟨[], buf, rfl, Nat.le_refl _⟩
    | needMore => exact ⟨[], buf, rfl, Nat.le_refl _⟩
    | notFast => exact ⟨[], buf, rfl, Nat.le_refl _⟩

theorem collectSetR_ok (h : Nat) : ∀ (f : Nat) (buf : Bytes),
    ∃ ks r, collectSetR h f buf = some (ks, r) ∧ r.length ≤ buf.length := by
  intro f
  induction f with
  | zero => intro buf; exact ⟨[], buf, rfl, Nat.le_refl _⟩
  | succ f ih =>
    intro buf
    unfold collectSetR
    cases hr : recogSetR h buf with
    | set key val total =>
      obtain ⟨ks, r, e1, e2⟩ := ih (buf.drop total)
      simp only [e1]
      exact ⟨_, r, rfl, by simp at e2; omega⟩
    | crash => exact absurd hr (recogSetR_no_crash h buf)
    | get k t => exact ⟨[], buf, rfl, Nat.le_refl _⟩
    | needMore => exact ⟨[], buf, rfl, Nat.le_refl _⟩
    | notFast => exact ⟨[], buf, rfl, Nat.le_refl _⟩

theorem collectGet_ok (h : Nat) : ∀ (f : Nat) (buf : Bytes),
    ∃ ks r, collectGet h true f buf = some (ks, r) ∧ r.length ≤ buf.length := by
  intro f
  induction f with
  | zero => intro buf; exact ⟨[], buf, rfl, Nat.le_refl _⟩
  | succ f ih =>
    intro buf
    unfold collectGet
    cases hr : recogGet h true buf with
    | get key total =>
      obtain ⟨ks, r, e1, e2⟩ := ih (buf.drop total)
      simp only [e1]
      exact ⟨_, r, rfl, by simp at e2; omega⟩
    | crash => exact absurd hr (recogGet_no_crash h buf)
    | set k v t => exact ⟨[], buf, rfl, Nat.le_refl _⟩
    | needMore => exact ⟨[], buf, rfl, Nat.le_refl _⟩
    | notFast => exact ⟨[], buf, rfl, Nat.le_refl _⟩

theorem collectSet_ok (h : Nat) : ∀ (f : Nat) (buf : Bytes),
    ∃ ks r, collectSet h true f buf = some (ks, r) ∧ r.length ≤ buf.length := by
  intro f
  induction f with
  | zero => intro buf; exact ⟨[], buf, rfl, Nat.le_refl _⟩
  | succ f ih =>
    intro buf
    unfold collectSet
    cases hr : recogSet h true buf with
    | set key val total =>
      obtain ⟨ks, r, e1, e2⟩ := ih (buf.drop total)
      simp only [e1]
      exact ⟨_, r, rfl, by simp at e2; omega⟩
    | crash => exact absurd hr (recogSet_no_crash h buf)
    | get k t => exact ⟨[], buf, rfl, Nat.le_refl _⟩
    | needMore => exact ⟨[], buf, rfl, Nat.le_refl _⟩
    | notFast => exact ⟨[], buf, rfl, Nat.le_refl _⟩

def hasCrash : List Action → Bool
  | [] => false
  | .crash :: _ => true
  | _ :: rest => hasCrash rest

theorem hasCrash_append (a b : List Action) : hasCrash (a ++ b) = (hasCrash a || hasCrash b) := by
  induction a with
  | nil => simp [hasCrash]
  | cons x xs ih => cases x <;> simp [hasCrash, ih]

theorem hasCrash_map_exec (fs : List Val) : hasCrash (fs.map (fun g => Action.exec g .batch)) = false := by
  induction fs with
  | nil => simp [hasCrash]
  | cons x xs ih => simpa [hasCrash] using ih

theorem hasCrash_map_dropped (fs : List Val) : hasCrash (fs.map Action.dropped) = false := by
  induction fs with
  | nil => simp [hasCrash]
  | cons x xs ih => simpa [hasCrash] using ih

theorem hasCrash_map_exec_fast (fs : List Val) : hasCrash (fs.map (fun g => Action.exec g .fast)) = false := by
  induction fs with
  | nil => simp [hasCrash]
  | cons x xs ih => simpa [hasCrash] using ih

theorem hasCrash_batchActs (cfg : Config) (fs : List Val) : hasCrash (batchActs cfg fs) = false := by
  unfold batchActs
  split
  · exact hasCrash_map_exec fs
  · split
    · exact hasCrash_map_exec_fast fs
    · exact hasCrash_map_dropped fs

theorem collectGetC_ok (cfg : Config) (hck : cfg.checked = true) (f : Nat) (buf : Bytes) :
    ∃ ks r, collectGetC cfg f buf = some (ks, r) ∧ r.length ≤ buf.length := by
  unfold collectGetC
  split
  · exact collectGetR_ok _ f buf
  · rw [hck]; exact collectGet_ok _ f buf

theorem collectSetC_ok (cfg : Config) (hck : cfg.checked = true) (f : Nat) (buf : Bytes) :
    ∃ ks r, collectSetC cfg f buf = some (ks, r) ∧ r.length ≤ buf.length := by
  unfold collectSetC
  split
  · exact collectSetR_ok _ f buf
  · rw [hck]; exact collectSet_ok _ f buf

theorem fastPath_no_crash (h : Nat) (inTx : Bool) (buf : Bytes) : fastPath h true inTx buf ≠ .crash := by
  unfold fastPath
  split
  · simp
  · split
    · simp
    · cases hg : recogGet h true buf with
      | crash => exact absurd hg (recogGet_no_crash h buf)
      | notFast => exact recogSet_no_crash h buf
      | get k t => simp
      | set k v t => simp
      | needMore => simp

theorem fastPathR_no_crash (h : Nat) (inTx : Bool) (buf : Bytes) : fastPathR h inTx buf ≠ .crash := by
  unfold fastPathR
  split
  · simp
  · split
    · simp
    · cases hg : recogGetR h buf with
      | crash => exact absurd hg (recogGetR_no_crash h buf)
      | notFast => exact recogSetR_no_crash h buf
      | get k t => simp
      | set k v t => simp
      | needMore => simp

theorem fastPathC_no_crash (cfg : Config) (hck : cfg.checked = true) (inTx : Bool) (buf : Bytes) :
    fastPathC cfg inTx buf ≠ .crash := by
  unfold fastPathC
  split
  · split
    · exact fastPathR_no_crash _ _ _
    · rw [hck]; exact fastPath_no_crash _ _ _
  · simp

/-- the sequential loop of the repaired code never panics -/
theorem seqLoop_no_crash (cfg : Config) (hck : cfg.checked = true) (hng : cfg.nameGuard = true) (hcodec : cfg.codec = codec1)
    (hd : maxNesting + 1 ≤ cfg.env.depth) :
    ∀ (f : Nat) (buf : Bytes) (inTx : Bool), Small buf →
      hasCrash (seqLoop cfg f buf inTx).1 = false ∧ (seqLoop cfg f buf inTx).2.2.2 = false := by
  intro f
  induction f with
  | zero => intro buf inTx _; simp [seqLoop, hasCrash]
  | succ f ih =>
    intro buf inTx hs
    unfold seqLoop
    rw [hcodec]
    cases hfp : fastPathC cfg inTx buf with
    | crash => exact absurd hfp (fastPathC_no_crash cfg hck _ _)
    | get key total =>
      have := ih (buf.drop total) inTx (hs.drop total)
      simp only []
      exact ⟨by simpa [hasCrash] using this.1, this.2⟩
    | set key val total =>
      have := ih (buf.drop total) inTx (hs.drop total)
      simp only []
      exact ⟨by simpa [hasCrash] using this.1, this.2⟩
    | needMore => simp [hasCrash]
    | notFast =>
      simp only []
      have hnc := parseD_no_crash codec1 codec1_good maxNesting codec1_fixed cfg.env.mem cfg.env.depth 0 buf
        (Nat.zero_le _) (by omega) hs
      unfold NoCrash at hnc
      cases hout : (parseG codec1 cfg.env buf).out with
      | ok v k =>
        have := ih (buf.drop k) (txAfter inTx v) (hs.drop k)
        have hnp : namePanics cfg.nameGuard inTx v = false := by simp [namePanics, hng]
        simp only [hnp, Bool.false_eq_true, if_false]
        exact ⟨by simpa [hasCrash] using this.1, this.2⟩
      | incomplete _ => simp [hasCrash]
      | error _ => simp [hasCrash]
      | crash k =>
        unfold parseG at hout
        rw [hout] at hnc
        simp [Outcome.isCrash] at hnc

theorem onRead_no_crash (cfg : Config) (hck : cfg.checked = true) (hng : cfg.nameGuard = true) (hcodec : cfg.codec = codec1)
    (hd : maxNesting + 1 ≤ cfg.env.depth) (hmax : cfg.maxBuffer < 72057594037927936) (st : St) (chunk : Bytes) :
    hasCrash (onRead cfg st chunk).2 = false := by
  unfold onRead
  split
  · simp [hasCrash]
  · split
    · simp [hasCrash]
    · rename_i hnov
      simp only []
      have hs : Small (st.buf ++ chunk) := by
        unfold Small; simp; omega
      have hgate : ∃ a b, batchGate cfg st.inTx ((st.buf ++ chunk).length + 1) (st.buf ++ chunk) = some (a, b) ∧
          hasCrash a = false ∧ b.length ≤ (st.buf ++ chunk).length := by
        unfold batchGate
        split
        · obtain ⟨ks, r, e1, e2⟩ := collectGetC_ok cfg hck ((st.buf ++ chunk).length + 1) (st.buf ++ chunk)
          rw [e1]
          simp only []
          split
          · obtain ⟨ks2, r2, e3, e4⟩ := collectSetC_ok cfg hck ((st.buf ++ chunk).length + 1) r
            rw [e3]
            exact ⟨_, r2, rfl, by simp [hasCrash_append, hasCrash_batchActs], by omega⟩
          · exact ⟨_, r, rfl, hasCrash_batchActs _ _, e2⟩
        · exact ⟨[], _, rfl, rfl, Nat.le_refl _⟩
      obtain ⟨a, b, e1, e2, e3⟩ := hgate
      rw [e1]
      simp only []
      have hsb : Small b := by unfold Small at *; omega
      have := seqLoop_no_crash cfg hck hng hcodec hd ((st.buf ++ chunk).length + 1) b st.inTx hsb
      rw [hasCrash_append, e2, this.1]
      rfl

theorem reads_no_crash (cfg : Config) (hck : cfg.checked = true) (hng : cfg.nameGuard = true) (hcodec : cfg.codec = codec1)
    (hd : maxNesting + 1 ≤ cfg.env.depth) (hmax : cfg.maxBuffer < 72057594037927936) :
    ∀ (chunks : List Bytes) (st : St) (acts : List Action), hasCrash acts = false →
      hasCrash (chunks.foldl (fun (acc : St × List Action) c =>
        let (s', a) := onRead cfg acc.1 c; (s', acc.2 ++ a)) (st, acts)).2 = false := by
  intro chunks
  induction chunks with
  | nil => intro st acts h; simpa using h
  | cons c cs ih =>
    intro st acts h
    simp only [List.foldl_cons]
    apply ih
    rw [hasCrash_append, h, onRead_no_crash cfg hck hng hcodec hd hmax st c]
    rfl

/-- NO CRASH of the connection, whatever bytes arrive in whatever segments -/
theorem run_no_crash (cfg : Config) (hck : cfg.checked = true) (hng : cfg.nameGuard = true) (hcodec : cfg.codec = codec1)
    (hd : maxNesting + 1 ≤ cfg.env.depth) (hmax : cfg.maxBuffer < 72057594037927936) (segs : List Bytes) :
    hasCrash (run cfg segs) = false := by
  unfold run feedSegs
  exact reads_no_crash cfg hck hng hcodec hd hmax _ _ _ rfl

/-! ### the shared buffer pool: every connection starts from empty buffers -/

/-- every buffer waiting in the pool is empty -/
def Pool.AllEmpty (p : Pool) : Prop := ∀ b ∈ p.q, b = Buf.empty

theorem Pool.init_allEmpty (n : Nat) (cl : Bool) : (Pool.init n cl).AllEmpty := by
  intro b hb
  simp [Pool.init] at hb
  exact hb.2

theorem Pool.acquire_empty (p : Pool) (h : p.AllEmpty) :
    p.acquire.1 = Buf.empty ∧ p.acquire.2.AllEmpty ∧ p.acquire.2.clears = p.clears := by
  unfold Pool.acquire
  cases hq : p.q with
  | nil => exact ⟨rfl, by intro b hb; exact h b hb, rfl⟩
  | cons b rest =>
    refine ⟨h b (by rw [hq]; simp), ?_, rfl⟩
    intro x hx
    exact h x (by rw [hq]; simp [hx])

theorem Pool.release_allEmpty (p : Pool) (h : p.AllEmpty) (hc : p.clears = true) (b : Buf) (keep : Bool) :
    (p.release b keep).AllEmpty ∧ (p.release b keep).clears = true := by
  unfold Pool.release
  split
  · refine ⟨?_, hc⟩
    intro x hx
    simp [hc] at hx
    cases hx with
    | inl hx => exact h x hx
    | inr hx => exact hx
  · exact ⟨h, hc⟩

/-- what the client of `spec` receives from a server that never had another client -/
def solo (cfg : Config) (spec : ConnSpec) : List Action' := (runConn cfg Buf.empty Buf.empty spec).1

/-- invariant of the server: the pool holds only empty buffers, and every client so far received
    what it would have received alone -/
def SrvOK (cfg : Config) (specs : List ConnSpec) (s : Srv) : Prop :=
  s.pool.AllEmpty ∧ s.pool.clears = true ∧
  ∀ o ∈ s.outs, ∃ spec, specs[o.1]? = some spec ∧ o.2 = solo cfg spec

theorem srvStep_ok (cfg : Config) (specs : List ConnSpec) (s : Srv) (ev : Ev) (h : SrvOK cfg specs s) :
    SrvOK cfg specs (srvStep cfg specs s ev) := by
  obtain ⟨h1, h2, h3⟩ := h
  cases ev with
  | start i =>
    cases hs : specs[i]? with
    | none => simp only [srvStep, hs]; exact ⟨h1, h2, h3⟩
    | some spec =>
      simp only [srvStep, hs]
      have a1 := Pool.acquire_empty s.pool h1
      have a2 := Pool.acquire_empty s.pool.acquire.2 a1.2.1
      refine ⟨a2.2.1, by rw [a2.2.2, a1.2.2]; exact h2, ?_⟩
      intro o ho
      simp at ho
      cases ho with
      | inl ho => exact h3 o ho
      | inr ho =>
        subst ho
        refine ⟨spec, hs, ?_⟩
        simp only [solo, a1.1, a2.1]
  | finish i kr kw =>
    cases hf : s.live.find? (fun x => x.1 = i) with
    | none => simp only [srvStep, hf]; exact ⟨h1, h2, h3⟩
    | some x =>
      obtain ⟨_, rb, wb⟩ := x
      simp only [srvStep, hf]
      have r1 := Pool.release_allEmpty s.pool h1 h2 rb kr
      have r2 := Pool.release_allEmpty _ r1.1 r1.2 wb kw
      exact ⟨r2.1, r2.2, h3⟩

theorem serve_ok (cfg : Config) (specs : List ConnSpec) (evs : List Ev) (s : Srv) (h : SrvOK cfg specs s) :
    SrvOK cfg specs (evs.foldl (srvStep cfg specs) s) := by
  induction evs generalizing s with
  | nil => exact h
  | cons e es ih => exact ih _ (srvStep_ok cfg specs s e h)

/-- without write failures everything a connection produces reaches its client: the pooled,
    flushing run of a connection that starts from empty buffers is `Conn.run` -/
theorem runConn_eq_run (cfg : Config) (segs : List Bytes) :
    (runConn cfg Buf.empty Buf.empty ⟨segs, none⟩).1 =
      ((run cfg segs).filter (fun a => !a.isDropped)).map Action'.act := by
  unfold runConn run feedSegs Buf.empty St.init
  simp only [List.isEmpty_nil, if_true]
  have key : ∀ (chunks : List Bytes) (s : IOSt) (acc : St × List Action),
      s.st = acc.1 → s.out = acc.2.filter (fun a => !a.isDropped) → s.ended = acc.1.closed → (s.ended = false → s.wbuf = []) →
      (chunks.foldl (ioRead cfg none) s).out =
        ((chunks.foldl (fun (acc : St × List Action) c => let (s', a) := onRead cfg acc.1 c; (s', acc.2 ++ a)) acc).2).filter (fun a => !a.isDropped) := by
    intro chunks
    induction chunks with
    | nil => intro s acc _ h2 _ _; simpa using h2
    | cons c cs ih =>
      intro s acc h1 h2 h3 h4
      simp only [List.foldl_cons]
      apply ih
      · -- state
        unfold ioRead
        cases he : s.ended with
        | true =>
          simp only [if_true]
          have hcl : acc.1.closed = true := by rw [← h3, he]
          simp [onRead, hcl, h1]
        | false =>
          simp only [Bool.false_eq_true, if_false]
          rw [h1]
          split <;> (try split) <;> (try split) <;> simp_all
      · unfold ioRead
        cases he : s.ended with
        | true =>
          simp only [if_true]
          have hcl : acc.1.closed = true := by rw [← h3, he]
          simp [onRead, hcl, h2]
        | false =>
          simp only [Bool.false_eq_true, if_false]
          have hw := h4 he
          rw [h1, hw]
          split <;> (try split) <;> (try split) <;> simp_all
      · unfold ioRead
        cases he : s.ended with
        | true =>
          simp only [if_true]
          have hcl : acc.1.closed = true := by rw [← h3, he]
          simp [onRead, hcl, he]
        | false =>
          simp only [Bool.false_eq_true, if_false]
          rw [h1]
          split <;> (try split) <;> (try split) <;> simp_all
      · unfold ioRead
        cases he : s.ended with
        | true => simp only [if_true]; intro h; rw [he] at h; exact absurd h (by decide)
        | false =>
          simp only [Bool.false_eq_true, if_false]
          have hw := h4 he
          rw [hw]
          split <;> (try split) <;> (try split) <;> simp_all
  rw [key _ _ (⟨[], false, false⟩, []) rfl rfl rfl (fun _ => rfl)]

/-! ### the look-alike class: exactly the byte strings the GET recogniser (HEADER_LEN = 14) accepts -/

/-- `buf` is a GET look-alike with key `key`, `total` bytes long: the 13-byte header, ONE ARBITRARY
    byte, `$`, a decimal usize without CR, CR, ONE ARBITRARY byte, as many key bytes, and at least
    two more bytes (arbitrary).  A well-formed frame has a digit where the `$` is. -/
def GetLookalike (buf key : Bytes) (total : Nat) : Prop :=
  ∃ (hdr : Bytes) (x : Nat) (digits : Bytes) (y : Nat) (tail : Bytes),
    (hdr = getHdrU ∨ hdr = getHdrL) ∧
    buf = hdr ++ x :: 36 :: (digits ++ 13 :: y :: (key ++ tail)) ∧
    13 ∉ digits ∧ parseUsize digits = some key.length ∧ 2 ≤ tail.length ∧
    total = 13 + 2 + digits.length + 2 + key.length + 2 ∧ total < W

theorem memchrCR_append (a b : Bytes) (h : 13 ∉ a) : memchrCR (a ++ 13 :: b) = some a.length := by
  induction a with
  | nil => simp [memchrCR]
  | cons x xs ih =>
    simp at h
    simp only [List.cons_append, memchrCR]
    rw [if_neg (fun e => h.1 e.symm), ih h.2]
    simp

theorem memchrCR_some : ∀ (s : Bytes) (r : Nat), memchrCR s = some r →
    s = s.take r ++ 13 :: s.drop (r + 1) ∧ 13 ∉ s.take r ∧ r < s.length := by
  intro s
  induction s with
  | nil => intro r h; simp [memchrCR] at h
  | cons x xs ih =>
    intro r h
    unfold memchrCR at h
    by_cases hx : x = 13
    · simp [hx] at h
      subst h
      simp [hx]
    · simp only [hx, if_false] at h
      cases hq : memchrCR xs with
      | none => simp [hq] at h
      | some q =>
        simp [hq] at h
        subst h
        obtain ⟨h1, h2, h3⟩ := ih q hq
        refine ⟨?_, ?_, by simp; omega⟩
        · simp only [List.take_succ_cons, List.drop_succ_cons, List.cons_append]
          rw [← h1]
        · simp only [List.take_succ_cons, List.mem_cons, not_or]
          exact ⟨fun e => hx e.symm, h2⟩

theorem getLookalike_accepted (buf key : Bytes) (total : Nat) (h : GetLookalike buf key total) :
    recogGet 14 true buf = .get key total := by
  obtain ⟨hdr, x, digits, y, tail, hh, hb, h13, hpu, ht, htot, hw⟩ := h
  have hmem := memchrCR_append digits (y :: (key ++ tail)) h13
  have hadd : (addU true (14 + 1 + (digits.length + 1) + 1) key.length).bind (fun e => addU true e 2) = some total := by
    unfold addU
    have e1 : 14 + 1 + (digits.length + 1) + 1 + key.length < W := by omega
    simp only [if_true, e1, Option.bind_some]
    have e2 : 14 + 1 + (digits.length + 1) + 1 + key.length + 2 < W := by omega
    simp only [e2, if_true]
    congr 1; omega
  have hslice : ∀ (pre : Bytes), pre.length = 13 →
      slice (pre ++ x :: 36 :: (digits ++ 13 :: y :: (key ++ tail))) (14 + 1 + (digits.length + 1) + 1)
        ((14 + 1 + (digits.length + 1) + 1 + key.length) % W) = some key := by
    intro pre hp
    rw [Nat.mod_eq_of_lt (by omega)]
    rw [slice_some _ _ _ (by omega) (by simp [hp]; omega)]
    congr 1
    have e : pre ++ x :: 36 :: (digits ++ 13 :: y :: (key ++ tail)) =
        (pre ++ x :: 36 :: (digits ++ [13, y])) ++ (key ++ tail) := by simp
    have el : (pre ++ x :: 36 :: (digits ++ [13, y])).length = 14 + 1 + (digits.length + 1) + 1 := by
      simp [hp]; omega
    generalize pre ++ x :: 36 :: (digits ++ [13, y]) = P at e el
    rw [e, ← el]
    have t1 : (P ++ (key ++ tail)).take (P.length + key.length) = P ++ key := by
      rw [List.take_append, List.take_of_length_le (by omega)]
      simp
    rw [t1, List.drop_left']
    rfl
  subst hb
  unfold recogGet
  rcases hh with rfl | rfl
  · have hs : (startsWith (getHdrU ++ x :: 36 :: (digits ++ 13 :: y :: (key ++ tail))) getHdrU ||
        startsWith (getHdrU ++ x :: 36 :: (digits ++ 13 :: y :: (key ++ tail))) getHdrL) = true := by
      simp [startsWith, getHdrU, List.isPrefixOf]
    have hl : ¬ (getHdrU ++ x :: 36 :: (digits ++ 13 :: y :: (key ++ tail))).length < 14 + 1 := by
      simp [getHdrU]
    have hd : (getHdrU ++ x :: 36 :: (digits ++ 13 :: y :: (key ++ tail))).drop 14 = 36 :: (digits ++ 13 :: y :: (key ++ tail)) := by
      simp [getHdrU]
    have hlen : ¬ (getHdrU ++ x :: 36 :: (digits ++ 13 :: y :: (key ++ tail))).length < total := by
      simp [getHdrU]; omega
    simp only [hs, not_true_eq_false, if_false, hl, hd, List.head?_cons, ne_eq, not_true_eq_false,
      List.drop_succ_cons, List.drop_zero, hmem, List.take_left', hpu, hadd, hlen]
    simp only [hslice getHdrU rfl]
  · have hs : (startsWith (getHdrL ++ x :: 36 :: (digits ++ 13 :: y :: (key ++ tail))) getHdrU ||
        startsWith (getHdrL ++ x :: 36 :: (digits ++ 13 :: y :: (key ++ tail))) getHdrL) = true := by
      simp [startsWith, getHdrU, getHdrL, List.isPrefixOf]
    have hl : ¬ (getHdrL ++ x :: 36 :: (digits ++ 13 :: y :: (key ++ tail))).length < 14 + 1 := by
      simp [getHdrL]
    have hd : (getHdrL ++ x :: 36 :: (digits ++ 13 :: y :: (key ++ tail))).drop 14 = 36 :: (digits ++ 13 :: y :: (key ++ tail)) := by
      simp [getHdrL]
    have hlen : ¬ (getHdrL ++ x :: 36 :: (digits ++ 13 :: y :: (key ++ tail))).length < total := by
      simp [getHdrL]; omega
    simp only [hs, not_true_eq_false, if_false, hl, hd, List.head?_cons, ne_eq, not_true_eq_false,
      List.drop_succ_cons, List.drop_zero, hmem, List.take_left', hpu, hadd, hlen]
    simp only [hslice getHdrL rfl]

theorem slice_eq (buf : Bytes) (a b : Nat) (r : Bytes) (h : slice buf a b = some r) :
    a ≤ b ∧ b ≤ buf.length ∧ r = (buf.take b).drop a := by
  unfold slice at h
  split at h
  · simp at h
  · simp at h; exact ⟨by omega, by omega, h.symm⟩

theorem getLookalike_of_accepted (buf key : Bytes) (total : Nat) (h : recogGet 14 true buf = .get key total) :
    GetLookalike buf key total := by
  unfold recogGet at h
  split at h
  · simp at h
  · rename_i hsw
    split at h
    · simp at h
    · rename_i hlen
      simp only [] at h
      split at h
      · simp at h
      · rename_i h36
        split at h
        · simp at h
        · rename_i r hr
          split at h
          · simp at h
          · rename_i n hn
            split at h
            · simp at h
            · rename_i tot hadd
              split at h
              · simp at h
              · rename_i hge
                split at h
                · simp at h
                · rename_i k hsl
                  simp at h
                  obtain ⟨hk, ht⟩ := h
                  subst hk ht
                  have ha := addU2_checked _ _ _ hadd
                  rw [Nat.mod_eq_of_lt (by unfold W at *; omega)] at hsl
                  obtain ⟨s1, s2, s3⟩ := slice_eq _ _ _ _ hsl
                  simp only [List.drop_drop] at hr hn
                  obtain ⟨m1, m2, m3⟩ := memchrCR_some _ _ hr
                  -- the header
                  simp only [Decidable.not_not, Bool.or_eq_true] at hsw
                  have hhdr : ∃ hdr, (hdr = getHdrU ∨ hdr = getHdrL) ∧ buf.take 13 = hdr := by
                    cases hsw with
                    | inl hs => exact ⟨getHdrU, Or.inl rfl, (startsWith_take buf getHdrU hs).1⟩
                    | inr hs => exact ⟨getHdrL, Or.inr rfl, (startsWith_take buf getHdrL hs).1⟩
                  obtain ⟨hdr, hh, hhd⟩ := hhdr
                  have hl15 : 15 ≤ buf.length := by omega
                  -- byte 14 is `$`
                  have h14 : buf[14]? = some 36 := by
                    have : (buf.drop 14).head? = buf[14]? := by simp [List.head?_drop]
                    rw [← this]
                    simpa using h36
                  -- cut the buffer
                  have e0 : buf = buf.take 13 ++ buf.drop 13 := (List.take_append_drop 13 buf).symm
                  have e1 : buf.drop 13 = buf[13] :: buf.drop 14 := by
                    rw [List.drop_eq_getElem_cons (by omega)]
                  have e2 : buf.drop 14 = 36 :: buf.drop 15 := by
                    rw [List.drop_eq_getElem_cons (by omega)]
                    congr 1
                    have := List.getElem?_eq_getElem (l := buf) (i := 14) (by omega)
                    rw [this] at h14
                    simpa using h14
                  have hr15 : (1 + 14 : Nat) = 15 := rfl
                  rw [hr15] at m1 m2 m3 hn
                  -- what follows the CR: one byte, the key, at least two more
                  have hrest : (buf.drop 15).length = buf.length - 15 := by simp
                  have hdl : ((buf.drop 15).drop (r + 1)).length = buf.length - 15 - (r + 1) := by simp; omega
                  have hb1 : ∃ y b', (buf.drop 15).drop (r + 1) = y :: b' := by
                    cases hq : (buf.drop 15).drop (r + 1) with
                    | nil => rw [hq] at hdl; simp at hdl; omega
                    | cons y b' => exact ⟨y, b', rfl⟩
                  obtain ⟨y, b', hb'⟩ := hb1
                  have hb'l : b'.length = buf.length - 15 - (r + 1) - 1 := by
                    rw [hb'] at hdl; simp at hdl; omega
                  have hkey : (buf.take (14 + 1 + (r + 1) + 1 + n)).drop (14 + 1 + (r + 1) + 1) = b'.take n := by
                    have eb : buf = (buf.take 13 ++ buf[13] :: 36 :: ((buf.drop 15).take r ++ [13, y])) ++ b' := by
                      conv => lhs; rw [e0, e1, e2, m1, hb']
                      simp
                    have el : (buf.take 13 ++ buf[13] :: 36 :: ((buf.drop 15).take r ++ [13, y])).length = 14 + 1 + (r + 1) + 1 := by
                      simp; omega
                    generalize buf.take 13 ++ buf[13] :: 36 :: ((buf.drop 15).take r ++ [13, y]) = P at eb el
                    rw [eb, ← el, List.take_append, List.take_of_length_le (by omega)]
                    simp
                  have hk : k = b'.take n := by rw [s3]; exact hkey
                  have hkl : k.length = n := by rw [hk]; simp; omega
                  have hDl : ((buf.drop 15).take r).length = r := by simp; omega
                  refine ⟨hdr, buf[13], (buf.drop 15).take r, y, b'.drop n, hh, ?_, m2, ?_, ?_, ?_, ?_⟩
                  · conv => lhs; rw [e0, e1, e2, m1, hb', hhd]
                    rw [hk, List.take_append_drop]
                  · rw [hn, hkl]
                  · simp; omega
                  · rw [hDl, hkl]; omega
                  · omega

end RedisVerif.Conn
