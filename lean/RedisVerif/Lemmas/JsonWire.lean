import RedisVerif.Lemmas.Json

/-!
  The laws of `Lemmas/Json.lean` for the concrete codecs of `Model/Json.lean`: every serialised type of a
  gossip frame, up to `GossipMessage` itself (`lawful_msg`, `closed_msg`).
-/
namespace RedisVerif
namespace Json

open Bincode (WLww WMap WCrdt WRv WDelta)

/-- the literal starts with a byte other than `x` -/
def headNe (p : Bytes) (x : Nat) : Bool :=
  match p with
  | h :: _ => h != x
  | [] => false

theorem pre_head_of {α : Type} {c : Codec α} (p : Bytes) (x : Nat) (hp : headNe p x = true) : HeadNe (pre p c) x := by
  cases p with
  | nil => simp [headNe] at hp
  | cons h t =>
    simp only [headNe, bne_iff_ne, ne_eq] at hp
    exact pre_head h t x hp

/-- the two literals differ at a position both have -/
def clash : Bytes → Bytes → Bool
  | a :: p, b :: q => a != b || clash p q
  | _, _ => false

theorem strip_clash (p q y : Bytes) (h : clash p q = true) : strip p (q ++ y) = none := by
  induction p generalizing q with
  | nil => simp [clash] at h
  | cons a p ih =>
    cases q with
    | nil => simp [clash] at h
    | cons b q =>
      simp only [clash, Bool.or_eq_true, bne_iff_ne, ne_eq] at h
      simp only [List.cons_append, strip]
      split
      · rename_i hab
        rcases h with h | h
        · exact absurd hab h
        · exact ih q h
      · rfl

/-- one alternative of an externally tagged enum: `tag ++ body ++ "}"` -/
theorem alt_rt {α : Type} {c : Codec α} (hc : Lawful c) (a : α) (rest : Bytes) (ha : c.ok a) :
    (post c [125]).dec (c.enc a ++ [125] ++ rest) = some (a, rest) :=
  post_rt [125] hc rfl a rest ha

theorem alt_exact {α : Type} {c : Codec α} (hc : Lawful c) (tag bs r : Bytes) (hs : strip tag bs = some r) (x : α)
    (r' : Bytes) (hd : (post c [125]).dec r = some (x, r')) : bs = tag ++ (c.enc x ++ [125]) ++ r' ∧ c.ok x := by
  obtain ⟨e1, o1⟩ := (lawful_post [125] hc rfl).exact r x r' hd
  refine ⟨?_, o1⟩
  rw [strip_exact tag bs r hs, e1]
  show tag ++ ((c.enc x ++ [125]) ++ r') = tag ++ (c.enc x ++ [125]) ++ r'
  simp

/-! ## leaves -/

theorem lawful_sds : Lawful sds := (lawful_seq 91 93 lawful_u8 rfl (by decide) (natBelow_head 256 93 rfl)).1
theorem closed_sds : Closed sds := (lawful_seq 91 93 lawful_u8 rfl (by decide) (natBelow_head 256 93 rfl)).2

theorem lawful_clock : Lawful clock :=
  lawful_pre _ (lawful_post _ (lawful_pairSep _ lawful_u64 lawful_u64 (by decide +kernel)) (by decide +kernel))
theorem closed_clock : Closed clock :=
  closed_pre _ (post_rt _ (lawful_pairSep _ lawful_u64 lawful_u64 (by decide +kernel)) (by decide +kernel))

theorem lawful_tag : Lawful tag :=
  lawful_pre _ (lawful_post _ (lawful_pairSep _ lawful_u64 lawful_u64 (by decide +kernel)) (by decide +kernel))
theorem tag_head : HeadNe tag 93 := pre_head_of _ 93 (by decide +kernel)

theorem lawful_qnat : Lawful (pre [34] (post u64 [34])) := lawful_pre [34] (lawful_post [34] lawful_u64 rfl)

theorem lawful_umapElem : Lawful (pairSep (pre [34] (post u64 [34])) [58] u64) :=
  lawful_pairSep [58] lawful_qnat lawful_u64 rfl

theorem umapElem_head : HeadNe (pairSep (pre [34] (post u64 [34])) [58] u64) 125 :=
  pairSep_head [58] 125 (pre_head 34 [] 125 (by decide))

theorem lawful_umap : Lawful umap := (lawful_seq 123 125 lawful_umapElem rfl (by decide) umapElem_head).1
theorem closed_umap : Closed umap := (lawful_seq 123 125 lawful_umapElem rfl (by decide) umapElem_head).2

theorem lawful_counts (field : String) : Lawful (counts field) :=
  lawful_pre _ (lawful_post _ lawful_umap (by decide +kernel))
theorem closed_counts (field : String) : Closed (counts field) :=
  closed_pre _ (post_rt _ lawful_umap (by decide +kernel))
theorem countsClocks_head : HeadNe (counts "clocks") 110 := pre_head_of _ 110 (by decide +kernel)

theorem sds_head : HeadNe sds 110 := seq_head u8 91 93 110 (by decide)

theorem lawful_lwwBody : Lawful (pairSep (opt sds) (lit ",\"timestamp\":") (pairSep clock (lit ",\"tombstone\":") bool)) :=
  lawful_pairSep _ (lawful_opt lawful_sds sds_head) (lawful_pairSep _ lawful_clock lawful_bool (by decide +kernel))
    (by decide +kernel)

theorem lawful_lww : Lawful lww :=
  lawful_xmap (lawful_pre _ (lawful_post _ lawful_lwwBody (by decide +kernel))) _ _ (fun _ => rfl) (fun _ => rfl)

theorem closed_lww : Closed lww :=
  closed_xmap (closed_pre _ (post_rt _ lawful_lwwBody (by decide +kernel))) _ _ (fun _ => rfl)

theorem lww_head : HeadNe lww 125 := xmap_head _ _ 125 (pre_head_of _ 125 (by decide +kernel))

theorem lawful_tags : Lawful tags := (lawful_seq 91 93 lawful_tag rfl (by decide) tag_head).1

theorem lawful_orElems : Lawful orElems :=
  (lawful_seq 123 125 (lawful_pairSep [58] lawful_str.1 lawful_tags rfl) rfl (by decide)
    (pairSep_head [58] 125 (str_head 125 (by decide)))).1

theorem lawful_hashFields : Lawful hashFields :=
  (lawful_seq 123 125 (lawful_pairSep [58] lawful_str.1 lawful_lww rfl) rfl (by decide)
    (pairSep_head [58] 125 (str_head 125 (by decide)))).1

theorem lawful_gcounterBody : Lawful gcounterBody := lawful_counts "counts"

theorem lawful_pnBody : Lawful pnBody :=
  lawful_pre _ (lawful_post _ (lawful_pairSep _ lawful_gcounterBody lawful_gcounterBody (by decide +kernel)) (by decide +kernel))

theorem lawful_arrStr : Lawful (arr str) := (lawful_seq 91 93 lawful_str.1 rfl (by decide) (str_head 93 (by decide))).1

theorem lawful_gsetBody : Lawful gsetBody := lawful_pre _ (lawful_post _ lawful_arrStr (by decide +kernel))

theorem lawful_orsetBody : Lawful orsetBody :=
  lawful_pre _ (lawful_post _ (lawful_pairSep _ lawful_orElems lawful_umap (by decide +kernel)) (by decide +kernel))

/-! ## `CrdtValue` -/

theorem crdt_rt (v : WCrdt) (rest : Bytes) (hv : crdt.ok v) : crdt.dec (crdt.enc v ++ rest) = some (v, rest) := by
  cases v with
  | lww r =>
    show crdt.dec (tagLww ++ (lww.enc r ++ [125]) ++ rest) = _
    unfold crdt
    simp only [List.append_assoc, strip_append]
    have := alt_rt lawful_lww r rest hv
    simp only [List.append_assoc] at this
    rw [this]
  | gcounter c =>
    show crdt.dec (tagGCounter ++ (gcounterBody.enc c ++ [125]) ++ rest) = _
    unfold crdt
    simp only [List.append_assoc]
    rw [strip_clash tagLww tagGCounter _ (by decide +kernel), strip_append]
    have := alt_rt lawful_gcounterBody c rest hv
    simp only [List.append_assoc] at this
    simp only
    rw [this]
  | pncounter p n =>
    show crdt.dec (tagPNCounter ++ (pnBody.enc (p, n) ++ [125]) ++ rest) = _
    unfold crdt
    simp only [List.append_assoc]
    rw [strip_clash tagLww tagPNCounter _ (by decide +kernel), strip_clash tagGCounter tagPNCounter _ (by decide +kernel),
      strip_append]
    have := alt_rt lawful_pnBody (p, n) rest hv
    simp only [List.append_assoc] at this
    simp only
    rw [this]
  | gset s =>
    show crdt.dec (tagGSet ++ (gsetBody.enc s ++ [125]) ++ rest) = _
    unfold crdt
    simp only [List.append_assoc]
    rw [strip_clash tagLww tagGSet _ (by decide +kernel), strip_clash tagGCounter tagGSet _ (by decide +kernel),
      strip_clash tagPNCounter tagGSet _ (by decide +kernel), strip_append]
    have := alt_rt lawful_gsetBody s rest hv
    simp only [List.append_assoc] at this
    simp only
    rw [this]
  | orset e nx =>
    show crdt.dec (tagORSet ++ (orsetBody.enc (e, nx) ++ [125]) ++ rest) = _
    unfold crdt
    simp only [List.append_assoc]
    rw [strip_clash tagLww tagORSet _ (by decide +kernel), strip_clash tagGCounter tagORSet _ (by decide +kernel),
      strip_clash tagPNCounter tagORSet _ (by decide +kernel), strip_clash tagGSet tagORSet _ (by decide +kernel),
      strip_append]
    have := alt_rt lawful_orsetBody (e, nx) rest hv
    simp only [List.append_assoc] at this
    simp only
    rw [this]
  | hash h =>
    show crdt.dec (tagHash ++ (hashFields.enc h ++ [125]) ++ rest) = _
    unfold crdt
    simp only [List.append_assoc]
    rw [strip_clash tagLww tagHash _ (by decide +kernel), strip_clash tagGCounter tagHash _ (by decide +kernel),
      strip_clash tagPNCounter tagHash _ (by decide +kernel), strip_clash tagGSet tagHash _ (by decide +kernel),
      strip_clash tagORSet tagHash _ (by decide +kernel), strip_append]
    have := alt_rt lawful_hashFields h rest hv
    simp only [List.append_assoc] at this
    simp only
    rw [this]

theorem crdt_exact (bs : Bytes) (v : WCrdt) (rest : Bytes) (h : crdt.dec bs = some (v, rest)) :
    bs = crdt.enc v ++ rest ∧ crdt.ok v := by
  unfold crdt at h
  simp only at h
  split at h
  · rename_i r hs
    split at h
    · rename_i x r' hd
      simp only [Option.some.injEq, Prod.mk.injEq] at h
      obtain ⟨hv, hr⟩ := h
      subst hv; subst hr
      exact alt_exact lawful_lww _ _ _ hs x r' hd
    · cases h
  · split at h
    · rename_i r hs
      split at h
      · rename_i x r' hd
        simp only [Option.some.injEq, Prod.mk.injEq] at h
        obtain ⟨hv, hr⟩ := h
        subst hv; subst hr
        exact alt_exact lawful_gcounterBody _ _ _ hs x r' hd
      · cases h
    · split at h
      · rename_i r hs
        split at h
        · rename_i x r' hd
          simp only [Option.some.injEq, Prod.mk.injEq] at h
          obtain ⟨hv, hr⟩ := h
          subst hv; subst hr
          exact alt_exact lawful_pnBody _ _ _ hs x r' hd
        · cases h
      · split at h
        · rename_i r hs
          split at h
          · rename_i x r' hd
            simp only [Option.some.injEq, Prod.mk.injEq] at h
            obtain ⟨hv, hr⟩ := h
            subst hv; subst hr
            exact alt_exact lawful_gsetBody _ _ _ hs x r' hd
          · cases h
        · split at h
          · rename_i r hs
            split at h
            · rename_i x r' hd
              simp only [Option.some.injEq, Prod.mk.injEq] at h
              obtain ⟨hv, hr⟩ := h
              subst hv; subst hr
              exact alt_exact lawful_orsetBody _ _ _ hs x r' hd
            · cases h
          · split at h
            · rename_i r hs
              split at h
              · rename_i x r' hd
                simp only [Option.some.injEq, Prod.mk.injEq] at h
                obtain ⟨hv, hr⟩ := h
                subst hv; subst hr
                exact alt_exact lawful_hashFields _ _ _ hs x r' hd
              · cases h
            · cases h

theorem lawful_crdt : Lawful crdt := ⟨fun a rest ha _ => crdt_rt a rest ha, crdt_exact⟩

theorem append_head (p : Bytes) (x : Nat) (hp : headNe p x = true) (y : Bytes) : ∃ h t, p ++ y = h :: t ∧ h ≠ x := by
  cases p with
  | nil => simp [headNe] at hp
  | cons h t => exact ⟨h, t ++ y, rfl, by simpa [headNe] using hp⟩

theorem crdt_head : HeadNe crdt 110 := by
  intro v
  cases v with
  | lww r => exact append_head tagLww 110 (by decide +kernel) _
  | gcounter c => exact append_head tagGCounter 110 (by decide +kernel) _
  | pncounter p n => exact append_head tagPNCounter 110 (by decide +kernel) _
  | gset s => exact append_head tagGSet 110 (by decide +kernel) _
  | orset e nx => exact append_head tagORSet 110 (by decide +kernel) _
  | hash h => exact append_head tagHash 110 (by decide +kernel) _

/-! ## `ReplicatedValue`, `ReplicationDelta` -/

theorem lawful_rvBody : Lawful
    (pairSep crdt (lit ",\"vector_clock\":") (pairSep (opt (counts "clocks")) (lit ",\"expiry_ms\":")
      (pairSep (opt u64) (lit ",\"timestamp\":") (pairSep clock (lit ",\"replication_factor\":") (opt u8))))) :=
  lawful_pairSep _ lawful_crdt
    (lawful_pairSep _ (lawful_opt (lawful_counts "clocks") countsClocks_head)
      (lawful_pairSep _ (lawful_opt lawful_u64 (natBelow_head _ 110 rfl))
        (lawful_pairSep _ lawful_clock (lawful_opt lawful_u8 (natBelow_head _ 110 rfl)) (by decide +kernel))
        (by decide +kernel))
      (by decide +kernel))
    (by decide +kernel)

theorem lawful_rv : Lawful rv :=
  lawful_xmap (lawful_pre _ (lawful_post _ lawful_rvBody (by decide +kernel))) _ _ (fun _ => rfl) (fun _ => rfl)

theorem lawful_deltaBody : Lawful (pairSep str (lit ",\"value\":") (pairSep rv (lit ",\"source_replica\":") u64)) :=
  lawful_pairSep _ lawful_str.1 (lawful_pairSep _ lawful_rv lawful_u64 (by decide +kernel)) (by decide +kernel)

theorem lawful_delta : Lawful delta :=
  lawful_xmap (lawful_pre _ (lawful_post _ lawful_deltaBody (by decide +kernel))) _ _ (fun _ => rfl) (fun _ => rfl)

theorem delta_head : HeadNe delta 93 := xmap_head _ _ 93 (pre_head_of _ 93 (by decide +kernel))

theorem lawful_deltas : Lawful (arr delta) := (lawful_seq 91 93 lawful_delta rfl (by decide) delta_head).1
theorem closed_deltas : Closed (arr delta) := (lawful_seq 91 93 lawful_delta rfl (by decide) delta_head).2

/-! ## `GossipMessage` -/

theorem lawful_deltaBatchBody : Lawful deltaBatchBody :=
  lawful_pre _ (lawful_post _ (lawful_pairSep _ lawful_u64 (lawful_pairSep _ lawful_deltas lawful_u64 (by decide +kernel))
    (by decide +kernel)) (by decide +kernel))

theorem lawful_targetedBody : Lawful targetedBody :=
  lawful_pre _ (lawful_post _ (lawful_pairSep _ lawful_u64 (lawful_pairSep _ lawful_u64
    (lawful_pairSep _ lawful_deltas lawful_u64 (by decide +kernel)) (by decide +kernel)) (by decide +kernel)) (by decide +kernel))

theorem lawful_known : Lawful (obj (pairSep str [58] u64)) :=
  (lawful_seq 123 125 (lawful_pairSep [58] lawful_str.1 lawful_u64 rfl) rfl (by decide)
    (pairSep_head [58] 125 (str_head 125 (by decide)))).1

theorem lawful_syncRequestBody : Lawful syncRequestBody :=
  lawful_pre _ (lawful_post _ (lawful_pairSep _ lawful_u64 lawful_known (by decide +kernel)) (by decide +kernel))

theorem lawful_syncResponseBody : Lawful syncResponseBody :=
  lawful_pre _ (lawful_post _ (lawful_pairSep _ lawful_u64 lawful_deltas (by decide +kernel)) (by decide +kernel))

theorem lawful_heartbeatBody : Lawful heartbeatBody :=
  lawful_pre _ (lawful_post _ (lawful_pairSep _ lawful_u64 lawful_u64 (by decide +kernel)) (by decide +kernel))

theorem msg_rt (m : WMsg) (rest : Bytes) (hm : msg.ok m) : msg.dec (msg.enc m ++ rest) = some (m, rest) := by
  cases m with
  | deltaBatch s ds e =>
    show msg.dec (tagDeltaBatch ++ (deltaBatchBody.enc (s, ds, e) ++ [125]) ++ rest) = _
    unfold msg
    simp only [List.append_assoc, strip_append]
    have := alt_rt lawful_deltaBatchBody (s, ds, e) rest hm
    simp only [List.append_assoc] at this
    rw [this]
  | targeted s t ds e =>
    show msg.dec (tagTargeted ++ (targetedBody.enc (s, t, ds, e) ++ [125]) ++ rest) = _
    unfold msg
    simp only [List.append_assoc]
    rw [strip_clash tagDeltaBatch tagTargeted _ (by decide +kernel), strip_append]
    have := alt_rt lawful_targetedBody (s, t, ds, e) rest hm
    simp only [List.append_assoc] at this
    simp only
    rw [this]
  | syncRequest s k =>
    show msg.dec (tagSyncRequest ++ (syncRequestBody.enc (s, k) ++ [125]) ++ rest) = _
    unfold msg
    simp only [List.append_assoc]
    rw [strip_clash tagDeltaBatch tagSyncRequest _ (by decide +kernel), strip_clash tagTargeted tagSyncRequest _ (by decide +kernel),
      strip_append]
    have := alt_rt lawful_syncRequestBody (s, k) rest hm
    simp only [List.append_assoc] at this
    simp only
    rw [this]
  | syncResponse s ds =>
    show msg.dec (tagSyncResponse ++ (syncResponseBody.enc (s, ds) ++ [125]) ++ rest) = _
    unfold msg
    simp only [List.append_assoc]
    rw [strip_clash tagDeltaBatch tagSyncResponse _ (by decide +kernel), strip_clash tagTargeted tagSyncResponse _ (by decide +kernel),
      strip_clash tagSyncRequest tagSyncResponse _ (by decide +kernel), strip_append]
    have := alt_rt lawful_syncResponseBody (s, ds) rest hm
    simp only [List.append_assoc] at this
    simp only
    rw [this]
  | heartbeat s e =>
    show msg.dec (tagHeartbeat ++ (heartbeatBody.enc (s, e) ++ [125]) ++ rest) = _
    unfold msg
    simp only [List.append_assoc]
    rw [strip_clash tagDeltaBatch tagHeartbeat _ (by decide +kernel), strip_clash tagTargeted tagHeartbeat _ (by decide +kernel),
      strip_clash tagSyncRequest tagHeartbeat _ (by decide +kernel), strip_clash tagSyncResponse tagHeartbeat _ (by decide +kernel),
      strip_append]
    have := alt_rt lawful_heartbeatBody (s, e) rest hm
    simp only [List.append_assoc] at this
    simp only
    rw [this]

theorem msg_exact (bs : Bytes) (m : WMsg) (rest : Bytes) (h : msg.dec bs = some (m, rest)) :
    bs = msg.enc m ++ rest ∧ msg.ok m := by
  unfold msg at h
  simp only at h
  split at h
  · rename_i r hs
    split at h
    · rename_i x r' hd
      simp only [Option.some.injEq, Prod.mk.injEq] at h
      obtain ⟨hv, hr⟩ := h
      subst hv; subst hr
      exact alt_exact lawful_deltaBatchBody _ _ _ hs x r' hd
    · cases h
  · split at h
    · rename_i r hs
      split at h
      · rename_i x r' hd
        simp only [Option.some.injEq, Prod.mk.injEq] at h
        obtain ⟨hv, hr⟩ := h
        subst hv; subst hr
        exact alt_exact lawful_targetedBody _ _ _ hs x r' hd
      · cases h
    · split at h
      · rename_i r hs
        split at h
        · rename_i x r' hd
          simp only [Option.some.injEq, Prod.mk.injEq] at h
          obtain ⟨hv, hr⟩ := h
          subst hv; subst hr
          exact alt_exact lawful_syncRequestBody _ _ _ hs x r' hd
        · cases h
      · split at h
        · rename_i r hs
          split at h
          · rename_i x r' hd
            simp only [Option.some.injEq, Prod.mk.injEq] at h
            obtain ⟨hv, hr⟩ := h
            subst hv; subst hr
            exact alt_exact lawful_syncResponseBody _ _ _ hs x r' hd
          · cases h
        · split at h
          · rename_i r hs
            split at h
            · rename_i x r' hd
              simp only [Option.some.injEq, Prod.mk.injEq] at h
              obtain ⟨hv, hr⟩ := h
              subst hv; subst hr
              exact alt_exact lawful_heartbeatBody _ _ _ hs x r' hd
            · cases h
          · cases h

theorem lawful_msg : Lawful msg := ⟨fun a rest ha _ => msg_rt a rest ha, msg_exact⟩
theorem closed_msg : Closed msg := msg_rt

end Json
end RedisVerif
