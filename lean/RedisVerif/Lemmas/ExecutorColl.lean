import RedisVerif.Lemmas.ExecutorClock
import RedisVerif.Model.ExecutorColl
import RedisVerif.Lemmas.RedisSetHash
import RedisVerif.Lemmas.RedisList
import RedisVerif.Lemmas.RedisZSet
import RedisVerif.Lemmas.RedisZOrder

/-! Refinement of the collection commands of `Model.ExecutorColl` to M7: generic layer (store back +
    clean-up = M7's `putList/putSet/putHash/putZ`; create-or-extend after a lazy drop). -/
set_option linter.unusedSimpArgs false
set_option linter.unusedVariables false

namespace RedisVerif.Executor
open RedisVerif RedisVerif.Redis

/-- M7's `putList` / `putSet` / `putHash` / `putZ` in one shape -/
def putEntry (s : State) (k : Nat) (v : Value) (dl : Option Nat) : State :=
  if isEmptyColl v then NMap.erase k s else NMap.insert k ⟨v, dl⟩ s

theorem putList_eq (s : State) (k : Nat) (l : List BS) (dl : Option Nat) :
    putList s k l dl = putEntry s k (.list l) dl := by cases l <;> rfl
theorem putSet_eq (s : State) (k : Nat) (m : MSet) (dl : Option Nat) :
    putSet s k m dl = putEntry s k (.set m) dl := by cases m <;> rfl
theorem putHash_eq (s : State) (k : Nat) (m : MHash) (dl : Option Nat) :
    putHash s k m dl = putEntry s k (.hash m) dl := by cases m <;> rfl
theorem putZ_eq (s : State) (k : Nat) (z : ZL) (dl : Option Nat) :
    putZ s k z dl = putEntry s k (.zset z) dl := by cases z <;> rfl

theorem erase_insert_gen {ν : Type} {m : NMap ν} (hw : NMap.WF m) (k : Nat) (v : ν) :
    NMap.erase k (NMap.insert k v m) = NMap.erase k m := by
  apply NMap.ext (NMap.wf_erase (NMap.wf_insert hw)) (NMap.wf_erase hw)
  intro k'
  simp only [NMap.get_erase (NMap.wf_insert hw), NMap.get_erase hw, NMap.get_insert]
  split <;> rfl

theorem dropKey_insert {c : CState} (hw : NMap.WF c.data) (k : Nat) (v : Value) :
    dropKey { c with data := NMap.insert k v c.data } k = dropKey c k := by
  simp only [dropKey, erase_insert_gen hw]

/-- a value that may be stored: non-empty, inner maps canonical -/
theorem valueOk_of {v : Value} (hne : isEmptyColl v = false)
    (hwf : match v with
      | .set m => NMap.WF m
      | .hash h => NMap.WF h
      | .zset z => ZCanon z
      | _ => True) : ValueOk v := by
  cases v with
  | str b => trivial
  | list l =>
    cases l with
    | nil => exact absurd hne (by decide)
    | cons x xs => simp [ValueOk]
  | set m =>
    cases m with
    | nil => exact absurd hne (by decide)
    | cons x xs => exact ⟨by simp, hwf⟩
  | hash m =>
    cases m with
    | nil => exact absurd hne (by decide)
    | cons x xs => exact ⟨by simp, hwf⟩
  | zset z =>
    cases z with
    | nil => exact absurd hne (by decide)
    | cons x xs => exact ⟨by simp, hwf⟩

/-- inner well-formedness, the part of `ValueOk` that survives emptiness -/
def InnerOk : Value → Prop
  | .set m => NMap.WF m
  | .hash h => NMap.WF h
  | .zset z => ZCanon z
  | _ => True

theorem valueOk_of' {v : Value} (hne : isEmptyColl v = false) (hi : InnerOk v) : ValueOk v :=
  valueOk_of hne (by cases v <;> simpa [InnerOk] using hi)

theorem innerOk_of_ok {v : Value} (h : ValueOk v) : InnerOk v := by
  cases v <;> simp_all [InnerOk, ValueOk]

/-- store back + clean-up on a key that is present and live -/
theorem putBack_spec {c : CState} (h : CInv c) {k : Nat} (hx : isExpired c k = false)
    (hk : (NMap.get c.data k).isSome = true) (v : Value) (hi : InnerOk v) :
    CInv (putBack c k v) ∧
    absP (putBack c k v) =
      purge (putEntry (absP c) k v ((NMap.get c.exp k).map (· + c.epoch))) (unix c) ∧
    (putBack c k v).now = c.now ∧ (putBack c k v).epoch = c.epoch := by
  unfold putBack putEntry
  by_cases he : isEmptyColl v = true
  · simp only [he, if_true]
    rw [dropKey_insert h.wfd]
    exact ⟨cinv_drop h, by rw [upd_drop h, purge_erase (wf_absP h.wfd), purge_absP], by triv, by triv⟩
  · have he' : isEmptyColl v = false := by simpa using he
    simp only [he', Bool.false_eq_true, if_false]
    refine ⟨cinv_data h (valueOk_of' he' hi), ?_, by triv, by triv⟩
    rw [upd_data h, hx, purge_insert (wf_absP h.wfd), purge_absP, live_of_notExp hx]
    rfl

/-- create (no deadline) or replace in place (deadline kept) after the lazy drop -/
theorem store_spec {c : CState} (h : CInv c) {k : Nat} (hx : isExpired c k = false) (v : Value)
    (hv : ValueOk v) :
    CInv { c with data := NMap.insert k v c.data } ∧
    absP { c with data := NMap.insert k v c.data } =
      purge (NMap.insert k ⟨v, (NMap.get c.exp k).map (· + c.epoch)⟩ (absP c)) (unix c) := by
  refine ⟨cinv_data h hv, ?_⟩
  rw [upd_data h, hx, purge_insert (wf_absP h.wfd), purge_absP, live_of_notExp hx]
  rfl

set_option hygiene false in
/-- `ld h k`: the preamble `lazyDrop cs k` + `data.get(k)`, restated about the state `c` it leaves -/
macro "ld" h:ident k:ident : tactic => `(tactic| (
  have g := lazyDrop_spec $h $k
  generalize hc : lazyDrop _ $k = c at g ⊢
  obtain ⟨ginv, gsame, gnow, gep, gnx, gval, glook⟩ := g
  dsimp only at ginv gsame gnow gep gnx gval glook
  have gux := unix_eq gnow gep
  rw [← gep] at glook))

/-- the stored value of a live key is well-formed inside -/
theorem innerOk_get {c : CState} (h : CInv c) {k : Nat} {v : Value} (hv : NMap.get c.data k = some v) :
    ValueOk v := h.ok (k, v) (Redis.get_mem hv)

end RedisVerif.Executor
