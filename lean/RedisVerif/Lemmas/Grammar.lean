import RedisVerif.Model.Grammar

/-
  Lemmas about the grammar model: the keyword normalisation ignores ASCII letter case
  (`kw_congr`), option scans and the bodies with keyword positions cannot tell keyword-case
  variants apart (`*_sound`, used as the proof fields of the `CustomBody`s in the tables).
-/
namespace RedisVerif.Grammar

theorem uA_idem (b : Nat) : upperAscii (upperAscii b) = upperAscii b := by
  unfold upperAscii; split <;> simp_all <;> omega

theorem uA_lt (b : Nat) : (upperAscii b < 0x80) = (b < 0x80) := by
  unfold upperAscii; split <;> simp_all <;> omega

theorem uA_big {b : Nat} (h : ¬ b < 0x80) : upperAscii b = b := by
  unfold upperAscii; split <;> simp_all
  omega

theorem uA_small {b : Nat} (h : b < 0x80) : upperAscii b < 0x80 := by
  rw [uA_lt]; exact h

theorem isCont_uA (c : Nat) : isCont (upperAscii c) = isCont c := by
  by_cases h : c < 0x80
  · have h' := uA_small h
    have e1 : isCont (upperAscii c) = false := by
      unfold isCont; simp; omega
    have e2 : isCont c = false := by
      unfold isCont; simp; omega
    rw [e1, e2]
  · rw [uA_big h]

theorem ok3_uA (b c : Nat) : ok3 b (upperAscii c) = ok3 b c := by
  by_cases h : c < 0x80
  · have h' := uA_small h
    have e1 : ok3 b (upperAscii c) = false := by
      unfold ok3; simp; omega
    have e2 : ok3 b c = false := by
      unfold ok3; simp; omega
    rw [e1, e2]
  · rw [uA_big h]

theorem ok4_uA (b c : Nat) : ok4 b (upperAscii c) = ok4 b c := by
  by_cases h : c < 0x80
  · have h' := uA_small h
    have e1 : ok4 b (upperAscii c) = false := by
      unfold ok4; simp; omega
    have e2 : ok4 b c = false := by
      unfold ok4; simp; omega
    rw [e1, e2]
  · rw [uA_big h]

theorem chunk_map (a : Bytes) : chunk (a.map upperAscii) = chunk a := by
  match a with
  | [] => rfl
  | b :: rest =>
    by_cases hb : b < 0x80
    · have := uA_small hb
      simp [chunk, hb, this]
    · have e := uA_big hb
      simp only [List.map_cons, e]
      unfold chunk
      simp only [hb, if_false]
      match rest with
      | [] => rfl
      | c :: r =>
        simp only [List.map_cons, isCont_uA, ok3_uA, ok4_uA]
        match r with
        | [] => rfl
        | d :: r' =>
          simp only [List.map_cons, isCont_uA]
          match r' with
          | [] => rfl
          | e :: r'' => simp only [List.map_cons, isCont_uA]

theorem lossyF_map (fuel : Nat) (a : Bytes) : lossyF fuel (a.map upperAscii) = (lossyF fuel a).map upperAscii := by
  induction fuel generalizing a with
  | zero => simp [lossyF]
  | succ n ih =>
    match a with
    | [] => simp [lossyF]
    | b :: rest =>
      have hc := chunk_map (b :: rest)
      simp only [List.map_cons] at hc
      simp only [List.map_cons, lossyF, hc, List.map_append]
      rw [← List.map_cons, ← List.map_drop, ih, ← List.map_take]
      split <;> simp [fffd, upperAscii]

theorem lossy_map (a : Bytes) : lossy (a.map upperAscii) = (lossy a).map upperAscii := by
  simp [lossy, lossyF_map]

theorem isPrefix_map (p x : Bytes) (hp : ∀ y ∈ p, ¬ y < 0x80) : isPrefix p (x.map upperAscii) = isPrefix p x := by
  induction p generalizing x with
  | nil => simp [isPrefix]
  | cons q qs ih =>
    match x with
    | [] => simp [isPrefix]
    | y :: ys =>
      have hq : ¬ q < 0x80 := hp q (by simp)
      have : (q == upperAscii y) = (q == y) := by
        by_cases hy : y < 0x80
        · have := uA_small hy
          have a1 : (q == upperAscii y) = false := by simp; omega
          have a2 : (q == y) = false := by simp; omega
          rw [a1, a2]
        · rw [uA_big hy]
      simp only [List.map_cons, isPrefix, this]
      rw [ih _ (fun y hy => hp y (by simp [hy]))]

theorem findSpecial_map (tbl : List (Bytes × Bytes)) (x : Bytes)
    (h : ∀ pe ∈ tbl, ∀ y ∈ pe.1, ¬ y < 0x80) :
    findSpecial tbl (x.map upperAscii) = findSpecial tbl x := by
  induction tbl with
  | nil => rfl
  | cons pe t ih =>
    obtain ⟨p, e⟩ := pe
    simp only [findSpecial]
    rw [isPrefix_map p x (h (p, e) (by simp)), ih (fun pe hpe => h pe (by simp [hpe]))]

theorem specials_high : ∀ pe ∈ specials, ∀ y ∈ pe.1, ¬ y < 0x80 := by decide
theorem specials_fixed : ∀ pe ∈ specials, pe.2.map upperAscii = pe.2 := by decide

theorem findSpecial_mem {tbl : List (Bytes × Bytes)} {x : Bytes} {p e : Bytes}
    (h : findSpecial tbl x = some (p, e)) : (p, e) ∈ tbl := by
  induction tbl with
  | nil => simp [findSpecial] at h
  | cons pe t ih =>
    obtain ⟨p', e'⟩ := pe
    simp only [findSpecial] at h
    split at h
    · simp at h; simp [h]
    · simp [ih h]


theorem upperSpecialF_map (fuel : Nat) (x : Bytes) :
    upperSpecialF fuel (x.map upperAscii) = (upperSpecialF fuel x).map upperAscii := by
  induction fuel generalizing x with
  | zero => simp [upperSpecialF]
  | succ n ih =>
    match x with
    | [] => simp [upperSpecialF]
    | b :: r =>
      have hf := findSpecial_map specials (b :: r) specials_high
      simp only [List.map_cons] at hf
      simp only [List.map_cons, upperSpecialF, hf]
      cases hfs : findSpecial specials (b :: r) with
      | none => simp [ih]
      | some pe =>
        obtain ⟨p, e⟩ := pe
        have hfix := specials_fixed (p, e) (findSpecial_mem hfs)
        simp only at hfix
        simp only [List.map_append, hfix]
        rw [← List.map_cons, ← List.map_drop, ih]

theorem upper_map (x : Bytes) : upper (x.map upperAscii) = upper x := by
  simp [upper, upperSpecial, upperSpecialF_map, uA_idem]

theorem kw_map (a : Bytes) : kw (a.map upperAscii) = kw a := by
  simp [kw, lossy_map, upper_map]

theorem kw_congr {a b : Bytes} (h : caseVariant a b = true) : kw a = kw b := by
  have h' : a.map upperAscii = b.map upperAscii := by simpa [caseVariant] using h
  rw [← kw_map a, ← kw_map b, h']

end RedisVerif.Grammar

namespace RedisVerif.Grammar

theorem scanOpts_variant_aux (tbl : List OptSpec) (unk : Bytes → Option BErr) :
    ∀ (n : Nat) (x y : List Bytes), x.length ≤ n → optVariant tbl x y = true →
      scanOpts tbl unk x = scanOpts tbl unk y := by
  intro n
  induction n with
  | zero =>
    intro x y hl h
    match x, y with
    | [], [] => rfl
    | [], _ :: _ => simp [optVariant] at h
    | _ :: _, _ => simp at hl
  | succ n ih =>
    intro x y hl h
    match x, y with
    | [], [] => rfl
    | [], _ :: _ => simp [optVariant] at h
    | _ :: _, [] => simp [optVariant] at h
    | a :: r, a' :: r' =>
      have hr : r.length ≤ n := by simp at hl; omega
      unfold optVariant at h
      rw [Bool.and_eq_true] at h
      obtain ⟨hcv, h⟩ := h
      have hk : kw a' = kw a := (kw_congr hcv).symm
      rw [scanOpts, scanOpts, hk]
      cases hf : findOpt tbl (kw a) 0 with
      | none =>
        rw [hf] at h
        simp only
        rw [ih r r' hr h]
      | some io =>
        obtain ⟨idx, o⟩ := io
        rw [hf] at h
        simp only at h ⊢
        cases o.reject with
        | some f => rfl
        | none =>
          simp only
          match hv : o.vals with
          | [] =>
            rw [hv] at h
            simp only at h ⊢
            rw [ih r r' hr h]
          | [k1] =>
            rw [hv] at h
            simp only at h ⊢
            match r, r' with
            | [], [] => rfl
            | [], _ :: _ => simp at h
            | _ :: _, [] => simp at h
            | v :: s, v' :: s' =>
              simp only [Bool.and_eq_true, beq_iff_eq] at h
              obtain ⟨hv', hs⟩ := h
              subst hv'
              have : s.length ≤ n := by simp at hr; omega
              simp only
              rw [ih s s' this hs]
          | [k1, k2] =>
            rw [hv] at h
            simp only at h ⊢
            match r, r' with
            | [], [] => rfl
            | [], _ :: _ => simp at h
            | [_], [] => simp at h
            | [v], [v'] => simp at h; subst h; rfl
            | [_], _ :: _ :: _ => simp at h
            | _ :: _ :: _, [] => simp at h
            | _ :: _ :: _, [_] => simp at h
            | v :: w :: s, v' :: w' :: s' =>
              simp only [Bool.and_eq_true, beq_iff_eq] at h
              obtain ⟨⟨hv', hw'⟩, hs⟩ := h
              subst hv'; subst hw'
              have : s.length ≤ n := by simp at hr; omega
              simp only
              rw [ih s s' this hs]
          | _ :: _ :: _ :: _ =>
            rfl

theorem scanOpts_variant (tbl : List OptSpec) (unk : Bytes → Option BErr) (x y : List Bytes)
    (h : optVariant tbl x y = true) : scanOpts tbl unk x = scanOpts tbl unk y :=
  scanOpts_variant_aux tbl unk x.length x y (Nat.le_refl _) h


theorem prefixV_sound {n : Nat} {tail : List Bytes → List Bytes → Bool} {f : List Bytes → BRes}
    (h : ∀ pre o o', pre.length = n → tail o o' = true → f (pre ++ o) = f (pre ++ o')) :
    ∀ a b, prefixV n tail a b = true → f a = f b := by
  intro a b hv
  simp only [prefixV, Bool.and_eq_true, beq_iff_eq] at hv
  obtain ⟨ht, htl⟩ := hv
  by_cases hl : n ≤ a.length
  · have h1 := h (a.take n) (a.drop n) (b.drop n) (by simp [List.length_take]; omega) htl
    rw [List.take_append_drop] at h1
    rw [h1, ht, List.take_append_drop]
  · have hl' : a.length < n := by omega
    have ha : a.take n = a := List.take_of_length_le (by omega)
    have hb : (b.take n).length = a.length := by rw [← ht, ha]
    have hb' : b.length < n := by
      rw [List.length_take] at hb
      omega
    have : b.take n = b := List.take_of_length_le (by omega)
    rw [ha, this] at ht
    rw [ht]

theorem takeFlags_variant (flags : List Bytes) : ∀ x y, flagsVariant flags x y = true →
    takeFlags flags x = takeFlags flags y := by
  intro x
  induction x with
  | nil =>
    intro y h
    match y with
    | [] => rfl
    | _ :: _ => simp [flagsVariant] at h
  | cons a r ih =>
    intro y h
    match y with
    | [] => simp [flagsVariant] at h
    | a' :: r' =>
      unfold flagsVariant at h
      by_cases hc : flags.contains (kw a) = true
      · rw [if_pos hc, Bool.and_eq_true] at h
        have hk := kw_congr h.1
        have hc' : flags.contains (kw a') = true := by rw [← hk]; exact hc
        simp only [takeFlags, hc, hc', if_true]
        rw [ih r' h.2, hk]
      · rw [if_neg hc] at h
        simp only [beq_iff_eq] at h
        rw [h]

theorem wordsVariant_length : ∀ x y, wordsVariant x y = true → x.length = y.length := by
  intro x
  induction x with
  | nil => intro y h; match y with
    | [] => rfl
    | _ :: _ => simp [wordsVariant] at h
  | cons a r ih => intro y h; match y with
    | [] => simp [wordsVariant] at h
    | a' :: r' =>
      simp only [wordsVariant, Bool.and_eq_true] at h
      simp [ih r' h.2]

namespace Sound
open Bodies

theorem set : ∀ a b, prefixV 2 (optVariant setOpts) a b = true → Bodies.set a = Bodies.set b :=
  prefixV_sound (fun pre o o' hl ht => by
    match pre, hl with
    | [k, v], _ => simp only [List.cons_append, List.nil_append, Bodies.set, scanOpts_variant _ _ _ _ ht])

theorem luaSet : ∀ a b, prefixV 2 (optVariant luaSetOpts) a b = true → Bodies.luaSet a = Bodies.luaSet b :=
  prefixV_sound (fun pre o o' hl ht => by
    match pre, hl with
    | [k, v], _ => simp only [List.cons_append, List.nil_append, Bodies.luaSet, scanOpts_variant _ _ _ _ ht])

theorem expire (c : Bytes) : ∀ a b, prefixV 2 (optVariant expireOpts) a b = true →
    Bodies.expire c a = Bodies.expire c b :=
  prefixV_sound (fun pre o o' hl ht => by
    match pre, hl with
    | [k, v], _ => simp only [List.cons_append, List.nil_append, Bodies.expire, scanOpts_variant _ _ _ _ ht])

theorem getex : ∀ a b, prefixV 1 (optVariant getexOpts) a b = true → Bodies.getex a = Bodies.getex b :=
  prefixV_sound (fun pre o o' hl ht => by
    match pre, hl with
    | [k], _ => simp only [List.cons_append, List.nil_append, Bodies.getex, scanOpts_variant _ _ _ _ ht])

theorem zrangebyscore (off cnt : Arg) (m : Lit) (u : Fmt) :
    ∀ a b, prefixV 3 (optVariant (zrbsOpts off cnt m)) a b = true →
      Bodies.zrangebyscore off cnt m u a = Bodies.zrangebyscore off cnt m u b :=
  prefixV_sound (fun pre o o' hl ht => by
    match pre, hl with
    | [k, x, y], _ =>
      simp only [List.cons_append, List.nil_append, Bodies.zrangebyscore, scanOpts_variant _ _ _ _ ht])

theorem scan (c : Bytes) (withKey : Bool) (u : Fmt) :
    ∀ a b, prefixV (if withKey then 2 else 1) (optVariant scanOptTbl) a b = true →
      Bodies.scan c withKey u a = Bodies.scan c withKey u b :=
  prefixV_sound (fun pre o o' hl ht => by
    cases withKey with
    | false =>
      match pre, hl with
      | [k], _ => simp only [List.cons_append, List.nil_append, Bodies.scan, scanOpts_variant _ _ _ _ ht]
    | true =>
      match pre, hl with
      | [k, x], _ => simp only [List.cons_append, List.nil_append, Bodies.scan, scanOpts_variant _ _ _ _ ht])

theorem sort : ∀ a b, prefixV 1 (optVariant sortOpts) a b = true → Bodies.sort a = Bodies.sort b :=
  prefixV_sound (fun pre o o' hl ht => by
    match pre, hl with
    | [k], _ => simp only [List.cons_append, List.nil_append, Bodies.sort, scanOpts_variant _ _ _ _ ht])

theorem zadd (score : Arg) : ∀ a b, prefixV 1 (flagsVariant zaddFlags) a b = true →
    Bodies.zadd score a = Bodies.zadd score b :=
  prefixV_sound (fun pre o o' hl ht => by
    match pre, hl with
    | [k], _ => simp only [List.cons_append, List.nil_append, Bodies.zadd, takeFlags_variant _ _ _ ht])

theorem lmove : ∀ a b, prefixV 2 wordsVariant a b = true → Bodies.lmove a = Bodies.lmove b :=
  prefixV_sound (fun pre o o' hl ht => by
    match pre, hl with
    | [s, d], _ =>
      match o, o' with
      | [f, t], [f', t'] =>
        simp only [wordsVariant, Bool.and_eq_true, and_true] at ht
        simp only [List.cons_append, List.nil_append, Bodies.lmove, kw_congr ht.1, kw_congr ht.2]
      | [], [] => rfl
      | [_], [_] => rfl
      | _ :: _ :: _ :: _, _ :: _ :: _ :: _ => rfl
      | [], _ :: _ => simp [wordsVariant] at ht
      | _ :: _, [] => simp [wordsVariant] at ht
      | [_], _ :: _ :: _ => simp [wordsVariant] at ht
      | _ :: _ :: _, [_] => simp [wordsVariant] at ht
      | [_, _], _ :: _ :: _ :: _ => simp [wordsVariant] at ht
      | _ :: _ :: _ :: _, [_, _] => simp [wordsVariant] at ht)

theorem zrange (c : Bytes) : ∀ a b, prefixV 3 wordsVariant a b = true → Bodies.zrange c a = Bodies.zrange c b :=
  prefixV_sound (fun pre o o' hl ht => by
    match pre, hl with
    | [k, x, y], _ =>
      match o, o' with
      | [], [] => rfl
      | [w], [w'] =>
        simp only [wordsVariant, Bool.and_eq_true, and_true] at ht
        simp only [List.cons_append, List.nil_append, Bodies.zrange, kw_congr ht]
      | _ :: _ :: _, _ :: _ :: _ => rfl
      | [], _ :: _ => simp [wordsVariant] at ht
      | _ :: _, [] => simp [wordsVariant] at ht
      | [_], _ :: _ :: _ => simp [wordsVariant] at ht
      | _ :: _ :: _, [_] => simp [wordsVariant] at ht)

theorem command : ∀ a b, headVariant a b = true → Bodies.command a = Bodies.command b := by
  intro a b h
  match a, b with
  | [], [] => rfl
  | x :: r, y :: s =>
    simp only [headVariant, Bool.and_eq_true] at h
    simp only [Bodies.command, kw_congr h.1]
  | [], _ :: _ => simp [headVariant] at h
  | _ :: _, [] => simp [headVariant] at h

theorem aclDryrun : ∀ a b, prefixV 1 headVariant a b = true → Bodies.aclDryrun a = Bodies.aclDryrun b :=
  prefixV_sound (fun pre o o' hl ht => by
    match pre, hl with
    | [u], _ =>
      match o, o' with
      | [], [] => rfl
      | c :: r, c' :: r' =>
        simp only [headVariant, Bool.and_eq_true, beq_iff_eq] at ht
        obtain ⟨h1, h2⟩ := ht
        subst h2
        simp only [List.cons_append, List.nil_append, Bodies.aclDryrun, kw_congr h1]
      | [], _ :: _ => simp [headVariant] at ht
      | _ :: _, [] => simp [headVariant] at ht)

theorem aclLog : ∀ a b, wordsVariant a b = true → Bodies.aclLog a = Bodies.aclLog b := by
  intro a b h
  match a, b with
  | [], [] => rfl
  | [x], [y] =>
    simp only [wordsVariant, Bool.and_eq_true, and_true] at h
    simp only [Bodies.aclLog, kw_congr h]
  | _ :: _ :: _, _ :: _ :: _ => rfl
  | [], _ :: _ => simp [wordsVariant] at h
  | _ :: _, [] => simp [wordsVariant] at h
  | [_], _ :: _ :: _ => simp [wordsVariant] at h
  | _ :: _ :: _, [_] => simp [wordsVariant] at h

end Sound

end RedisVerif.Grammar
