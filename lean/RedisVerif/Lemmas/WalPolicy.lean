import RedisVerif.Model.WalActor
import RedisVerif.Lemmas.WalActor

/-
  EverySecond / No mode as a view of the Always-mode model: an EverySecond history drives the
  rotator (hence the store, the call trace and every crash image) exactly like the Always-mode
  history in which every tick is a group-commit flush (`Ev.asAlways`); only the acks differ — they
  are sent at once, before any fsync.
-/
namespace RedisVerif
namespace Wal

/-- what the two runs share -/
def SameDisk (a b : Actor) : Prop := a.rot = b.rot ∧ a.esync = b.esync ∧ a.tbound = b.tbound

theorem sameDisk_step (φ : Nat → Outcome) (fmt : Format) (crc : Bytes → Nat) (ae aa : Actor) (ev : Ev)
    (h : SameDisk ae aa) :
    SameDisk (Actor.stepP .everySecond φ fmt crc ae ev) (Actor.step true false φ fmt crc aa ev.asAlways) := by
  obtain ⟨hr, he, ht⟩ := h
  cases ev with
  | write w =>
    simp only [Actor.stepP, Ev.asAlways, Actor.step, Actor.handleWriteNow, Actor.handleWrite, hr]
    cases Rot.append true fmt φ aa.rot (Entry.mk' fmt crc w.data w.ts) with
    | mk r oe => cases oe <;> simp [SameDisk, he, ht]
  | forget w =>
    simp only [Actor.stepP, Ev.asAlways, Actor.step, Actor.handleWriteNow, Actor.handleForget, hr]
    cases Rot.append true fmt φ aa.rot (Entry.mk' fmt crc w.data w.ts) with
    | mk r oe => cases oe <;> simp [SameDisk, he, ht]
  | tick =>
    simp only [Actor.stepP, Ev.asAlways, Actor.step, Actor.tickEverySec, Actor.flush, he, hr]
    split
    · exact ⟨hr, he, ht⟩
    · exact ⟨rfl, rfl, ht⟩
  | truncate T =>
    simp only [Actor.stepP, Ev.asAlways, Actor.step, Actor.handleTruncate, hr, ht]
    exact ⟨rfl, he, rfl⟩
  | flush =>
    simp only [Actor.stepP, Ev.asAlways, Actor.step, Actor.handleTick, Bool.false_and, Bool.false_eq_true, if_false]
    exact ⟨hr, he, ht⟩
  | reopen c r =>
    cases c with
    | true =>
      simp only [Actor.stepP, Ev.asAlways, Actor.step, Actor.reopenNow, Actor.reopen, if_true, hr]
      exact ⟨rfl, rfl, ht⟩
    | false =>
      simp only [Actor.stepP, Ev.asAlways, Actor.step, Actor.reopenNow, Actor.reopen, Bool.false_eq_true, if_false,
        if_true, Actor.tickEverySec, Actor.flush, he, hr]
      split
      · rename_i h0
        refine ⟨?_, ?_, ht⟩
        · show Rot.reopen r ae.rot = Rot.reopen r aa.rot
          rw [hr]
        · exact h0.symm
      · exact ⟨rfl, rfl, ht⟩

theorem sameDisk_foldl (φ : Nat → Outcome) (fmt : Format) (crc : Bytes → Nat) (evs : List Ev) (ae aa : Actor)
    (h : SameDisk ae aa) :
    SameDisk (evs.foldl (Actor.stepP .everySecond φ fmt crc) ae)
      ((evs.map Ev.asAlways).foldl (Actor.step true false φ fmt crc) aa) := by
  induction evs generalizing ae aa with
  | nil => exact h
  | cons ev evs ih =>
    simp only [List.foldl_cons, List.map_cons]
    exact ih _ _ (sameDisk_step φ fmt crc ae aa ev h)

/-- the acks of the two runs: whatever the Always run has pending or has confirmed `Ok` was
    answered `Ok` (early) by the EverySecond run, and every early `Ok` is pending or answered in
    the Always run (its fate is decided by the flush that the next tick is) -/
def AckLink (ae aa : Actor) : Prop :=
  (∀ p ∈ aa.pending, ∃ r' ∈ ae.acks, r'.id = p.1 ∧ r'.entry = p.2 ∧ r'.res = .ok) ∧
  (∀ r ∈ aa.acks, r.res = .ok → ∃ r' ∈ ae.acks, r'.id = r.id ∧ r'.entry = r.entry ∧ r'.res = .ok) ∧
  (∀ r' ∈ ae.acks, r'.res = .ok →
    (r'.id, r'.entry) ∈ aa.pending ∨ ∃ r ∈ aa.acks, r.id = r'.id ∧ r.entry = r'.entry)

theorem ackLink_flush (φ : Nat → Outcome) (ae aa : Actor) (h : AckLink ae aa) :
    AckLink ae (Actor.flush true φ aa) := by
  obtain ⟨h1, h2, h3⟩ := h
  unfold Actor.flush
  split
  · rename_i h0
    exact ⟨h1, h2, h3⟩
  · refine ⟨fun p hp => (by cases hp), ?_, ?_⟩
    · intro r hr hok
      simp only [List.mem_append, List.mem_reverse, List.mem_map] at hr
      rcases hr with ⟨p, hp, rfl⟩ | hr
      · exact h1 p hp
      · exact h2 r hr hok
    · intro r' hr' hok
      rcases h3 r' hr' hok with hp | ⟨r, hr, e1, e2⟩
      · right
        have hm := List.mem_map_of_mem (f := fun p : Nat × Entry =>
          (⟨p.1, p.2, if (Rot.sync true φ aa.rot).2 then Ack.ok else Ack.err .fsync, (Rot.sync true φ aa.rot).1.w.io⟩ : AckRec)) hp
        exact ⟨_, List.mem_append_left _ (List.mem_reverse.mpr hm), rfl, rfl⟩
      · right
        exact ⟨r, by simp only [List.mem_append]; exact Or.inr hr, e1, e2⟩

theorem ackLink_step (φ : Nat → Outcome) (fmt : Format) (crc : Bytes → Nat) (ae aa : Actor) (ev : Ev)
    (hd : SameDisk ae aa) (h : AckLink ae aa) :
    AckLink (Actor.stepP .everySecond φ fmt crc ae ev) (Actor.step true false φ fmt crc aa ev.asAlways) := by
  obtain ⟨hr, he, ht⟩ := hd
  obtain ⟨h1, h2, h3⟩ := h
  cases ev with
  | write w =>
    simp only [Actor.stepP, Ev.asAlways, Actor.step, Actor.handleWriteNow, Actor.handleWrite, hr]
    cases Rot.append true fmt φ aa.rot (Entry.mk' fmt crc w.data w.ts) with
    | mk r oe =>
      cases oe with
      | none =>
        simp only [if_true]
        refine ⟨?_, ?_, ?_⟩
        · intro p hp
          rcases List.mem_append.mp hp with hp | hp
          · obtain ⟨r', hr', e⟩ := h1 p hp
            exact ⟨r', List.mem_cons_of_mem _ hr', e⟩
          · simp only [List.mem_singleton] at hp
            subst hp
            exact ⟨_, List.mem_cons_self, rfl, rfl, rfl⟩
        · intro x hx hok
          obtain ⟨r', hr', e⟩ := h2 x hx hok
          exact ⟨r', List.mem_cons_of_mem _ hr', e⟩
        · intro r' hr' hok
          rcases List.mem_cons.mp hr' with e | hr'
          · subst e
            left; exact List.mem_append_right _ (by simp)
          · rcases h3 r' hr' hok with hp | hx
            · left; exact List.mem_append_left _ hp
            · right; exact hx
      | some x =>
        simp only [if_true]
        refine ⟨?_, ?_, ?_⟩
        · intro p hp
          obtain ⟨r', hr', e⟩ := h1 p hp
          exact ⟨r', List.mem_cons_of_mem _ hr', e⟩
        · intro y hy hok
          rcases List.mem_cons.mp hy with e | hy
          · subst e; cases hok
          · obtain ⟨r', hr', e⟩ := h2 y hy hok
            exact ⟨r', List.mem_cons_of_mem _ hr', e⟩
        · intro r' hr' hok
          rcases List.mem_cons.mp hr' with e | hr'
          · subst e; cases hok
          · rcases h3 r' hr' hok with hp | ⟨y, hy, e⟩
            · left; exact hp
            · right; exact ⟨y, List.mem_cons_of_mem _ hy, e⟩
  | forget w =>
    simp only [Actor.stepP, Ev.asAlways, Actor.step, Actor.handleWriteNow, Actor.handleForget, hr]
    cases Rot.append true fmt φ aa.rot (Entry.mk' fmt crc w.data w.ts) with
    | mk r oe => cases oe <;> exact ⟨h1, h2, h3⟩
  | tick =>
    simp only [Actor.stepP, Ev.asAlways, Actor.step]
    have := ackLink_flush φ ae aa ⟨h1, h2, h3⟩
    unfold Actor.tickEverySec
    split
    · exact this
    · exact this
  | truncate T =>
    simp only [Actor.stepP, Ev.asAlways, Actor.step, Actor.handleTruncate]
    exact ⟨h1, h2, h3⟩
  | flush =>
    simp only [Actor.stepP, Ev.asAlways, Actor.step, Actor.handleTick, Bool.false_and, Bool.false_eq_true, if_false]
    exact ⟨h1, h2, h3⟩
  | reopen c r =>
    cases c with
    | true =>
      simp only [Actor.stepP, Ev.asAlways, Actor.step, Actor.reopenNow, Actor.reopen, if_true]
      refine ⟨fun p hp => (by cases hp), ?_, ?_⟩
      · intro x hx hok
        simp only [List.mem_append, List.mem_reverse, List.mem_map] at hx
        rcases hx with ⟨p, _, rfl⟩ | hx
        · cases hok
        · exact h2 x hx hok
      · intro r' hr' hok
        rcases h3 r' hr' hok with hp | ⟨y, hy, e⟩
        · right
          have hm := List.mem_map_of_mem (f := fun p : Nat × Entry =>
            (⟨p.1, p.2, Ack.err .io, (aa.rot.w.push (crashStore aa.rot.w.store) Call.crash).io⟩ : AckRec)) hp
          exact ⟨_, List.mem_append_left _ (List.mem_reverse.mpr hm), rfl, rfl⟩
        · right; exact ⟨y, by simp only [List.mem_append]; exact Or.inr hy, e⟩
    | false =>
      simp only [Actor.stepP, Ev.asAlways, Actor.step, Actor.reopenNow, Actor.reopen, Bool.false_eq_true, if_false, if_true]
      have := ackLink_flush φ ae aa ⟨h1, h2, h3⟩
      unfold Actor.tickEverySec
      split <;> exact this

theorem link_foldl (φ : Nat → Outcome) (fmt : Format) (crc : Bytes → Nat) (evs : List Ev) (ae aa : Actor)
    (hd : SameDisk ae aa) (hl : AckLink ae aa) :
    SameDisk (evs.foldl (Actor.stepP .everySecond φ fmt crc) ae)
        ((evs.map Ev.asAlways).foldl (Actor.step true false φ fmt crc) aa) ∧
    AckLink (evs.foldl (Actor.stepP .everySecond φ fmt crc) ae)
        ((evs.map Ev.asAlways).foldl (Actor.step true false φ fmt crc) aa) := by
  induction evs generalizing ae aa with
  | nil => exact ⟨hd, hl⟩
  | cons ev evs ih =>
    simp only [List.foldl_cons, List.map_cons]
    exact ih _ _ (sameDisk_step φ fmt crc ae aa ev hd) (ackLink_step φ fmt crc ae aa ev hd hl)

theorem link_init (maxSize : Nat) : SameDisk (Actor.init maxSize) (Actor.init maxSize) ∧
    AckLink (Actor.init maxSize) (Actor.init maxSize) :=
  ⟨⟨rfl, rfl, rfl⟩, ⟨fun _ h => (by cases h), fun _ h => (by cases h), fun _ h => (by cases h)⟩⟩

theorem asAlways_ok (fmt : Format) (crc : Bytes → Nat) (ev : Ev) (h : ev.Ok fmt crc) : ev.asAlways.Ok fmt crc := by
  cases ev <;> simp_all [Ev.asAlways, Ev.Ok]

/-! ### No mode: the rotator is driven like by the Always history without any flush -/

/-- the Always-mode events that drive the rotator like a No-mode history does: writes (nobody
    waits), truncations, incarnation boundaries after a CRASH; ticks and clean shutdowns never sync -/
def SameRot (a b : Actor) : Prop := a.rot = b.rot ∧ a.tbound = b.tbound

/-- in No mode the only calls ever issued to the store are those of `Rot.append`, `Rot.truncate`
    and the crash marker: `Rot.sync` is never called by the actor -/
theorem no_mode_step_rot (φ : Nat → Outcome) (fmt : Format) (crc : Bytes → Nat) (a : Actor) (ev : Ev) :
    (Actor.stepP .no φ fmt crc a ev).rot =
      match ev with
      | .write w => (Rot.append true fmt φ a.rot (Entry.mk' fmt crc w.data w.ts)).1
      | .forget w => (Rot.append true fmt φ a.rot (Entry.mk' fmt crc w.data w.ts)).1
      | .tick => a.rot
      | .flush => a.rot
      | .truncate T => Rot.truncate fmt crc φ T a.rot
      | .reopen true reuse => Rot.reopen reuse { a.rot with w := a.rot.w.push (crashStore a.rot.w.store) .crash }
      | .reopen false reuse => Rot.reopen reuse a.rot := by
  cases ev with
  | write w =>
    simp only [Actor.stepP, Actor.handleWriteNow]
    cases Rot.append true fmt φ a.rot (Entry.mk' fmt crc w.data w.ts) with
    | mk r oe => cases oe <;> rfl
  | forget w =>
    simp only [Actor.stepP, Actor.handleWriteNow]
    cases Rot.append true fmt φ a.rot (Entry.mk' fmt crc w.data w.ts) with
    | mk r oe => cases oe <;> rfl
  | tick => rfl
  | flush => rfl
  | truncate T => rfl
  | reopen c r => cases c <;> rfl

/-- EverySecond / No: a step adds exactly the ids of the event's `write_durable` caller, at once,
    and never leaves anybody pending -/
theorem stepP_now_ids (p : Policy) (hp : p ≠ .always) (φ : Nat → Outcome) (fmt : Format) (crc : Bytes → Nat) (a : Actor) (ev : Ev)
    (hpend : a.pending = []) :
    (Actor.stepP p φ fmt crc a ev).pending = [] ∧
    (Actor.stepP p φ fmt crc a ev).acks.map (·.id) = ev.ids.reverse ++ a.acks.map (·.id) := by
  cases p with
  | always => exact absurd rfl hp
  | everySecond =>
    cases ev with
    | write w =>
      simp only [Actor.stepP, Actor.handleWriteNow, Ev.ids]
      cases Rot.append true fmt φ a.rot (Entry.mk' fmt crc w.data w.ts) with
      | mk r oe => cases oe <;> simp [hpend]
    | forget w =>
      simp only [Actor.stepP, Actor.handleWriteNow, Ev.ids]
      cases Rot.append true fmt φ a.rot (Entry.mk' fmt crc w.data w.ts) with
      | mk r oe => cases oe <;> simp [hpend]
    | tick => simp only [Actor.stepP, Actor.tickEverySec, Ev.ids]; split <;> simp [hpend]
    | truncate T => simp [Actor.stepP, Actor.handleTruncate, Ev.ids, hpend]
    | flush => simp [Actor.stepP, Ev.ids, hpend]
    | reopen c r =>
      cases c
      · simp only [Actor.stepP, Actor.reopenNow, Bool.false_eq_true, if_false, if_true, Actor.tickEverySec, Ev.ids]
        split <;> simp [hpend]
      · simp [Actor.stepP, Actor.reopenNow, Ev.ids]
  | no =>
    cases ev with
    | write w =>
      simp only [Actor.stepP, Actor.handleWriteNow, Ev.ids]
      cases Rot.append true fmt φ a.rot (Entry.mk' fmt crc w.data w.ts) with
      | mk r oe => cases oe <;> simp [hpend]
    | forget w =>
      simp only [Actor.stepP, Actor.handleWriteNow, Ev.ids]
      cases Rot.append true fmt φ a.rot (Entry.mk' fmt crc w.data w.ts) with
      | mk r oe => cases oe <;> simp [hpend]
    | tick => simp [Actor.stepP, Ev.ids, hpend]
    | truncate T => simp [Actor.stepP, Actor.handleTruncate, Ev.ids, hpend]
    | flush => simp [Actor.stepP, Ev.ids, hpend]
    | reopen c r =>
      cases c
      · simp [Actor.stepP, Actor.reopenNow, Ev.ids, hpend]
      · simp [Actor.stepP, Actor.reopenNow, Ev.ids]

theorem runP_now_ids (p : Policy) (hp : p ≠ .always) (φ : Nat → Outcome) (fmt : Format) (crc : Bytes → Nat) (evs : List Ev) (a : Actor)
    (hpend : a.pending = []) :
    (evs.foldl (Actor.stepP p φ fmt crc) a).pending = [] ∧
    (evs.foldl (Actor.stepP p φ fmt crc) a).acks.map (·.id) = (evs.flatMap Ev.ids).reverse ++ a.acks.map (·.id) := by
  induction evs generalizing a with
  | nil => simp [hpend]
  | cons ev evs ih =>
    obtain ⟨h1, h2⟩ := stepP_now_ids p hp φ fmt crc a ev hpend
    obtain ⟨i1, i2⟩ := ih _ h1
    simp only [List.foldl_cons]
    refine ⟨i1, ?_⟩
    rw [i2, h2]
    simp [List.flatMap_cons, List.reverse_append, List.append_assoc]


/-! ### the burst schedule preserves the actor invariant -/

def Msg.Ok (fmt : Format) (crc : Bytes → Nat) : Msg → Prop
  | .ev e => e.Ok fmt crc
  | _ => True

def SInv (fmt : Format) (crc : Bytes → Nat) (s : Sched) : Prop := AInv fmt crc s.a ∧ s.a.pending.length ≤ s.a.esync

theorem sinv_flush {fmt : Format} {crc : Bytes → Nat} (φ : Nat → Outcome) (a : Actor)
    (h : AInv fmt crc a) (hl : a.pending.length ≤ a.esync) :
    AInv fmt crc (Actor.flush true φ a) ∧ (Actor.flush true φ a).pending.length ≤ (Actor.flush true φ a).esync :=
  ⟨ainv_step true φ h hl .flush trivial (Or.inl rfl), pending_len_step true false fmt φ crc a .flush hl⟩

theorem sinv_step {fmt : Format} {crc : Bytes → Nat} (maxEntries : Nat) (φ : Nat → Outcome) (s : Sched) (m : Msg)
    (h : SInv fmt crc s) (hm : m.Ok fmt crc) : SInv fmt crc (Sched.step maxEntries φ fmt crc s m) := by
  unfold Sched.step
  split
  · exact h
  · cases m with
    | shutdown =>
      have := sinv_flush φ s.a h.1 h.2
      simp only
      split <;> exact this
    | noop =>
      simp only
      split
      · exact sinv_flush φ _ h.1 h.2
      · split <;> exact h
    | ev e =>
      have h1 := ainv_step true φ h.1 h.2 e hm (Or.inl rfl)
      have h2 := pending_len_step true false fmt φ crc s.a e h.2
      simp only
      split
      · exact sinv_flush φ _ h1 h2
      · split <;> exact ⟨h1, h2⟩

theorem sinv_endBurst {fmt : Format} {crc : Bytes → Nat} (φ : Nat → Outcome) (s : Sched)
    (h : SInv fmt crc s) : SInv fmt crc (Sched.endBurst φ s) := by
  unfold Sched.endBurst
  split
  · exact sinv_flush φ s.a h.1 h.2
  · exact h

theorem sinv_foldl {fmt : Format} {crc : Bytes → Nat} (maxEntries : Nat) (φ : Nat → Outcome) (g : List Msg) (s : Sched)
    (h : SInv fmt crc s) (hg : ∀ m ∈ g, m.Ok fmt crc) : SInv fmt crc (g.foldl (Sched.step maxEntries φ fmt crc) s) := by
  induction g generalizing s with
  | nil => exact h
  | cons m g ih =>
    simp only [List.foldl_cons]
    exact ih _ (sinv_step maxEntries φ s m h (hg m (by simp))) (fun x hx => hg x (by simp [hx]))

theorem sinv_runBursts {fmt : Format} {crc : Bytes → Nat} (maxEntries : Nat) (φ : Nat → Outcome) (bs : List (List Msg)) (s : Sched)
    (h : SInv fmt crc s) (hb : ∀ g ∈ bs, ∀ m ∈ g, m.Ok fmt crc) : SInv fmt crc (Sched.runBursts maxEntries φ fmt crc s bs) := by
  unfold Sched.runBursts
  induction bs generalizing s with
  | nil => exact h
  | cons g bs ih =>
    simp only [List.foldl_cons]
    exact ih _ (sinv_endBurst φ _ (sinv_foldl maxEntries φ g s h (hb g (by simp)))) (fun x hx => hb x (by simp [hx]))

end Wal
end RedisVerif
