/-
  FoldACI — folds of an associative / commutative / idempotent operation.

  For `m : α → α → α` that is ACI on a carrier `C` closed under `m`, the left fold of a list
  depends only on the SET of its elements: it is the least upper bound of the elements in the
  induced order  `a ≤ b :↔ m a b = b`.  Hence it is invariant under permutation, under
  duplication of elements, and two lists have the same fold as soon as every element of each
  is below the fold of the other (`foldl_eq_of_mutual_le`), which is what "replace a set of
  updates by their merge" (compaction) needs.

  Used by C11 (recovery order / duplicates / repetition), C13 (compaction), C06.
-/
namespace RedisVerif
namespace FoldACI

variable {α : Type}

/-- `m` is associative, commutative and idempotent on the carrier `C`, which it preserves -/
structure ACI (m : α → α → α) (C : α → Prop) : Prop where
  closed : ∀ a b, C a → C b → C (m a b)
  comm : ∀ a b, C a → C b → m a b = m b a
  assoc : ∀ a b c, C a → C b → C c → m a (m b c) = m (m a b) c
  idem : ∀ a, C a → m a a = a

/-- the induced order -/
def le (m : α → α → α) (a b : α) : Prop := m a b = b

variable {m : α → α → α} {C : α → Prop}

theorem le_refl (h : ACI m C) {a : α} (ha : C a) : le m a a := h.idem a ha

theorem le_trans (h : ACI m C) {a b c : α} (ha : C a) (hb : C b) (hc : C c)
    (hab : le m a b) (hbc : le m b c) : le m a c := by
  unfold le at *
  calc m a c = m a (m b c) := by rw [hbc]
    _ = m (m a b) c := h.assoc a b c ha hb hc
    _ = m b c := by rw [hab]
    _ = c := hbc

theorem le_antisymm (h : ACI m C) {a b : α} (ha : C a) (hb : C b)
    (hab : le m a b) (hba : le m b a) : a = b := by
  unfold le at *
  calc a = m b a := hba.symm
    _ = m a b := h.comm b a hb ha
    _ = b := hab

theorem le_merge_left (h : ACI m C) {a b : α} (ha : C a) (hb : C b) : le m a (m a b) := by
  unfold le
  rw [h.assoc a a b ha ha hb, h.idem a ha]

theorem le_merge_right (h : ACI m C) {a b : α} (ha : C a) (hb : C b) : le m b (m a b) := by
  unfold le
  rw [h.comm a b ha hb, h.assoc b b a hb hb ha, h.idem b hb]

/-- `m a b` is the least upper bound of `a` and `b` -/
theorem merge_le (h : ACI m C) {a b u : α} (ha : C a) (hb : C b) (hu : C u)
    (hau : le m a u) (hbu : le m b u) : le m (m a b) u := by
  unfold le at *
  rw [← h.assoc a b u ha hb hu, hbu, hau]

/-! ### folds -/

theorem foldl_closed (h : ACI m C) {l : List α} {x : α} (hx : C x) (hl : ∀ y ∈ l, C y) :
    C (l.foldl m x) := by
  induction l generalizing x with
  | nil => exact hx
  | cons y l ih =>
    simp only [List.foldl_cons]
    exact ih (h.closed x y hx (hl y (by simp))) (fun z hz => hl z (by simp [hz]))

theorem le_foldl_init (h : ACI m C) {l : List α} {x : α} (hx : C x) (hl : ∀ y ∈ l, C y) :
    le m x (l.foldl m x) := by
  induction l generalizing x with
  | nil => exact le_refl h hx
  | cons y l ih =>
    simp only [List.foldl_cons]
    have hy : C y := hl y (by simp)
    have hl' : ∀ z ∈ l, C z := fun z hz => hl z (by simp [hz])
    have hxy := h.closed x y hx hy
    exact le_trans h hx hxy (foldl_closed h hxy hl') (le_merge_left h hx hy) (ih hxy hl')

theorem le_foldl_mem (h : ACI m C) {l : List α} {x y : α} (hx : C x) (hl : ∀ y ∈ l, C y)
    (hy : y ∈ l) : le m y (l.foldl m x) := by
  induction l generalizing x with
  | nil => cases hy
  | cons z l ih =>
    simp only [List.foldl_cons]
    have hz : C z := hl z (by simp)
    have hl' : ∀ z ∈ l, C z := fun z hz => hl z (by simp [hz])
    have hxz := h.closed x z hx hz
    cases hy with
    | head =>
      exact le_trans h hz hxz (foldl_closed h hxz hl') (le_merge_right h hx hz)
        (le_foldl_init h hxz hl')
    | tail _ hy' => exact ih hxz hl' hy'

/-- every element (initial value included) is below the fold -/
theorem le_foldl (h : ACI m C) {l : List α} {x y : α} (hx : C x) (hl : ∀ y ∈ l, C y)
    (hy : y ∈ x :: l) : le m y (l.foldl m x) := by
  cases hy with
  | head => exact le_foldl_init h hx hl
  | tail _ hy' => exact le_foldl_mem h hx hl hy'

/-- the fold is below every upper bound: it is the least upper bound -/
theorem foldl_le (h : ACI m C) {l : List α} {x u : α} (hx : C x) (hl : ∀ y ∈ l, C y) (hu : C u)
    (hxu : le m x u) (hlu : ∀ y ∈ l, le m y u) : le m (l.foldl m x) u := by
  induction l generalizing x with
  | nil => exact hxu
  | cons y l ih =>
    simp only [List.foldl_cons]
    have hy : C y := hl y (by simp)
    exact ih (h.closed x y hx hy) (fun z hz => hl z (by simp [hz]))
      (merge_le h hx hy hu hxu (hlu y (by simp))) (fun z hz => hlu z (by simp [hz]))

/-- two folds agree as soon as every element of each list is below the fold of the other -/
theorem foldl_eq_of_mutual_le (h : ACI m C) {l l' : List α} {x x' : α}
    (hx : C x) (hl : ∀ y ∈ l, C y) (hx' : C x') (hl' : ∀ y ∈ l', C y)
    (h1 : ∀ y ∈ x :: l, le m y (l'.foldl m x')) (h2 : ∀ y ∈ x' :: l', le m y (l.foldl m x)) :
    l.foldl m x = l'.foldl m x' := by
  have c1 := foldl_closed h hx hl
  have c2 := foldl_closed h hx' hl'
  apply le_antisymm h c1 c2
  · exact foldl_le h hx hl c2 (h1 x (by simp)) (fun y hy => h1 y (by simp [hy]))
  · exact foldl_le h hx' hl' c1 (h2 x' (by simp)) (fun y hy => h2 y (by simp [hy]))

/-- **the fold depends only on the set of elements** -/
theorem foldl_eq_of_same_set (h : ACI m C) {l l' : List α} {x x' : α}
    (hx : C x) (hl : ∀ y ∈ l, C y) (hset : ∀ y, y ∈ x :: l ↔ y ∈ x' :: l') :
    l.foldl m x = l'.foldl m x' := by
  have hall : ∀ y ∈ x :: l, C y := by
    intro y hy
    cases hy with
    | head => exact hx
    | tail _ hy' => exact hl y hy'
  have hx' : C x' := hall x' ((hset x').mpr (by simp))
  have hl' : ∀ y ∈ l', C y := fun y hy => hall y ((hset y).mpr (by simp [hy]))
  apply foldl_eq_of_mutual_le h hx hl hx' hl'
  · intro y hy; exact le_foldl h hx' hl' ((hset y).mp hy)
  · intro y hy; exact le_foldl h hx hl ((hset y).mpr hy)

/-! ### fold of a possibly empty list, the first element being the initial value -/

def fold1 (m : α → α → α) : List α → Option α
  | [] => none
  | x :: l => some (l.foldl m x)

theorem fold1_eq_of_same_set (h : ACI m C) {l l' : List α} (hl : ∀ y ∈ l, C y)
    (hset : ∀ y, y ∈ l ↔ y ∈ l') : fold1 m l = fold1 m l' := by
  cases l with
  | nil =>
    cases l' with
    | nil => rfl
    | cons x' l' => exact absurd ((hset x').mpr (by simp)) (by simp)
  | cons x l =>
    cases l' with
    | nil => exact absurd ((hset x).mp (by simp)) (by simp)
    | cons x' l' =>
      simp only [fold1]
      congr 1
      exact foldl_eq_of_same_set h (hl x (by simp)) (fun y hy => hl y (by simp [hy])) hset

/-- invariance under permutation -/
theorem fold1_perm (h : ACI m C) {l l' : List α} (hl : ∀ y ∈ l, C y) (hp : l.Perm l') :
    fold1 m l = fold1 m l' :=
  fold1_eq_of_same_set h hl (fun _ => hp.mem_iff)

/-- invariance under duplication: replaying a list twice changes nothing -/
theorem fold1_append_self (h : ACI m C) {l : List α} (hl : ∀ y ∈ l, C y) :
    fold1 m (l ++ l) = fold1 m l :=
  (fold1_eq_of_same_set h hl (fun y => by simp)).symm

theorem fold1_closed (h : ACI m C) {l : List α} (hl : ∀ y ∈ l, C y) {v : α}
    (hv : fold1 m l = some v) : C v := by
  cases l with
  | nil => cases hv
  | cons x l =>
    simp only [fold1, Option.some.injEq] at hv
    subst hv
    exact foldl_closed h (hl x (by simp)) (fun y hy => hl y (by simp [hy]))

/-- every element is below the fold -/
theorem le_fold1 (h : ACI m C) {l : List α} (hl : ∀ y ∈ l, C y) {y : α} (hy : y ∈ l) :
    ∃ v, fold1 m l = some v ∧ le m y v := by
  cases l with
  | nil => cases hy
  | cons x l =>
    exact ⟨_, rfl, le_foldl h (hl x (by simp)) (fun z hz => hl z (by simp [hz])) hy⟩

/-- mutual-bound criterion for `fold1` -/
theorem fold1_eq_of_mutual_le (h : ACI m C) {l l' : List α} {v v' : α}
    (hl : ∀ y ∈ l, C y) (hl' : ∀ y ∈ l', C y)
    (hv : fold1 m l = some v) (hv' : fold1 m l' = some v')
    (h1 : ∀ y ∈ l, le m y v') (h2 : ∀ y ∈ l', le m y v) : v = v' := by
  cases l with
  | nil => cases hv
  | cons x l =>
    cases l' with
    | nil => cases hv'
    | cons x' l' =>
      simp only [fold1, Option.some.injEq] at hv hv'
      subst hv; subst hv'
      exact foldl_eq_of_mutual_le h (hl x (by simp)) (fun y hy => hl y (by simp [hy]))
        (hl' x' (by simp)) (fun y hy => hl' y (by simp [hy])) h1 h2

/-- continuing a fold: `foldl m x l` for `x` itself a fold -/
theorem fold1_append (l l' : List α) (x : α) :
    fold1 m ((x :: l) ++ l') = some (l'.foldl m (l.foldl m x)) := by
  simp [fold1, List.foldl_append]

/-- the fold of a list all of whose elements are below `u` is below `u` -/
theorem fold1_le_of_forall (h : ACI m C) {l : List α} {v u : α} (hl : ∀ y ∈ l, C y) (hu : C u)
    (hv : fold1 m l = some v) (hle : ∀ y ∈ l, le m y u) : le m v u := by
  cases l with
  | nil => cases hv
  | cons x l =>
    simp only [fold1, Option.some.injEq] at hv
    subst hv
    exact foldl_le h (hl x (by simp)) (fun y hy => hl y (by simp [hy])) hu (hle x (by simp))
      (fun y hy => hle y (by simp [hy]))

/-- **replacing a sub-collection by its fold does not change the fold**: `l'` consists of
    elements of `l` and possibly the fold of `B ⊆ l`; every element of `l` is still in `l'` or is
    in `B` whose fold is in `l'`. -/
theorem fold1_replace (h : ACI m C) {l l' B : List α} (hl : ∀ y ∈ l, C y) (hB : ∀ y ∈ B, y ∈ l)
    (h1 : ∀ y ∈ l', y ∈ l ∨ fold1 m B = some y)
    (h2 : ∀ y ∈ l, y ∈ l' ∨ (y ∈ B ∧ ∃ v, fold1 m B = some v ∧ v ∈ l')) :
    fold1 m l' = fold1 m l := by
  have hBc : ∀ y ∈ B, C y := fun y hy => hl y (hB y hy)
  have hl' : ∀ y ∈ l', C y := by
    intro y hy
    rcases h1 y hy with hh | hh
    · exact hl y hh
    · exact fold1_closed h hBc hh
  cases hfl : fold1 m l with
  | none =>
    cases l with
    | cons x l => simp [fold1] at hfl
    | nil =>
      cases l' with
      | nil => rfl
      | cons x' l' =>
        rcases h1 x' (by simp) with hh | hh
        · cases hh
        · cases B with
          | nil => simp [fold1] at hh
          | cons b B => exact absurd (hB b (by simp)) (by simp)
  | some v =>
    cases hfl' : fold1 m l' with
    | none =>
      cases l' with
      | cons x l' => simp [fold1] at hfl'
      | nil =>
        cases l with
        | nil => simp [fold1] at hfl
        | cons x l =>
          rcases h2 x (by simp) with hh | ⟨_, _, _, hh⟩
          · cases hh
          · cases hh
    | some v' =>
      congr 1
      apply fold1_eq_of_mutual_le h hl' hl hfl' hfl
      · intro y hy
        rcases h1 y hy with hy' | hy'
        · obtain ⟨u, hu, hle⟩ := le_fold1 h hl hy'
          rw [hfl] at hu; cases hu; exact hle
        · apply fold1_le_of_forall h hBc (fold1_closed h hl hfl) hy'
          intro z hz
          obtain ⟨u, hu, hle⟩ := le_fold1 h hl (hB z hz)
          rw [hfl] at hu; cases hu; exact hle
      · intro y hy
        rcases h2 y hy with hy' | ⟨hyB, w, hw, hwl⟩
        · obtain ⟨u, hu, hle⟩ := le_fold1 h hl' hy'
          rw [hfl'] at hu; cases hu; exact hle
        · obtain ⟨u, hu, hle⟩ := le_fold1 h hBc hyB
          rw [hw] at hu; cases hu
          obtain ⟨u', hu', hle'⟩ := le_fold1 h hl' hwl
          rw [hfl'] at hu'; cases hu'
          exact le_trans h (hl y hy) (hl' _ hwl) (fold1_closed h hl' hfl') hle hle'

end FoldACI
end RedisVerif
