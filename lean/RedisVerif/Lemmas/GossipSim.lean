import RedisVerif.Lemmas.Gossip

/-!
  The simulation behind `C06.msg_refines_cluster`: every step of the message-level model is a
  (possibly empty) run of layer-1 events of the cluster model, under the invariant that every
  delta in a queue or on the wire is a delta of the history, queued at / sent by its origin.
-/
namespace RedisVerif
namespace Gossip
open MCluster

structure MInv (c : MCluster) : Prop where
  pend : ∀ (i : Nat) (nd : MNode), c.nodes[i]? = some nd → ∀ m ∈ nd.ps.pending, m ∈ c.issued ∧ m.origin = i
  outb : ∀ (i : Nat) (nd : MNode), c.nodes[i]? = some nd →
    ∀ m ∈ deltasOf nd.g.outbound, m ∈ c.issued ∧ m.origin = i
  wire : ∀ pk ∈ c.wire, ∀ m ∈ pk.msg.payload, m ∈ c.issued

/-- the layer-1 local event of a message-level event -/
def locOf : MEv → List Ev
  | .loc i op _ => [.loc i op]
  | _ => []

def isLoc : Ev → Bool
  | .loc _ _ => true
  | _ => false

theorem getElem?_set_cases {α : Type} {l : List α} {i j : Nat} {x y : α}
    (h : (l.set i x)[j]? = some y) : (j = i ∧ y = x) ∨ (j ≠ i ∧ l[j]? = some y) := by
  rw [List.getElem?_set] at h
  split at h
  · rename_i hij
    split at h
    · simp only [Option.some.injEq] at h
      exact Or.inl ⟨hij.symm, h.symm⟩
    · cases h
  · rename_i hij
    exact Or.inr ⟨fun e => hij e.symm, h⟩

theorem abs_nodes_get (c : MCluster) (i : Nat) (nd : MNode) (h : c.nodes[i]? = some nd) :
    c.abs.nodes[i]? = some nd.ps.sh := by
  simp [abs, List.getElem?_map, h]

theorem filter_isLoc_deliverEvs (sent : List Msg) (j : Nat) (ds : List Msg) :
    (deliverEvs sent j ds).filter isLoc = [] := by
  induction ds with
  | nil => rfl
  | cons d ds ih => simp only [deliverEvs, List.map_cons, List.filter_cons, isLoc] at ih ⊢; exact ih

/-- one message-level step = a run of layer-1 events containing exactly the step's local op -/
theorem step_sim (cp : Caps) (c : MCluster) (hi : MInv c) (e : MEv) :
    MInv (c.step cp e) ∧
    ∃ es : List Ev, (c.step cp e).abs = c.abs.run es ∧ es.filter isLoc = locOf e := by
  cases e with
  | loc i op order =>
    cases hn : c.nodes[i]? with
    | none =>
      simp only [step, hn]
      refine ⟨hi, [.loc i op], ?_, rfl⟩
      simp [Cluster.run, Cluster.step, abs, List.getElem?_map, hn]
    | some nd =>
      cases hd : (Shard.step nd.ps.sh op.toOp).2 with
      | none =>
        have hlo : nd.ps.localOp cp.pending i op = ({ nd.ps with sh := (Shard.step nd.ps.sh op.toOp).1 }, none) := by
          simp only [PShard.localOp, hd]
        simp only [step, hn, hlo]
        refine ⟨?_, [.loc i op], ?_, rfl⟩
        · refine ⟨?_, ?_, hi.wire⟩
          · intro j nd' hj m hm
            rcases getElem?_set_cases hj with ⟨rfl, rfl⟩ | ⟨_, hj⟩
            · exact hi.pend _ nd hn m hm
            · exact hi.pend j nd' hj m hm
          · intro j nd' hj m hm
            rcases getElem?_set_cases hj with ⟨rfl, rfl⟩ | ⟨_, hj⟩
            · exact hi.outb _ nd hn m hm
            · exact hi.outb j nd' hj m hm
        · simp only [Cluster.run, List.foldl_cons, List.foldl_nil, Cluster.step, abs_nodes_get c i nd hn, hd]
          simp [abs, List.map_set]
      | some d =>
        have hlo : nd.ps.localOp cp.pending i op =
            ({ sh := (Shard.step nd.ps.sh op.toOp).1,
               pending := enforceCap cp.pending (nd.ps.pending ++ [⟨i, op.key, d⟩]) }, some d) := by
          simp only [PShard.localOp, hd]
        simp only [step, hn, hlo]
        refine ⟨?_, [.loc i op], ?_, rfl⟩
        · refine ⟨?_, ?_, ?_⟩
          · intro j nd' hj m hm
            rcases getElem?_set_cases hj with ⟨rfl, rfl⟩ | ⟨_, hj⟩
            · simp only at hm
              have := mem_enforceCap hm
              simp only [List.mem_append, List.mem_singleton] at this ⊢
              rcases this with h | h
              · exact ⟨Or.inl (hi.pend _ nd hn m h).1, (hi.pend _ nd hn m h).2⟩
              · rw [h]; exact ⟨Or.inr rfl, rfl⟩
            · have := hi.pend j nd' hj m hm
              exact ⟨List.mem_append_left _ this.1, this.2⟩
          · intro j nd' hj m hm
            rcases getElem?_set_cases hj with ⟨rfl, rfl⟩ | ⟨_, hj⟩
            · simp only at hm
              split at hm
              · rcases queueDeltas_deltas _ _ _ _ m hm with h | h
                · have := hi.outb _ nd hn m h
                  exact ⟨List.mem_append_left _ this.1, this.2⟩
                · simp only [List.mem_singleton] at h
                  rw [h]; exact ⟨by simp, rfl⟩
              · have := hi.outb _ nd hn m hm
                exact ⟨List.mem_append_left _ this.1, this.2⟩
            · have := hi.outb j nd' hj m hm
              exact ⟨List.mem_append_left _ this.1, this.2⟩
          · intro pk hpk m hm
            exact List.mem_append_left _ (hi.wire pk hpk m hm)
        · simp only [Cluster.run, List.foldl_cons, List.foldl_nil, Cluster.step, abs_nodes_get c i nd hn, hd]
          simp [abs, List.map_set]
  | tick i order oks =>
    cases hn : c.nodes[i]? with
    | none => simp only [step, hn]; exact ⟨hi, [], rfl, rfl⟩
    | some nd =>
      simp only [step, hn]
      refine ⟨?_, [], ?_, rfl⟩
      · -- what the tick queues comes from the old queue or from the drained outbox
        have hq : ∀ m ∈ deltasOf ((nd.g.advanceEpoch.queueDeltas cp.outbound order
            (if nd.cfg.collect then nd.ps.drain else (nd.ps, [])).2).outbound),
            m ∈ c.issued ∧ m.origin = i := by
          intro m hm
          rcases queueDeltas_deltas _ _ _ _ m hm with h | h
          · exact hi.outb i nd hn m (by simpa [GState.advanceEpoch] using h)
          · split at h
            · exact hi.pend i nd hn m (by simpa [PShard.drain] using h)
            · cases h
        refine ⟨?_, ?_, ?_⟩
        · intro j nd' hj m hm
          rcases getElem?_set_cases hj with ⟨rfl, rfl⟩ | ⟨_, hj⟩
          · simp only at hm
            split at hm
            · simp [PShard.drain] at hm
            · exact hi.pend _ nd hn m hm
          · exact hi.pend j nd' hj m hm
        · intro j nd' hj m hm
          rcases getElem?_set_cases hj with ⟨rfl, rfl⟩ | ⟨_, hj⟩
          · simp [GState.drainOutbound, deltasOf] at hm
          · exact hi.outb j nd' hj m hm
        · intro pk hpk m hm
          simp only [List.mem_append] at hpk
          rcases hpk with hpk | hpk
          · exact hi.wire pk hpk m hm
          · obtain ⟨⟨r, hr, hmsg⟩, hto⟩ := sendAll_spec nd.cfg _ oks pk hpk
            have hmem : m ∈ deltasOf ((nd.g.advanceEpoch.queueDeltas cp.outbound order
                (if nd.cfg.collect then nd.ps.drain else (nd.ps, [])).2).outbound) := by
              simp only [deltasOf, List.mem_flatMap]
              exact ⟨r, by simpa [GState.drainOutbound] using hr, by rw [← hmsg]; exact hm⟩
            exact (hq m hmem).1
      · simp only [abs, Cluster.run, List.foldl_nil, List.map_set]
        congr 1
        apply List.ext_getElem?
        intro n
        rw [List.getElem?_set]
        split
        · rename_i h; subst h
          simp only [List.length_map, List.getElem?_map, hn, Option.map_some]
          have hlt : i < c.nodes.length := (List.getElem?_eq_some_iff.mp hn).1
          simp only [hlt, if_true]
          split <;> simp [PShard.drain]
        · rfl
  | heartbeat i =>
    cases hn : c.nodes[i]? with
    | none => simp only [step, hn]; exact ⟨hi, [], rfl, rfl⟩
    | some nd =>
      simp only [step, hn]
      refine ⟨?_, [], ?_, rfl⟩
      · refine ⟨?_, ?_, hi.wire⟩
        · intro j nd' hj m hm
          rcases getElem?_set_cases hj with ⟨rfl, rfl⟩ | ⟨_, hj⟩
          · exact hi.pend _ nd hn m hm
          · exact hi.pend j nd' hj m hm
        · intro j nd' hj m hm
          rcases getElem?_set_cases hj with ⟨rfl, rfl⟩ | ⟨_, hj⟩
          · simp only [GState.queueHeartbeat, GState.push] at hm
            have := deltasOf_enforceCap hm
            rw [deltasOf_append, List.mem_append] at this
            rcases this with h | h
            · exact hi.outb _ nd hn m h
            · simp [deltasOf, GMsg.payload, GMsg.intoDeltas] at h
          · exact hi.outb j nd' hj m hm
      · simp only [abs, Cluster.run, List.foldl_nil, List.map_set]
        congr 1
        apply List.ext_getElem?
        intro n
        rw [List.getElem?_set]
        split
        · rename_i h; subst h
          obtain ⟨hlt, heq⟩ := List.getElem?_eq_some_iff.mp hn
          simp [hlt, heq]
        · rfl
  | setRouter i r =>
    cases hn : c.nodes[i]? with
    | none => simp only [step, hn]; exact ⟨hi, [], rfl, rfl⟩
    | some nd =>
      simp only [step, hn]
      refine ⟨?_, [], ?_, rfl⟩
      · refine ⟨?_, ?_, hi.wire⟩
        · intro j nd' hj m hm
          rcases getElem?_set_cases hj with ⟨rfl, rfl⟩ | ⟨_, hj⟩
          · exact hi.pend _ nd hn m hm
          · exact hi.pend j nd' hj m hm
        · intro j nd' hj m hm
          rcases getElem?_set_cases hj with ⟨rfl, rfl⟩ | ⟨_, hj⟩
          · exact hi.outb _ nd hn m hm
          · exact hi.outb j nd' hj m hm
      · simp only [abs, Cluster.run, List.foldl_nil, List.map_set]
        congr 1
        apply List.ext_getElem?
        intro n
        rw [List.getElem?_set]
        split
        · rename_i h; subst h
          obtain ⟨hlt, heq⟩ := List.getElem?_eq_some_iff.mp hn
          simp [hlt, heq]
        · rfl
  | recv p tooLarge =>
    cases hw : c.wire[p]? with
    | none => simp only [step, hw]; exact ⟨hi, [], rfl, rfl⟩
    | some pk =>
      cases hn : c.nodes[pk.to]? with
      | none => simp only [step, hw, hn]; exact ⟨hi, [], rfl, rfl⟩
      | some nd =>
        simp only [step, hw, hn]
        cases tooLarge with
        | true =>
          simp only [if_true]
          exact ⟨⟨hi.pend, hi.outb, hi.wire⟩, [], rfl, rfl⟩
        | false =>
          simp only [Bool.false_eq_true, if_false]
          have hpk := hi.wire pk (List.mem_of_getElem? hw)
          refine ⟨?_, deliverEvs c.issued pk.to pk.msg.payload, ?_, filter_isLoc_deliverEvs _ _ _⟩
          · refine ⟨?_, ?_, hi.wire⟩
            · intro j nd' hj m hm
              rcases getElem?_set_cases hj with ⟨rfl, rfl⟩ | ⟨_, hj⟩
              · exact hi.pend _ nd hn m hm
              · exact hi.pend j nd' hj m hm
            · intro j nd' hj m hm
              rcases getElem?_set_cases hj with ⟨rfl, rfl⟩ | ⟨_, hj⟩
              · exact hi.outb _ nd hn m hm
              · exact hi.outb j nd' hj m hm
          · have := run_deliverEvs pk.msg.payload c.abs pk.to nd.ps.sh (abs_nodes_get c _ nd hn) hpk
            simp only [abs] at this ⊢
            rw [this]
            simp [List.map_set]

theorem run_sim (cp : Caps) (evs : List MEv) : ∀ (c : MCluster), MInv c →
    MInv (c.run cp evs) ∧
    ∃ es : List Ev, (c.run cp evs).abs = c.abs.run es ∧ es.filter isLoc = evs.flatMap locOf := by
  induction evs with
  | nil => intro c hi; exact ⟨hi, [], rfl, rfl⟩
  | cons e evs ih =>
    intro c hi
    obtain ⟨hi1, es1, h1, f1⟩ := step_sim cp c hi e
    obtain ⟨hi2, es2, h2, f2⟩ := ih (c.step cp e) hi1
    refine ⟨hi2, es1 ++ es2, ?_, ?_⟩
    · simp only [MCluster.run, List.foldl_cons] at h2 ⊢
      rw [h2, h1]
      simp [Cluster.run, List.foldl_append]
    · simp [List.filter_append, f1, f2]

end Gossip
end RedisVerif
