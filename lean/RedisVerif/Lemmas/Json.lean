import RedisVerif.Model.Json
import RedisVerif.Lemmas.Bincode

/-!
  Laws of the canonical JSON codecs of `Model/Json.lean`:
  `rt` — decode (encode a ++ rest) = (a, rest) whenever `rest` does not continue a number (`Delim`);
  `exact` — whatever is accepted is, byte for byte, the encoding of what is returned ++ the rest
  returned (no second spelling), and what is returned is representable.
  Codecs that end in a closing byte are `Closed`: `rt` for every `rest`.
-/
namespace RedisVerif
namespace Json

open Bincode (allBytes utf8Valid)

/-- what follows does not continue a number -/
def Delim (rest : Bytes) : Prop := ∀ c t, rest = c :: t → isDigit c = false

structure Lawful {α : Type} (c : Codec α) : Prop where
  rt : ∀ a rest, c.ok a → Delim rest → c.dec (c.enc a ++ rest) = some (a, rest)
  exact : ∀ bs a rest, c.dec bs = some (a, rest) → bs = c.enc a ++ rest ∧ c.ok a

/-- self-delimiting: the round trip holds whatever follows -/
def Closed {α : Type} (c : Codec α) : Prop := ∀ a rest, c.ok a → c.dec (c.enc a ++ rest) = some (a, rest)

/-- first byte of every encoding is `h`-like: never empty, never the given byte -/
def HeadNe {α : Type} (c : Codec α) (x : Nat) : Prop := ∀ a, ∃ h t, c.enc a = h :: t ∧ h ≠ x

/-- the literal is not empty and does not start with a digit -/
def headND : Bytes → Bool
  | c :: _ => !isDigit c
  | [] => false

theorem delim_nil : Delim [] := fun _ _ h => by cases h

theorem delim_of_headND {p : Bytes} (h : headND p = true) (r : Bytes) : Delim (p ++ r) := by
  intro c t hc
  cases p with
  | nil => simp [headND] at h
  | cons x xs =>
    simp only [List.cons_append, List.cons.injEq] at hc
    simp only [headND, Bool.not_eq_true'] at h
    rw [← hc.1]; exact h

theorem delim_cons {c : Nat} (h : isDigit c = false) (r : Bytes) : Delim (c :: r) := by
  intro c' t hc
  simp only [List.cons.injEq] at hc
  rw [← hc.1]; exact h

/-! ## literals -/

theorem strip_append (p r : Bytes) : strip p (p ++ r) = some r := by
  induction p with
  | nil => rfl
  | cons x xs ih => simp only [List.cons_append, strip, if_true]; exact ih

theorem strip_exact (p bs r : Bytes) (h : strip p bs = some r) : bs = p ++ r := by
  induction p generalizing bs with
  | nil => simp only [strip, Option.some.injEq] at h; subst h; rfl
  | cons x xs ih =>
    cases bs with
    | nil => simp [strip] at h
    | cons b bs =>
      simp only [strip] at h
      split at h
      · rename_i hx; subst hx
        rw [ih bs h]; rfl
      · cases h

/-! ## numbers -/

theorem digitsAux_acc (f n : Nat) (acc : Bytes) : digitsAux f n acc = digitsAux f n [] ++ acc := by
  induction f generalizing n acc with
  | zero => rfl
  | succ f ih =>
    simp only [digitsAux]
    split
    · rfl
    · rw [ih (n / 10) ((48 + n % 10) :: acc), ih (n / 10) [48 + n % 10]]; simp

theorem valOf_append_one (xs : Bytes) (d : Nat) : valOf (xs ++ [d]) = valOf xs * 10 + (d - 48) := by
  simp [valOf, List.foldl_append]

theorem valOf_digitsAux (f n : Nat) (h : n < 10 ^ f) : valOf (digitsAux f n []) = n := by
  induction f generalizing n with
  | zero => simp at h; subst h; rfl
  | succ f ih =>
    simp only [digitsAux]
    split
    · simp [valOf]
    · rw [digitsAux_acc, valOf_append_one, ih (n / 10) (by rw [Nat.pow_succ] at h; omega)]
      omega

theorem digitsAux_digits (f n : Nat) : ∀ x ∈ digitsAux f n [], isDigit x = true := by
  induction f generalizing n with
  | zero => intro x hx; cases hx
  | succ f ih =>
    simp only [digitsAux]
    split
    · intro x hx
      simp only [List.mem_singleton] at hx
      subst hx
      simp [isDigit]; omega
    · rw [digitsAux_acc]
      intro x hx
      rcases List.mem_append.mp hx with h | h
      · exact ih _ x h
      · simp only [List.mem_singleton] at h
        subst h
        simp [isDigit]; omega

theorem digitsAux_length (f n : Nat) : (digitsAux f n []).length ≤ f := by
  induction f generalizing n with
  | zero => simp [digitsAux]
  | succ f ih =>
    simp only [digitsAux]
    split
    · simp
    · rw [digitsAux_acc]
      have := ih (n / 10)
      simp only [List.length_append, List.length_singleton]
      omega

/-- no leading zero: `0` is `[48]`, everything else starts with `1..9` -/
theorem digitsAux_head (f n : Nat) (hf : 0 < f) (h : n < 10 ^ f) :
    (n = 0 ∧ digitsAux f n [] = [48]) ∨
    (0 < n ∧ ∃ d t, digitsAux f n [] = d :: t ∧ d ≠ 48) := by
  induction f generalizing n with
  | zero => omega
  | succ f ih =>
    simp only [digitsAux]
    split
    · rename_i h10
      by_cases h0 : n = 0
      · left; subst h0; exact ⟨rfl, rfl⟩
      · right; exact ⟨by omega, 48 + n, [], rfl, by omega⟩
    · rename_i h10
      right
      refine ⟨by omega, ?_⟩
      rw [digitsAux_acc]
      have hf' : 0 < f := by
        cases f with
        | zero => simp at h; omega
        | succ f => omega
      rcases ih (n / 10) hf' (by rw [Nat.pow_succ] at h; omega) with ⟨h0, _⟩ | ⟨_, d, t, he, hd⟩
      · omega
      · exact ⟨d, t ++ [48 + n % 10], by rw [he]; rfl, hd⟩

theorem spanDigits_append (ds rest : Bytes) (hd : ∀ x ∈ ds, isDigit x = true) (hr : Delim rest) :
    spanDigits (ds ++ rest) = (ds, rest) := by
  induction ds with
  | nil =>
    cases rest with
    | nil => rfl
    | cons c t => simp only [List.nil_append, spanDigits, hr c t rfl]; rfl
  | cons d ds ih =>
    simp only [List.cons_append, spanDigits, hd d (by simp), if_true]
    rw [ih (fun x hx => hd x (by simp [hx]))]

theorem spanDigits_exact (bs : Bytes) :
    bs = (spanDigits bs).1 ++ (spanDigits bs).2 ∧ ∀ x ∈ (spanDigits bs).1, isDigit x = true := by
  induction bs with
  | nil => exact ⟨rfl, fun x hx => by cases hx⟩
  | cons c r ih =>
    simp only [spanDigits]
    split
    · rename_i hc
      refine ⟨by simp only [List.cons_append]; rw [← ih.1], ?_⟩
      intro x hx
      rcases List.mem_cons.mp hx with h | h
      · subst h; exact hc
      · exact ih.2 x h
    · exact ⟨rfl, fun x hx => by cases hx⟩

theorem valOf_foldl_ge (t : Bytes) (a : Nat) : a ≤ t.foldl (fun a d => a * 10 + (d - 48)) a := by
  induction t generalizing a with
  | nil => exact Nat.le_refl _
  | cons d t ih =>
    simp only [List.foldl_cons]
    exact Nat.le_trans (by omega) (ih _)

/-- a digit string without a leading zero is worth at least 1 -/
theorem valOf_pos (d : Nat) (t : Bytes) (hd : isDigit d = true) (h0 : d ≠ 48) : 1 ≤ valOf (d :: t) := by
  simp only [valOf, List.foldl_cons]
  have : 1 ≤ 0 * 10 + (d - 48) := by simp [isDigit] at hd; omega
  exact Nat.le_trans this (valOf_foldl_ge t _)

/-- a canonical digit string IS the decimal spelling of its value -/
theorem digitsAux_valOf (f : Nat) (l : Bytes) (hl : l ≠ []) (hd : ∀ x ∈ l, isDigit x = true)
    (hc : l = [48] ∨ ∃ d t, l = d :: t ∧ d ≠ 48) (hf : l.length ≤ f) : digitsAux f (valOf l) [] = l := by
  induction f generalizing l with
  | zero =>
    have : l.length = 0 := by omega
    exact absurd (List.length_eq_zero_iff.mp this) hl
  | succ f ih =>
    have hsplit := List.dropLast_concat_getLast hl
    generalize hi : l.dropLast = init at hsplit
    generalize hx : l.getLast hl = x at hsplit
    have hxd : isDigit x = true := hd x (by rw [← hsplit]; simp)
    have hx48 : 48 ≤ x ∧ x ≤ 57 := by simpa [isDigit] using hxd
    rw [← hsplit, valOf_append_one]
    cases init with
    | nil =>
      simp only [valOf, List.foldl_nil, Nat.zero_mul, Nat.zero_add, digitsAux, List.nil_append]
      rw [if_pos (by omega)]
      congr 1; omega
    | cons d t =>
      -- the head of `l` is the head of `init`
      have hhead : d ≠ 48 := by
        rcases hc with h1 | ⟨d', t', he, hd'⟩
        · rw [← hsplit] at h1
          have := congrArg List.length h1
          simp at this
        · rw [← hsplit] at he
          simp only [List.cons_append, List.cons.injEq] at he
          rw [he.1]; exact hd'
      have hdi : ∀ y ∈ d :: t, isDigit y = true := fun y hy => hd y (by rw [← hsplit]; exact List.mem_append_left _ hy)
      have hpos := valOf_pos d t (hdi d (by simp)) hhead
      have hlen : (d :: t).length ≤ f := by
        have := congrArg List.length hsplit
        simp only [List.length_append, List.length_singleton] at this
        omega
      simp only [digitsAux]
      rw [if_neg (by omega), digitsAux_acc]
      have h1 : (valOf (d :: t) * 10 + (x - 48)) / 10 = valOf (d :: t) := by omega
      have h2 : 48 + (valOf (d :: t) * 10 + (x - 48)) % 10 = x := by omega
      rw [h1, h2, ih (d :: t) (by simp) hdi (Or.inr ⟨d, t, rfl, hhead⟩) hlen]

theorem lawful_natBelow (bound : Nat) (hb : bound ≤ 10 ^ 20) : Lawful (natBelow bound) where
  rt := by
    intro n rest hn hr
    have hn20 : n < 10 ^ 20 := Nat.lt_of_lt_of_le hn hb
    simp only [natBelow, decimal]
    rw [spanDigits_append _ rest (digitsAux_digits 20 n) hr]
    have hv := valOf_digitsAux 20 n hn20
    have hlen := digitsAux_length 20 n
    rcases digitsAux_head 20 n (by decide) hn20 with ⟨h0, he⟩ | ⟨hpos, d, t, he, hd⟩
    · rw [he]
      subst h0
      have hb0 : 0 < bound := hn
      simp [valOf]
      omega
    · rw [he] at hv hlen ⊢
      simp only
      rw [if_neg (fun h => hd h.1), if_pos ⟨by simp only [List.length_cons] at hlen; omega, by rw [hv]; exact hn⟩, hv]
  exact := by
    intro bs v rest h
    simp only [natBelow] at h
    obtain ⟨hbs, hdig⟩ := spanDigits_exact bs
    split at h
    · cases h
    · rename_i d ds r hs
      rw [hs] at hbs hdig
      simp only at hbs hdig
      split at h
      · cases h
      · rename_i hz
        split at h
        · rename_i hlv
          simp only [Option.some.injEq, Prod.mk.injEq] at h
          obtain ⟨hv, hr⟩ := h
          subst hr
          refine ⟨?_, by show v < bound; rw [← hv]; exact hlv.2⟩
          show bs = decimal v ++ r
          rw [hbs, ← hv]
          congr 1
          unfold decimal
          symm
          apply digitsAux_valOf 20 (d :: ds) (by simp) hdig
          · by_cases hd48 : d = 48
            · left
              have : ds = [] := by
                by_cases hds : ds = []
                · exact hds
                · exact absurd ⟨hd48, hds⟩ hz
              rw [hd48, this]
            · right; exact ⟨d, ds, rfl, hd48⟩
          · simp only [List.length_cons]; omega
        · cases h

theorem lawful_u64 : Lawful u64 := lawful_natBelow _ (by decide)
theorem lawful_u8 : Lawful u8 := lawful_natBelow _ (by decide)

theorem digitsAux_ne_nil (f n : Nat) : digitsAux (f + 1) n [] ≠ [] := by
  show (if n < 10 then [48 + n] else digitsAux f (n / 10) [48 + n % 10]) ≠ []
  split
  · simp
  · rw [digitsAux_acc]; simp

theorem natBelow_head (bound : Nat) (x : Nat) (hx : isDigit x = false) : HeadNe (natBelow bound) x := by
  intro n
  show ∃ h t, decimal n = h :: t ∧ h ≠ x
  have hd := digitsAux_digits 20 n
  unfold decimal
  cases he : digitsAux 20 n [] with
  | nil => exact absurd he (digitsAux_ne_nil 19 n)
  | cons h t =>
    refine ⟨h, t, rfl, ?_⟩
    intro hh
    have := hd h (by rw [he]; simp)
    rw [hh, hx] at this
    cases this

theorem lawful_bool : Lawful bool where
  rt := by
    intro b rest _ _
    cases b <;> rfl
  exact := by
    intro bs a rest h
    simp only [bool] at h
    split at h
    · simp only [Option.some.injEq, Prod.mk.injEq] at h
      obtain ⟨ha, hr⟩ := h
      subst ha; subst hr
      exact ⟨rfl, trivial⟩
    · simp only [Option.some.injEq, Prod.mk.injEq] at h
      obtain ⟨ha, hr⟩ := h
      subst ha; subst hr
      exact ⟨rfl, trivial⟩
    · cases h

theorem closed_bool : Closed bool := by
  intro b rest _
  cases b <;> rfl

/-! ## strings -/

theorem unhex_hexLow : ∀ d, d < 16 → unhexLow (hexLow d) = some d := by decide

theorem hexLow_of_unhex (c d : Nat) (h : unhexLow c = some d) : hexLow d = c ∧ d < 16 := by
  unfold unhexLow at h
  split at h
  · simp only [Option.some.injEq] at h
    subst h
    unfold hexLow
    constructor
    · rw [if_pos (by omega)]; omega
    · omega
  · split at h
    · simp only [Option.some.injEq] at h
      subst h
      unfold hexLow
      constructor
      · rw [if_neg (by omega)]; omega
      · omega
    · cases h

theorem pushB_some (b : Nat) (o : Option (Bytes × Bytes)) (c rest : Bytes) (h : pushB b o = some (c, rest)) :
    ∃ c', c = b :: c' ∧ o = some (c', rest) := by
  cases o with
  | none => cases h
  | some p =>
    obtain ⟨c', r⟩ := p
    simp only [pushB, Option.some.injEq, Prod.mk.injEq] at h
    exact ⟨c', h.1.symm, by rw [h.2]⟩

/-- one byte of the content, as the encoder spells it -/
theorem unescAux_step (b : Nat) (tail : Bytes) (f : Nat) (hb : b < 256) :
    unescAux (f + 1) (escByte b ++ tail) = pushB b (unescAux f tail) := by
  unfold escByte
  by_cases h1 : b = 34
  · subst h1; simp [unescAux, shortEsc]
  rw [if_neg h1]
  by_cases h2 : b = 92
  · subst h2; simp [unescAux, shortEsc]
  rw [if_neg h2]
  by_cases h3 : b = 8
  · subst h3; simp [unescAux, shortEsc]
  rw [if_neg h3]
  by_cases h4 : b = 12
  · subst h4; simp [unescAux, shortEsc]
  rw [if_neg h4]
  by_cases h5 : b = 10
  · subst h5; simp [unescAux, shortEsc]
  rw [if_neg h5]
  by_cases h6 : b = 13
  · subst h6; simp [unescAux, shortEsc]
  rw [if_neg h6]
  by_cases h7 : b = 9
  · subst h7; simp [unescAux, shortEsc]
  rw [if_neg h7]
  by_cases h8 : b < 32
  · rw [if_pos h8]
    simp only [List.cons_append, List.nil_append, unescAux]
    rw [if_neg (by decide : ¬ (92 : Nat) = 34)]
    simp only [if_true]
    rw [unhex_hexLow (b / 16) (by omega), unhex_hexLow (b % 16) (by omega)]
    simp only
    have hv : b / 16 * 16 + b % 16 = b := by omega
    rw [hv, if_pos ⟨h8, h3, h7, h5, h4, h6⟩]
  · rw [if_neg h8]
    simp only [List.cons_append, List.nil_append, unescAux]
    rw [if_neg h1, if_neg h2, if_neg (by omega)]

theorem escape_cons (b : Nat) (bs : Bytes) : escape (b :: bs) = escByte b ++ escape bs := rfl

theorem escByte_length_pos (b : Nat) : 1 ≤ (escByte b).length := by
  unfold escByte
  repeat' split
  all_goals simp

theorem unescAux_rt (bs rest : Bytes) (f : Nat) (hb : ∀ x ∈ bs, x < 256) (hf : bs.length < f) :
    unescAux f (escape bs ++ 34 :: rest) = some (bs, rest) := by
  induction bs generalizing f with
  | nil =>
    cases f with
    | zero => omega
    | succ f => simp [escape, unescAux]
  | cons b bs ih =>
    cases f with
    | zero => omega
    | succ f =>
      rw [escape_cons, List.append_assoc, unescAux_step b _ f (hb b (by simp)),
        ih f (fun x hx => hb x (by simp [hx])) (by simp only [List.length_cons] at hf; omega)]
      rfl

theorem escape_length_ge (bs : Bytes) : bs.length ≤ (escape bs).length := by
  induction bs with
  | nil => simp [escape]
  | cons b bs ih =>
    rw [escape_cons]
    have := escByte_length_pos b
    simp only [List.length_cons, List.length_append]
    omega

theorem shortEsc_escByte (e v : Nat) (h : shortEsc e = some v) : escByte v = [92, e] := by
  unfold shortEsc at h
  repeat' split at h
  all_goals first
    | (simp only [Option.some.injEq] at h; subst h; subst_vars; rfl)
    | cases h

theorem unescAux_exact (f : Nat) (bs c rest : Bytes) (h : unescAux f bs = some (c, rest)) :
    bs = escape c ++ 34 :: rest ∧ ∀ x ∈ c, x < 256 := by
  induction f generalizing bs c with
  | zero => simp [unescAux] at h
  | succ f ih =>
    cases bs with
    | nil => simp [unescAux] at h
    | cons b r =>
      simp only [unescAux] at h
      split at h
      · rename_i hq
        simp only [Option.some.injEq, Prod.mk.injEq] at h
        obtain ⟨hc, hr⟩ := h
        subst hc; subst hr; subst hq
        exact ⟨rfl, fun x hx => by cases hx⟩
      · rename_i hq
        split at h
        · rename_i hbs
          subst hbs
          cases r with
          | nil => cases h
          | cons e r1 =>
            simp only at h
            split at h
            · rename_i he
              subst he
              split at h
              · rename_i hh l r2
                split at h
                · rename_i x y hx hy
                  split at h
                  · rename_i hv
                    obtain ⟨c', hc', ho⟩ := pushB_some _ _ _ _ h
                    obtain ⟨e1, e2⟩ := ih r2 c' ho
                    obtain ⟨hhx, hx16⟩ := hexLow_of_unhex hh x hx
                    obtain ⟨hly, hy16⟩ := hexLow_of_unhex l y hy
                    subst hc'
                    refine ⟨?_, ?_⟩
                    · rw [escape_cons, e1]
                      have hesc : escByte (x * 16 + y) = [92, 117, 48, 48, hh, l] := by
                        unfold escByte
                        rw [if_neg (by omega), if_neg (by omega), if_neg hv.2.1, if_neg hv.2.2.2.2.1, if_neg hv.2.2.2.1,
                          if_neg hv.2.2.2.2.2, if_neg hv.2.2.1, if_pos hv.1]
                        have d1 : (x * 16 + y) / 16 = x := by omega
                        have d2 : (x * 16 + y) % 16 = y := by omega
                        rw [d1, d2, hhx, hly]
                      rw [hesc]; rfl
                    · intro z hz
                      rcases List.mem_cons.mp hz with hz | hz
                      · omega
                      · exact e2 z hz
                  · cases h
                · cases h
              · cases h
            · rename_i he
              split at h
              · rename_i v hv
                obtain ⟨c', hc', ho⟩ := pushB_some _ _ _ _ h
                obtain ⟨e1, e2⟩ := ih r1 c' ho
                subst hc'
                refine ⟨?_, ?_⟩
                · rw [escape_cons, e1, shortEsc_escByte e v hv]; rfl
                · intro z hz
                  rcases List.mem_cons.mp hz with hz | hz
                  · subst hz
                    unfold shortEsc at hv
                    repeat' split at hv
                    all_goals first
                      | (simp only [Option.some.injEq] at hv; omega)
                      | cases hv
                  · exact e2 z hz
              · cases h
        · rename_i hbs
          split at h
          · cases h
          · rename_i hrange
            obtain ⟨c', hc', ho⟩ := pushB_some _ _ _ _ h
            obtain ⟨e1, e2⟩ := ih r c' ho
            subst hc'
            refine ⟨?_, ?_⟩
            · rw [escape_cons, e1]
              have : escByte b = [b] := by
                unfold escByte
                rw [if_neg hq, if_neg hbs, if_neg (by omega), if_neg (by omega), if_neg (by omega), if_neg (by omega),
                  if_neg (by omega), if_neg (by omega)]
              rw [this]; rfl
            · intro z hz
              rcases List.mem_cons.mp hz with hz | hz
              · omega
              · exact e2 z hz

theorem lawful_str : Lawful str ∧ Closed str := by
  have hrt : Closed str := by
    intro b rest hb
    show str.dec (34 :: (escape b ++ [34]) ++ rest) = _
    simp only [str, List.cons_append, List.append_assoc, List.nil_append]
    unfold unesc
    rw [unescAux_rt b rest _ ((Bincode.allBytes_iff b).mp hb.1) (by
      have := escape_length_ge b
      simp only [List.length_append, List.length_cons]
      omega)]
    simp only
    rw [if_pos hb.2]
  refine ⟨⟨fun a rest ha _ => hrt a rest ha, ?_⟩, hrt⟩
  intro bs a rest h
  cases bs with
  | nil => simp [str] at h
  | cons q r =>
    simp only [str] at h
    split at h
    · rename_i r' heq
      simp only [List.cons.injEq] at heq
      obtain ⟨hq, hr⟩ := heq
      subst hq; subst hr
      split at h
      · rename_i c rest' hu
        split at h
        · rename_i hutf
          simp only [Option.some.injEq, Prod.mk.injEq] at h
          obtain ⟨hc, hrest⟩ := h
          subst hc; subst hrest
          obtain ⟨e1, e2⟩ := unescAux_exact _ _ _ _ hu
          refine ⟨?_, (Bincode.allBytes_iff c).mpr e2, hutf⟩
          show 34 :: r = 34 :: (escape c ++ [34]) ++ rest'
          rw [e1]; simp
        · cases h
      · cases h
    · cases h

theorem str_head (x : Nat) (hx : x ≠ 34) : HeadNe str x :=
  fun a => ⟨34, escape a ++ [34], rfl, fun h => hx h.symm⟩

/-! ## combinators -/

theorem lawful_pre {α : Type} {c : Codec α} (p : Bytes) (hc : Lawful c) : Lawful (pre p c) where
  rt := by
    intro a rest ha hr
    simp only [pre]
    rw [List.append_assoc, strip_append]
    exact hc.rt a rest ha hr
  exact := by
    intro bs a rest h
    simp only [pre] at h
    split at h
    · cases h
    · rename_i r hs
      obtain ⟨e1, o1⟩ := hc.exact r a rest h
      refine ⟨?_, o1⟩
      show bs = (p ++ c.enc a) ++ rest
      rw [strip_exact p bs r hs, e1, List.append_assoc]

theorem closed_pre {α : Type} {c : Codec α} (p : Bytes) (hc : Closed c) : Closed (pre p c) := by
  intro a rest ha
  simp only [pre]
  rw [List.append_assoc, strip_append]
  exact hc a rest ha

theorem post_rt {α : Type} {c : Codec α} (p : Bytes) (hc : Lawful c) (hp : headND p = true) :
    Closed (post c p) := by
  intro a rest ha
  simp only [post]
  rw [List.append_assoc, hc.rt a _ ha (delim_of_headND hp rest)]
  simp only
  rw [strip_append]

theorem lawful_post {α : Type} {c : Codec α} (p : Bytes) (hc : Lawful c) (hp : headND p = true) :
    Lawful (post c p) where
  rt := fun a rest ha _ => post_rt p hc hp a rest ha
  exact := by
    intro bs a rest h
    simp only [post] at h
    split at h
    · cases h
    · rename_i a' r h1
      split at h
      · cases h
      · rename_i r' hs
        simp only [Option.some.injEq, Prod.mk.injEq] at h
        obtain ⟨ha, hr⟩ := h
        subst ha; subst hr
        obtain ⟨e1, o1⟩ := hc.exact bs a' r h1
        refine ⟨?_, o1⟩
        show bs = (c.enc a' ++ p) ++ r'
        rw [e1, strip_exact p r r' hs, List.append_assoc]

theorem lawful_pairSep {α β : Type} {c : Codec α} {d : Codec β} (sep : Bytes) (hc : Lawful c) (hd : Lawful d)
    (hs : headND sep = true) : Lawful (pairSep c sep d) where
  rt := by
    intro p rest hp hr
    simp only [pairSep]
    rw [List.append_assoc, hc.rt p.1 _ hp.1 (by rw [List.append_assoc]; exact delim_of_headND hs _)]
    simp only
    rw [List.append_assoc, strip_append]
    simp only
    rw [hd.rt p.2 rest hp.2 hr]
  exact := by
    intro bs p rest h
    simp only [pairSep] at h
    split at h
    · cases h
    · rename_i a r h1
      split at h
      · cases h
      · rename_i r1 hs1
        split at h
        · cases h
        · rename_i b r' h2
          simp only [Option.some.injEq, Prod.mk.injEq] at h
          obtain ⟨hp, hr⟩ := h
          subst hp; subst hr
          obtain ⟨e1, o1⟩ := hc.exact bs a r h1
          obtain ⟨e2, o2⟩ := hd.exact r1 b r' h2
          refine ⟨?_, o1, o2⟩
          show bs = (c.enc a ++ (sep ++ d.enc b)) ++ r'
          rw [e1, strip_exact sep r r1 hs1, e2]; simp

theorem closed_pairSep {α β : Type} {c : Codec α} {d : Codec β} (sep : Bytes) (hc : Lawful c) (hd : Closed d)
    (hs : headND sep = true) : Closed (pairSep c sep d) := by
  intro p rest hp
  simp only [pairSep]
  rw [List.append_assoc, hc.rt p.1 _ hp.1 (by rw [List.append_assoc]; exact delim_of_headND hs _)]
  simp only
  rw [List.append_assoc, strip_append]
  simp only
  rw [hd p.2 rest hp.2]

theorem pairSep_head {α β : Type} {c : Codec α} {d : Codec β} (sep : Bytes) (x : Nat) (hc : HeadNe c x) :
    HeadNe (pairSep c sep d) x := by
  intro p
  obtain ⟨h, t, he, hx⟩ := hc p.1
  exact ⟨h, t ++ (sep ++ d.enc p.2), by show c.enc p.1 ++ _ = _; rw [he]; rfl, hx⟩

theorem pre_head {α : Type} {c : Codec α} (h : Nat) (t : Bytes) (x : Nat) (hx : h ≠ x) : HeadNe (pre (h :: t) c) x :=
  fun a => ⟨h, t ++ c.enc a, rfl, hx⟩

theorem post_head {α : Type} {c : Codec α} (p : Bytes) (x : Nat) (hc : HeadNe c x) : HeadNe (post c p) x := by
  intro a
  obtain ⟨h, t, he, hx⟩ := hc a
  exact ⟨h, t ++ p, by show c.enc a ++ p = _; rw [he]; rfl, hx⟩

theorem xmap_head {α β : Type} {c : Codec α} (f : α → β) (g : β → α) (x : Nat) (hc : HeadNe c x) :
    HeadNe (xmap c f g) x := fun b => hc (g b)

theorem lawful_opt {α : Type} {c : Codec α} (hc : Lawful c) (hn : HeadNe c 110) : Lawful (opt c) where
  rt := by
    intro a rest ha hr
    cases a with
    | none => rfl
    | some a =>
      obtain ⟨h, t, he, hne⟩ := hn a
      have hdec := hc.rt a rest ha hr
      show (opt c).dec (c.enc a ++ rest) = _
      rw [he] at hdec ⊢
      simp only [List.cons_append] at hdec ⊢
      unfold opt
      simp only
      split
      · rename_i r heq
        simp only [List.cons.injEq] at heq
        exact absurd heq.1 hne
      · rw [hdec]
  exact := by
    intro bs a rest h
    unfold opt at h
    simp only at h
    split at h
    · simp only [Option.some.injEq, Prod.mk.injEq] at h
      obtain ⟨ha, hr⟩ := h
      subst ha; subst hr
      exact ⟨rfl, trivial⟩
    · split at h
      · rename_i a' r hd
        simp only [Option.some.injEq, Prod.mk.injEq] at h
        obtain ⟨ha, hr⟩ := h
        subst ha; subst hr
        exact hc.exact _ a' r hd
      · cases h

theorem lawful_xmap {α β : Type} {c : Codec α} (hc : Lawful c) (f : α → β) (g : β → α)
    (hfg : ∀ b, f (g b) = b) (hgf : ∀ a, g (f a) = a) : Lawful (xmap c f g) where
  rt := by
    intro b rest hb hr
    simp only [xmap]
    rw [hc.rt (g b) rest hb hr]
    simp only [hfg]
  exact := by
    intro bs b rest h
    simp only [xmap] at h
    split at h
    · cases h
    · rename_i a r h1
      simp only [Option.some.injEq, Prod.mk.injEq] at h
      obtain ⟨hb, hr⟩ := h
      subst hb; subst hr
      obtain ⟨e1, o1⟩ := hc.exact bs a r h1
      refine ⟨?_, ?_⟩
      · show bs = c.enc (g (f a)) ++ r
        rw [hgf]; exact e1
      · show c.ok (g (f a))
        rw [hgf]; exact o1

theorem closed_xmap {α β : Type} {c : Codec α} (hc : Closed c) (f : α → β) (g : β → α)
    (hfg : ∀ b, f (g b) = b) : Closed (xmap c f g) := by
  intro b rest hb
  simp only [xmap]
  rw [hc (g b) rest hb]
  simp only [hfg]

/-! ## sequences -/

theorem decRest_rt {α : Type} {c : Codec α} (close : Nat) (hc : Lawful c) (hcl : isDigit close = false)
    (h44 : close ≠ 44) (t : List α) (rest : Bytes) (f : Nat) (ht : ∀ a ∈ t, c.ok a) (hf : t.length < f) :
    decRest close c.dec f (t.flatMap (fun x => 44 :: c.enc x) ++ close :: rest) = some (t, rest) := by
  induction t generalizing f with
  | nil =>
    cases f with
    | zero => omega
    | succ f => simp [decRest]
  | cons a t ih =>
    cases f with
    | zero => omega
    | succ f =>
      simp only [List.flatMap_cons, List.cons_append, List.append_assoc, decRest]
      rw [if_neg (fun h => h44 h.symm)]
      simp only [if_true]
      have hd : Delim (t.flatMap (fun x => 44 :: c.enc x) ++ close :: rest) := by
        cases t with
        | nil => exact delim_cons hcl rest
        | cons b t' => simp only [List.flatMap_cons, List.cons_append]; exact delim_cons (by decide) _
      rw [hc.rt a _ (ht a (by simp)) hd]
      simp only
      rw [ih f (fun x hx => ht x (by simp [hx])) (by simp only [List.length_cons] at hf; omega)]

theorem decRest_exact {α : Type} {c : Codec α} (close : Nat) (hc : Lawful c) (f : Nat) (bs : Bytes) (l : List α)
    (rest : Bytes) (h : decRest close c.dec f bs = some (l, rest)) :
    bs = l.flatMap (fun x => 44 :: c.enc x) ++ close :: rest ∧ ∀ a ∈ l, c.ok a := by
  induction f generalizing bs l with
  | zero => simp [decRest] at h
  | succ f ih =>
    cases bs with
    | nil => simp [decRest] at h
    | cons b r =>
      simp only [decRest] at h
      split at h
      · rename_i hb
        simp only [Option.some.injEq, Prod.mk.injEq] at h
        obtain ⟨hl, hr⟩ := h
        subst hl; subst hr; subst hb
        exact ⟨rfl, fun a ha => by cases ha⟩
      · split at h
        · rename_i hb
          subst hb
          split at h
          · cases h
          · rename_i a r1 h1
            split at h
            · cases h
            · rename_i as r2 h2
              simp only [Option.some.injEq, Prod.mk.injEq] at h
              obtain ⟨hl, hr⟩ := h
              subst hl; subst hr
              obtain ⟨e1, o1⟩ := hc.exact r a r1 h1
              obtain ⟨e2, o2⟩ := ih r1 as h2
              refine ⟨by rw [e1, e2]; simp, ?_⟩
              intro x hx
              rcases List.mem_cons.mp hx with hx | hx
              · subst hx; exact o1
              · exact o2 x hx
        · cases h

theorem flatMap_length_ge {α : Type} (c : Codec α) (t : List α) :
    t.length ≤ (t.flatMap (fun x => 44 :: c.enc x)).length := by
  induction t with
  | nil => simp
  | cons a t ih => simp only [List.flatMap_cons, List.length_cons, List.length_append]; omega

theorem lawful_seq {α : Type} {c : Codec α} (op close : Nat) (hc : Lawful c) (hcl : isDigit close = false)
    (h44 : close ≠ 44) (hhd : HeadNe c close) : Lawful (seq op close c) ∧ Closed (seq op close c) := by
  have hrt : Closed (seq op close c) := by
    intro l rest hl
    cases l with
    | nil => simp [seq]
    | cons a t =>
      obtain ⟨h, tl, he, hne⟩ := hhd a
      show (seq op close c).dec (op :: (c.enc a ++ (t.flatMap (fun x => 44 :: c.enc x) ++ [close])) ++ rest) = _
      have hd : Delim (t.flatMap (fun x => 44 :: c.enc x) ++ close :: rest) := by
        cases t with
        | nil => exact delim_cons hcl rest
        | cons b t' => simp only [List.flatMap_cons, List.cons_append]; exact delim_cons (by decide) _
      have hdec := hc.rt a _ (hl a (by simp)) hd
      simp only [seq, List.cons_append, List.append_assoc, List.nil_append, ne_eq, not_true_eq_false, if_false]
      rw [he] at hdec ⊢
      simp only [List.cons_append] at hdec ⊢
      rw [if_neg hne, hdec]
      simp only
      rw [decRest_rt close hc hcl h44 t rest _ (fun x hx => hl x (by simp [hx])) (by
        have := flatMap_length_ge c t
        simp only [List.length_append, List.length_cons]
        omega)]
  refine ⟨⟨fun a rest ha _ => hrt a rest ha, ?_⟩, hrt⟩
  intro bs l rest h
  cases bs with
  | nil => simp [seq] at h
  | cons b r =>
    simp only [seq] at h
    split at h
    · cases h
    · rename_i hb
      simp only [ne_eq, Decidable.not_not] at hb
      subst hb
      cases r with
      | nil => cases h
      | cons b1 r1 =>
        simp only at h
        split at h
        · rename_i hb1
          simp only [Option.some.injEq, Prod.mk.injEq] at h
          obtain ⟨hl, hr⟩ := h
          subst hl; subst hr; subst hb1
          exact ⟨rfl, fun a ha => by cases ha⟩
        · split at h
          · cases h
          · rename_i a r2 h1
            split at h
            · cases h
            · rename_i as r3 h2
              simp only [Option.some.injEq, Prod.mk.injEq] at h
              obtain ⟨hl, hr⟩ := h
              subst hl; subst hr
              obtain ⟨e1, o1⟩ := hc.exact _ a r2 h1
              obtain ⟨e2, o2⟩ := decRest_exact close hc _ r2 as r3 h2
              refine ⟨?_, ?_⟩
              · show b :: b1 :: r1 = b :: (c.enc a ++ (as.flatMap (fun x => 44 :: c.enc x) ++ [close])) ++ r3
                rw [e1, e2]; simp
              · intro x hx
                rcases List.mem_cons.mp hx with hx | hx
                · subst hx; exact o1
                · exact o2 x hx

theorem seq_head {α : Type} (c : Codec α) (op close x : Nat) (hx : op ≠ x) : HeadNe (seq op close c) x := by
  intro l
  cases l with
  | nil => exact ⟨op, [close], rfl, hx⟩
  | cons a t => exact ⟨op, _, rfl, hx⟩

end Json
end RedisVerif
