import RedisVerif.Model.Glue
import RedisVerif.Lemmas.LocalOp
import RedisVerif.Lemmas.RedisStep
import RedisVerif.Lemmas.RedisSetHash

/-! Helper lemmas for C06 layer 2 (the command → delta glue): live fields of a replicated hash
    against the executor's hash operations, the entry-level form of `materialise`, the state
    invariant of a node and its preservation, one lemma per recorded command. -/
namespace RedisVerif.Glue
open Redis

/-! ### live fields of a replicated hash -/

theorem liveFields_nil : liveFields [] = [] := rfl

theorem liveFields_cons (p : Nat × Lww) (h : NMap Lww) :
    liveFields (p :: h) =
      (match p.2.get with
       | some v => (p.1, v) :: liveFields h
       | none => liveFields h) := by
  simp only [liveFields, List.filterMap_cons]
  cases p.2.get <;> rfl

theorem liveFields_LB {k : Nat} {h : NMap Lww} (hl : NMap.LB k h) : NMap.LB k (liveFields h) := by
  intro q hq
  simp only [liveFields, List.mem_filterMap] at hq
  obtain ⟨p, hp, hpq⟩ := hq
  cases hg : p.2.get with
  | none => simp [hg] at hpq
  | some v =>
    simp only [hg, Option.map_some, Option.some.injEq] at hpq
    subst hpq
    exact hl p hp

theorem wf_liveFields {h : NMap Lww} (hw : NMap.WF h) : NMap.WF (liveFields h) := by
  induction h with
  | nil => exact NMap.wf_nil
  | cons p h ih =>
    have ⟨hlb, hw'⟩ := NMap.wf_cons.mp hw
    rw [liveFields_cons]
    split
    · exact NMap.wf_cons.mpr ⟨liveFields_LB hlb, ih hw'⟩
    · exact ih hw'

theorem get_liveFields {h : NMap Lww} (hw : NMap.WF h) (f : Nat) :
    NMap.get (liveFields h) f = (NMap.get h f).bind Lww.get := by
  induction h with
  | nil => rfl
  | cons p h ih =>
    obtain ⟨k0, r0⟩ := p
    have ⟨hlb, hw'⟩ := NMap.wf_cons.mp hw
    rw [liveFields_cons, NMap.get_cons]
    by_cases hf : f = k0
    · subst hf
      simp only [if_true, Option.bind_some]
      cases hg : r0.get with
      | none =>
        simp only
        exact NMap.get_eq_none_of_LB (liveFields_LB hlb) (Nat.le_refl _)
      | some v => simp [NMap.get]
    · simp only [hf, if_false]
      cases hg : r0.get with
      | none => simp only; exact ih hw'
      | some v => simp only [NMap.get, hf, if_false]; exact ih hw'

theorem liveFields_insert_set {h : NMap Lww} (hw : NMap.WF h) (f : Nat) (v : Bytes) (c : Stamp) :
    liveFields (NMap.insert f (Lww.set v c) h) = NMap.insert f v (liveFields h) := by
  apply NMap.ext (wf_liveFields (NMap.wf_insert hw)) (NMap.wf_insert (wf_liveFields hw))
  intro f'
  rw [get_liveFields (NMap.wf_insert hw), NMap.get_insert, NMap.get_insert, get_liveFields hw]
  by_cases hf : f' = f
  · simp [hf, Lww.set, Lww.get]
  · simp [hf]

theorem erase_of_get_none {ν : Type} {m : NMap ν} (hw : NMap.WF m) {k : Nat}
    (h : NMap.get m k = none) : NMap.erase k m = m := by
  apply NMap.ext (NMap.wf_erase hw) hw
  intro k'
  rw [NMap.get_erase hw]
  by_cases hk : k' = k
  · simp [hk, h]
  · simp [hk]

theorem liveFields_insert_delete {h : NMap Lww} (hw : NMap.WF h) (f : Nat) (c : Stamp) :
    liveFields (NMap.insert f (Lww.delete c) h) = NMap.erase f (liveFields h) := by
  apply NMap.ext (wf_liveFields (NMap.wf_insert hw)) (NMap.wf_erase (wf_liveFields hw))
  intro f'
  rw [get_liveFields (NMap.wf_insert hw), NMap.get_insert, NMap.get_erase (wf_liveFields hw),
    get_liveFields hw]
  by_cases hf : f' = f
  · simp [hf, Lww.delete, Lww.get]
  · simp [hf]

theorem liveFields_mapVal_delete (h : NMap Lww) (c : Stamp) :
    liveFields (NMap.mapVal (fun _ => Lww.delete c) h) = [] := by
  induction h with
  | nil => rfl
  | cons p h ih =>
    simp only [NMap.mapVal, List.map_cons] at ih ⊢
    rw [liveFields_cons]
    simp only [Lww.delete, Lww.get, if_true]
    exact ih

/-! ### the executor's hash primitives -/

theorem hsetAll_fst_cons (h : MHash) (f : Nat) (v : BS) (fvs : List (Nat × BS)) :
    (hsetAll h ((f, v) :: fvs)).1 = (hsetAll (NMap.insert f v h) fvs).1 := by
  simp only [hsetAll]
  split <;> rfl

theorem hdelAll_fst_cons (h : MHash) (f : Nat) (fs : List Nat) :
    (hdelAll h (f :: fs)).1 =
      if (NMap.get h f).isSome then (hdelAll (NMap.erase f h) fs).1 else (hdelAll h fs).1 := by
  simp only [hdelAll]
  split <;> rfl

theorem hsetAll_ne_nil (h : MHash) {fvs : List (Nat × BS)} (hne : fvs ≠ []) :
    (hsetAll h fvs).1 ≠ [] := by
  induction fvs generalizing h with
  | nil => exact absurd rfl hne
  | cons p fvs ih =>
    obtain ⟨f, v⟩ := p
    rw [hsetAll_fst_cons]
    cases fvs with
    | nil =>
      simp only [hsetAll]
      intro hnil
      have := NMap.get_insert (k := f) (v := v) (m := h) f
      rw [hnil] at this
      simp [NMap.get] at this
    | cons q fvs => exact ih _ (by simp)

/-- the replication state's hash after `record_hash_write` shows the same live fields as the
    executor's hash after HSET -/
theorem liveFields_hashSet (fs : List (Nat × Bytes)) (c : Stamp) (h : NMap Lww) (hw : NMap.WF h) :
    liveFields (fs.foldl Shard.hashSetStep (c, h)).2 = (hsetAll (liveFields h) fs).1 := by
  induction fs generalizing c h with
  | nil => rfl
  | cons p fs ih =>
    obtain ⟨f, v⟩ := p
    simp only [List.foldl_cons, Shard.hashSetStep]
    rw [ih _ _ (NMap.wf_insert hw), hsetAll_fst_cons, liveFields_insert_set hw]

/-- … and after `record_hash_delete` / HDEL -/
theorem liveFields_hashDel (fs : List Nat) (c : Stamp) (h : NMap Lww) (hw : NMap.WF h) :
    liveFields (fs.foldl Shard.hashDelStep (c, h)).2 = (hdelAll (liveFields h) fs).1 := by
  induction fs generalizing c h with
  | nil => rfl
  | cons f fs ih =>
    simp only [List.foldl_cons]
    rw [hdelAll_fst_cons]
    cases hg : NMap.get h f with
    | none =>
      have : Shard.hashDelStep (c, h) f = (c, h) := by simp [Shard.hashDelStep, hg]
      rw [this, ih c h hw]
      have : NMap.get (liveFields h) f = none := by rw [get_liveFields hw, hg]; rfl
      simp [this]
    | some r =>
      have : Shard.hashDelStep (c, h) f = (c.tick, NMap.insert f (Lww.delete c.tick) h) := by
        simp [Shard.hashDelStep, hg]
      rw [this, ih _ _ (NMap.wf_insert hw), liveFields_insert_delete hw]
      split
      · rfl
      · rename_i hns
        have hn : NMap.get (liveFields h) f = none := by
          cases hx : NMap.get (liveFields h) f with
          | none => rfl
          | some _ => simp [hx] at hns
        rw [erase_of_get_none (wf_liveFields hw) hn]

/-! ### entry-level form of `materialise`; dead-entry freedom -/

/-- `materialise` as an executor entry (value, deadline) at instant 0 -/
def matE : Option RV → Option Entry
  | none => none
  | some rv =>
    match rv.crdt with
    | .lww r => r.get.map (fun v => { val := .str v, dl := rv.expiry })
    | .hash h =>
      (match liveFields h with
       | [] => none
       | p :: l => some { val := .hash (p :: l), dl := none })
    | _ => none

theorem toV_zero (e : Entry) : toV 0 e = { val := e.val, ttl := e.dl } := by
  simp only [toV, Nat.sub_zero]
  cases e.dl <;> rfl

theorem materialise_eq (o : Option RV) : materialise o = (matE o).map (toV 0) := by
  cases o with
  | none => rfl
  | some rv =>
    obtain ⟨crdt, vc, expiry, ts, rf⟩ := rv
    cases crdt with
    | lww r =>
      simp only [materialise, matE]
      cases r.get <;> simp [toV_zero]
    | hash h =>
      simp only [materialise, matE]
      cases liveFields h <;> simp [toV_zero]
    | gcounter c => rfl
    | pncounter p n => rfl
    | gset s => rfl
    | orset e n => rfl

/-- no entry is dead at instant 0 (then `purge · 0` is the identity) -/
def NoDead (s : State) : Prop := ∀ p ∈ s, live 0 p.2 = true

theorem purge_of_nodead {s : State} (h : NoDead s) : purge s 0 = s := by
  simp only [purge]
  exact List.filter_eq_self.mpr (fun p hp => h p hp)

theorem nodead_purge (s : State) : NoDead (purge s 0) := fun _ hp => (mem_purge.mp hp).2

theorem nodead_insert {s : State} {k : Nat} {e : Entry} (h : NoDead s) (hl : live 0 e = true) :
    NoDead (NMap.insert k e s) := by
  intro p hp
  rcases Redis.mem_insert hp with hp | hp
  · subst hp; exact hl
  · exact h p hp

theorem nodead_erase {s : State} {k : Nat} (h : NoDead s) : NoDead (NMap.erase k s) :=
  fun p hp => h p (Redis.mem_erase hp)

theorem nodead_get {s : State} {k : Nat} {e : Entry} (h : NoDead s) (hg : NMap.get s k = some e) :
    live 0 e = true := h _ (Redis.get_mem hg)

theorem live_none (v : Value) : live 0 { val := v, dl := none } = true := rfl

/-- the executor's keyspace against the replication state's keys, entry by entry -/
def SrvK (s : State) (keys : NMap RV) : Prop := ∀ k, NMap.get s k = matE (NMap.get keys k)

theorem srvk_insert {s : State} {keys : NMap RV} {k : Nat} {rv : RV} {e : Entry}
    (h : SrvK s keys) (he : matE (some rv) = some e) :
    SrvK (NMap.insert k e s) (NMap.insert k rv keys) := by
  intro k'
  rw [NMap.get_insert, NMap.get_insert]
  by_cases hk : k' = k
  · simp [hk, he]
  · simp only [hk, if_false]; exact h k'

theorem srvk_erase {s : State} {keys : NMap RV} {k : Nat} {rv : RV} (hw : NMap.WF s)
    (h : SrvK s keys) (he : matE (some rv) = none) :
    SrvK (NMap.erase k s) (NMap.insert k rv keys) := by
  intro k'
  rw [NMap.get_erase hw, NMap.get_insert]
  by_cases hk : k' = k
  · simp [hk, he]
  · simp only [hk, if_false]; exact h k'

theorem srvk_same {s : State} {keys : NMap RV} {k : Nat} {rv : RV}
    (h : SrvK s keys) (he : matE (some rv) = NMap.get s k) :
    SrvK s (NMap.insert k rv keys) := by
  intro k'
  rw [NMap.get_insert]
  by_cases hk : k' = k
  · simp [hk, he]
  · simp only [hk, if_false]; exact h k'

/-! ### the replication state's local operations against the executor -/

theorem matE_write (rs : Shard) (k : Nat) (b : Bytes) (dl : Option Nat) :
    matE (some (rs.recordWrite k b dl).2) = some { val := .str b, dl := dl } := by
  simp [Shard.recordWrite, matE, Lww.set, Lww.get]

theorem keys_write (rs : Shard) (k : Nat) (b : Bytes) (dl : Option Nat) :
    (rs.recordWrite k b dl).1.keys = NMap.insert k (rs.recordWrite k b dl).2 rs.keys := rfl

theorem srv_write {s : State} {rs : Shard} (k : Nat) (b : Bytes) (dl : Option Nat)
    (h : SrvK s rs.keys) :
    SrvK (NMap.insert k { val := .str b, dl := dl } s) (rs.recordWrite k b dl).1.keys := by
  rw [keys_write]
  exact srvk_insert h (matE_write rs k b dl)

theorem nodewf_write {rs : Shard} (k : Nat) (b : Bytes) (dl : Option Nat) (h : rs.NodeWF) :
    (rs.recordWrite k b dl).1.NodeWF := Shard.nodewf_step rs (.write k b dl) h

theorem nodewf_delete {rs : Shard} (k : Nat) (h : rs.NodeWF) : (rs.recordDelete k).1.NodeWF :=
  Shard.nodewf_step rs (.delete k) h

theorem nodewf_hwrite {rs : Shard} (k : Nat) (fs : List (Nat × Bytes)) (h : rs.NodeWF) :
    (rs.recordHashWrite k fs).1.NodeWF := Shard.nodewf_step rs (.hwrite k fs) h

theorem nodewf_hdelete {rs : Shard} (k : Nat) (fs : List Nat) (h : rs.NodeWF) :
    (rs.recordHashDelete k fs).1.NodeWF := Shard.nodewf_step rs (.hdelete k fs) h

/-- `record_delete` makes the replication state say "absent" for the key -/
theorem matE_delete (rs : Shard) (k : Nat) :
    matE (NMap.get (rs.recordDelete k).1.keys k) = none := by
  simp only [Shard.recordDelete]
  cases hg : NMap.get rs.keys k with
  | none => simp [hg, matE]
  | some rv =>
    simp only
    cases hc : rv.crdt with
    | lww r => simp [NMap.get_insert, matE, Lww.delete, Lww.get]
    | hash h => simp [NMap.get_insert, matE, liveFields_mapVal_delete]
    | gcounter c => simp [hg, matE, hc]
    | pncounter p n => simp [hg, matE, hc]
    | gset s => simp [hg, matE, hc]
    | orset e n => simp [hg, matE, hc]

theorem keys_delete_other (rs : Shard) (k k' : Nat) (hk : k' ≠ k) :
    NMap.get (rs.recordDelete k).1.keys k' = NMap.get rs.keys k' :=
  Shard.keys_step_other rs (.delete k) k' hk

/-- one key of DEL: the executor erases it, the replication state tombstones it -/
theorem srv_delete {s : State} {rs : Shard} (k : Nat) (hw : NMap.WF s) (h : SrvK s rs.keys) :
    SrvK (NMap.erase k s) (rs.recordDelete k).1.keys := by
  intro k'
  rw [NMap.get_erase hw]
  by_cases hk : k' = k
  · subst hk; simp [matE_delete]
  · simp only [hk, if_false]; rw [keys_delete_other rs k k' hk]; exact h k'

/-! ### hashes -/

/-- the hash `record_hash_write` starts from -/
def rsHash (rs : Shard) (k : Nat) : NMap Lww :=
  ((NMap.get rs.keys k).getD { RV.new rs.rid with crdt := .hash [] }).crdt.hashOf

theorem wf_rsHash {rs : Shard} (hW : rs.NodeWF) (k : Nat) : NMap.WF (rsHash rs k) := by
  unfold rsHash
  cases hg : NMap.get rs.keys k with
  | none => exact NMap.wf_nil
  | some rv => exact Shard.hashOf_wf (hW.2 _ (NMap.mem_of_get hg)).1

/-- how the executor's view of a key as a hash relates to the replication state -/
theorem hash_view {s : State} {rs : Shard} (h : SrvK s rs.keys) (k : Nat) :
    (lookupHash s k = .missing ∧ NMap.get s k = none ∧ liveFields (rsHash rs k) = []) ∨
    (∃ hh, lookupHash s k = .found hh none ∧ NMap.get s k = some { val := .hash hh, dl := none } ∧
        liveFields (rsHash rs k) = hh ∧ hh ≠ []) ∨
    (lookupHash s k = .wrong) := by
  have hk := h k
  unfold rsHash
  cases hg : NMap.get s k with
  | none =>
    left
    refine ⟨by simp [lookupHash, hg], rfl, ?_⟩
    rw [hg] at hk
    cases hr : NMap.get rs.keys k with
    | none => rfl
    | some rv =>
      rw [hr] at hk
      obtain ⟨crdt, vc, expiry, ts, rf⟩ := rv
      cases crdt with
      | hash hm =>
        simp only [matE] at hk
        simp only [Option.getD_some, Crdt.hashOf]
        cases hl : liveFields hm with
        | nil => rfl
        | cons p l => rw [hl] at hk; cases hk
      | lww r => rfl
      | gcounter c => rfl
      | pncounter p n => rfl
      | gset s => rfl
      | orset e n => rfl
  | some e =>
    obtain ⟨val, dl⟩ := e
    rw [hg] at hk
    cases val with
    | hash hh =>
      right; left
      cases hr : NMap.get rs.keys k with
      | none => rw [hr] at hk; cases hk
      | some rv =>
        rw [hr] at hk
        obtain ⟨crdt, vc, expiry, ts, rf⟩ := rv
        cases crdt with
        | hash hm =>
          simp only [matE] at hk
          cases hl : liveFields hm with
          | nil => rw [hl] at hk; cases hk
          | cons p l =>
            rw [hl] at hk
            simp only [Option.some.injEq, Entry.mk.injEq, Value.hash.injEq] at hk
            obtain ⟨hv, hd⟩ := hk
            subst hv; subst hd
            exact ⟨p :: l, by simp [lookupHash, hg], rfl, by simp [Crdt.hashOf, hl], by simp⟩
        | lww r =>
          simp only [matE] at hk
          cases hrg : r.get <;> simp [hrg] at hk
        | gcounter c => cases hk
        | pncounter p n => cases hk
        | gset s => cases hk
        | orset e n => cases hk
    | str b => right; right; simp [lookupHash, hg]
    | list l => right; right; simp [lookupHash, hg]
    | set m => right; right; simp [lookupHash, hg]
    | zset z => right; right; simp [lookupHash, hg]

theorem putHash_cons (s : State) (k : Nat) (p : Nat × BS) (l : MHash) (dl : Option Nat) :
    putHash s k (p :: l) dl = NMap.insert k { val := .hash (p :: l), dl := dl } s := rfl

theorem putHash_of_ne_nil (s : State) (k : Nat) {h : MHash} (hne : h ≠ []) (dl : Option Nat) :
    putHash s k h dl = NMap.insert k { val := .hash h, dl := dl } s := by
  cases h with
  | nil => exact absurd rfl hne
  | cons p l => rfl

theorem matE_hash_of_ne_nil (rv : RV) (hm : NMap Lww) (hc : rv.crdt = .hash hm)
    (hne : liveFields hm ≠ []) :
    matE (some rv) = some { val := .hash (liveFields hm), dl := none } := by
  simp only [matE, hc]
  cases hl : liveFields hm with
  | nil => exact absurd hl hne
  | cons p l => rfl

theorem matE_hash_of_nil (rv : RV) (hm : NMap Lww) (hc : rv.crdt = .hash hm)
    (hnil : liveFields hm = []) : matE (some rv) = none := by
  simp only [matE, hc, hnil]

theorem keys_hwrite (rs : Shard) (k : Nat) (fs : List (Nat × Bytes)) :
    (rs.recordHashWrite k fs).1.keys = NMap.insert k (rs.recordHashWrite k fs).2 rs.keys := rfl

theorem crdt_hwrite (rs : Shard) (k : Nat) (fs : List (Nat × Bytes)) :
    (rs.recordHashWrite k fs).2.crdt =
      .hash (fs.foldl Shard.hashSetStep (rs.clock, rsHash rs k)).2 := rfl

/-- the executor stores `hsetAll hx fvs` under `k` (no deadline) where `hx` are the live fields
    of the replication state's hash: the two sides agree after `record_hash_write` -/
theorem srv_hwrite {s : State} {rs : Shard} (k : Nat) (fvs : List (Nat × Bytes))
    (hW : rs.NodeWF) (h : SrvK s rs.keys) (hne : fvs ≠ []) :
    SrvK (NMap.insert k { val := .hash (hsetAll (liveFields (rsHash rs k)) fvs).1, dl := none } s)
      (rs.recordHashWrite k fvs).1.keys := by
  rw [keys_hwrite]
  apply srvk_insert h
  have hl := liveFields_hashSet fvs rs.clock (rsHash rs k) (wf_rsHash hW k)
  rw [matE_hash_of_ne_nil _ _ (crdt_hwrite rs k fvs) (by rw [hl]; exact hsetAll_ne_nil _ hne), hl]

/-! ### one lemma per recorded command -/

theorem applied_err (c : Cmd) (e : Err) : applied c (.err e) = false := by
  simp [applied, Reply.isError]

theorem set_cases (s : State) (k : Nat) (v : BS) (cond : SetCond) (e : SetExp) (g : Bool) :
    (applied (.set k v cond e g) (execSet s 0 k v cond e g).2 = false ∧
      (execSet s 0 k v cond e g).1 = s) ∨
    (applied (.set k v cond e g) (execSet s 0 k v cond e g).2 = true ∧ setPlan 0 e ≠ .invalid ∧
      (execSet s 0 k v cond e g).1 =
        NMap.insert k { val := .str v, dl := planDl (setPlan 0 e) (oldDl s k) } s) := by
  unfold execSet
  by_cases hp : setPlan 0 e = .invalid
  · left; simp [hp, applied_err]
  · simp only [hp, if_false]
    unfold setCore
    cases hg : NMap.get s k with
    | none =>
      have hw : wrongStr s k = false := by simp [wrongStr, lookupStr, hg]
      have ho : oldStrReply s k = .nil := by simp [oldStrReply, lookupStr, hg]
      cases cond <;> cases g <;> simp [hw, ho, applied, Reply.isError, Reply.ok, hp]
    | some en =>
      obtain ⟨val, dl⟩ := en
      cases val with
      | str b =>
        have hw : wrongStr s k = false := by simp [wrongStr, lookupStr, hg]
        have ho : oldStrReply s k = .bulk b := by simp [oldStrReply, lookupStr, hg]
        cases cond <;> cases g <;> simp [hw, ho, applied, Reply.isError, Reply.ok, hp]
      | _ =>
        have hw : wrongStr s k = true := by simp [wrongStr, lookupStr, hg]
        have ho : oldStrReply s k = .nil := by simp [oldStrReply, lookupStr, hg]
        cases cond <;> cases g <;> simp [hw, ho, hg, applied, Reply.isError, Reply.ok, hp]

theorem ttlMs_insert (s : State) (k : Nat) (e : Entry) : ttlMs (NMap.insert k e s) k = e.dl := by
  simp [ttlMs, oldDl, NMap.get_insert]

/-- a deadline computed by `getExpireMillisecondsOrReply` at instant 0 is positive -/
theorem plan_pos (unitSec relative : Bool) (v : Int) (old : Option Nat) :
    ∀ d, planDl (planOfOpt (absDeadline 0 unitSec relative v)) old = some d → 0 < d := by
  intro d hpd
  cases hd : absDeadline 0 unitSec relative v with
  | none => rw [hd] at hpd; simp [planOfOpt, planDl] at hpd
  | some d0 =>
    rw [hd] at hpd
    simp only [planOfOpt, planDl, Option.some.injEq] at hpd
    subst hpd
    unfold absDeadline at hd
    by_cases h1 : v ≤ 0
    · simp [h1] at hd
    · simp only [h1, if_false] at hd
      by_cases h2 : (unitSec && decide (v > i64MaxDiv1000)) = true
      · simp [h2] at hd
      · simp only [h2, if_false, Int.natCast_zero, Int.add_zero, ite_self] at hd
        by_cases h3 : (if unitSec = true then v * 1000 else v) > i64Max
        · simp [h3] at hd
        · simp [h3] at hd
          subst hd
          cases unitSec <;> simp <;> omega

theorem setplan_pos (e : SetExp) (old : Option Nat) (hold : ∀ d, old = some d → 0 < d) :
    ∀ d, planDl (setPlan 0 e) old = some d → 0 < d := by
  cases e with
  | none => intro d hd; simp [setPlan, planDl] at hd
  | keepttl => intro d hd; simp only [setPlan, planDl] at hd; exact hold d hd
  | ex v => exact plan_pos true true v old
  | px v => exact plan_pos false true v old
  | exat v => exact plan_pos true false v old
  | pxat v => exact plan_pos false false v old

/-- the node invariant on a dead-entry-free executor state -/
structure Ok (s : State) (rs : Shard) : Prop where
  inv : Inv s
  nodead : NoDead s
  wf : rs.NodeWF
  srv : SrvK s rs.keys

/-- the replication state after the Execute arm (gate, then recorder) -/
def clientRs (rs : Shard) (s : State) (c : Cmd) : Shard :=
  if applied c (exec s 0 c).2 then (record rs (exec s 0 c).1 c).1 else rs

theorem live_some_iff (v : Value) (d : Nat) : live 0 { val := v, dl := some d } = true ↔ 0 < d := by
  simp [live]

theorem oldDl_pos {s : State} (hN : NoDead s) (k : Nat) : ∀ d, oldDl s k = some d → 0 < d := by
  intro d hd
  unfold oldDl at hd
  cases hg : NMap.get s k with
  | none => simp [hg] at hd
  | some e =>
    simp only [hg] at hd
    have := nodead_get hN hg
    obtain ⟨val, dl⟩ := e
    simp only at hd
    subst hd
    exact (live_some_iff val d).mp this

theorem live_of_pos (v : Value) (dl : Option Nat) (h : ∀ d, dl = some d → 0 < d) :
    live 0 { val := v, dl := dl } = true := by
  cases dl with
  | none => rfl
  | some d => exact (live_some_iff v d).mpr (h d rfl)

/-- SET with any option: the recorder replicates the deadline the executor holds afterwards -/
theorem ok_set {s : State} {rs : Shard} (h : Ok s rs) (k : Nat) (v : BS) (cond : SetCond)
    (e : SetExp) (g : Bool) :
    Ok (exec s 0 (.set k v cond e g)).1 (clientRs rs s (.set k v cond e g)) := by
  refine ⟨inv_exec h.inv 0 _, ?_, ?_, ?_⟩ <;> simp only [clientRs, exec] <;>
    rcases set_cases s k v cond e g with ⟨ha, hs⟩ | ⟨ha, hp, hs⟩
  · rw [hs]; exact h.nodead
  · rw [hs]
    exact nodead_insert h.nodead (live_of_pos _ _ (setplan_pos e _ (oldDl_pos h.nodead k)))
  · simp only [ha]; exact h.wf
  · have hrec : (record rs (execSet s 0 k v cond e g).1 (.set k v cond e g)).1 =
        (rs.recordWrite k v (planDl (setPlan 0 e) (oldDl s k))).1 := by
      rw [hs]
      cases cond <;> simp [record, writeDelta, strAt, ttlMs_insert, NMap.get_insert]
    simp only [ha, if_true, hrec]
    exact nodewf_write k v _ h.wf
  · simp only [ha]; rw [hs]; exact h.srv
  · have hrec : (record rs (execSet s 0 k v cond e g).1 (.set k v cond e g)).1 =
        (rs.recordWrite k v (planDl (setPlan 0 e) (oldDl s k))).1 := by
      rw [hs]
      cases cond <;> simp [record, writeDelta, strAt, ttlMs_insert, NMap.get_insert]
    simp only [ha, if_true, hrec]
    rw [hs]
    exact srv_write k v _ h.srv

/-! ### INCR / DECR / INCRBY / DECRBY / APPEND / GETSET -/

theorem ok_strmod {s : State} {rs : Shard} (h : Ok s rs) (c : Cmd) (k : Nat)
    (happ : ∀ r, applied c r = !r.isError)
    (hrec : ∀ post, record rs post c =
      (match strAt post k with
       | some b => writeDelta rs k b (ttlMs post k)
       | none => (rs, none)))
    (hshape : ((exec s 0 c).2.isError = true ∧ (exec s 0 c).1 = s) ∨
      ((exec s 0 c).2.isError = false ∧
        ∃ b dl, (exec s 0 c).1 = NMap.insert k { val := .str b, dl := dl } s ∧
          ∀ d, dl = some d → 0 < d)) :
    Ok (exec s 0 c).1 (clientRs rs s c) := by
  rcases hshape with ⟨he, hs⟩ | ⟨he, b, dl, hs, hpos⟩
  · have : clientRs rs s c = rs := by simp [clientRs, happ, he]
    rw [this, hs]; exact h
  · have hst : strAt (exec s 0 c).1 k = some b := by rw [hs]; simp [strAt, NMap.get_insert]
    have htt : ttlMs (exec s 0 c).1 k = dl := by rw [hs]; exact ttlMs_insert ..
    have : clientRs rs s c = (rs.recordWrite k b dl).1 := by
      simp [clientRs, happ, he, hrec, hst, htt, writeDelta]
    rw [this]
    refine ⟨inv_exec h.inv 0 c, ?_, nodewf_write k b dl h.wf, ?_⟩
    · rw [hs]; exact nodead_insert h.nodead (live_of_pos _ _ hpos)
    · rw [hs]; exact srv_write k b dl h.srv

theorem incrBy_shape {s : State} (hN : NoDead s) (k : Nat) (d : Int) :
    ((execIncrBy s k d).2.isError = true ∧ (execIncrBy s k d).1 = s) ∨
    ((execIncrBy s k d).2.isError = false ∧
      ∃ b dl, (execIncrBy s k d).1 = NMap.insert k { val := .str b, dl := dl } s ∧
        ∀ x, dl = some x → 0 < x) := by
  unfold execIncrBy
  cases hg : NMap.get s k with
  | none =>
    right; simp only [lookupStr, hg]
    exact ⟨by simp [Reply.isError], _, none, rfl, fun _ hx => by cases hx⟩
  | some e =>
    obtain ⟨val, dl⟩ := e
    have hpos : ∀ x, dl = some x → 0 < x := fun x hx => by
      subst hx; exact (live_some_iff val x).mp (nodead_get hN hg)
    cases val with
    | str b =>
      simp only [lookupStr, hg]
      cases parseCanon b with
      | none => left; simp [Reply.isError]
      | some v =>
        simp only
        split
        · right; exact ⟨by simp [Reply.isError], _, dl, rfl, hpos⟩
        · left; simp [Reply.isError]
    | _ => left; simp [lookupStr, hg, Reply.isError]

theorem decrBy_shape {s : State} (hN : NoDead s) (k : Nat) (d : Int) :
    ((execDecrBy s k d).2.isError = true ∧ (execDecrBy s k d).1 = s) ∨
    ((execDecrBy s k d).2.isError = false ∧
      ∃ b dl, (execDecrBy s k d).1 = NMap.insert k { val := .str b, dl := dl } s ∧
        ∀ x, dl = some x → 0 < x) := by
  unfold execDecrBy
  split
  · left; simp [Reply.isError]
  · exact incrBy_shape hN k (-d)

theorem append_shape {s : State} (hN : NoDead s) (k : Nat) (v : BS) :
    ((execAppend s k v).2.isError = true ∧ (execAppend s k v).1 = s) ∨
    ((execAppend s k v).2.isError = false ∧
      ∃ b dl, (execAppend s k v).1 = NMap.insert k { val := .str b, dl := dl } s ∧
        ∀ x, dl = some x → 0 < x) := by
  unfold execAppend
  cases hg : NMap.get s k with
  | none =>
    right; simp only [lookupStr, hg]
    exact ⟨by simp [Reply.isError], _, none, rfl, fun _ hx => by cases hx⟩
  | some e =>
    obtain ⟨val, dl⟩ := e
    have hpos : ∀ x, dl = some x → 0 < x := fun x hx => by
      subst hx; exact (live_some_iff val x).mp (nodead_get hN hg)
    cases val with
    | str b => right; simp only [lookupStr, hg]; exact ⟨by simp [Reply.isError], _, dl, rfl, hpos⟩
    | _ => left; simp [lookupStr, hg, Reply.isError]

theorem getset_shape (s : State) (k : Nat) (v : BS) :
    ((execGetSet s k v).2.isError = true ∧ (execGetSet s k v).1 = s) ∨
    ((execGetSet s k v).2.isError = false ∧
      ∃ b dl, (execGetSet s k v).1 = NMap.insert k { val := .str b, dl := dl } s ∧
        ∀ x, dl = some x → 0 < x) := by
  unfold execGetSet
  cases hg : NMap.get s k with
  | none =>
    right; simp only [lookupStr, hg]
    exact ⟨by simp [Reply.isError], _, none, rfl, fun _ hx => by cases hx⟩
  | some e =>
    obtain ⟨val, dl⟩ := e
    cases val with
    | str b =>
      right; simp only [lookupStr, hg]
      exact ⟨by simp [Reply.isError], _, none, rfl, fun _ hx => by cases hx⟩
    | _ => left; simp [lookupStr, hg, Reply.isError]

theorem ok_incr {s : State} {rs : Shard} (h : Ok s rs) (k : Nat) :
    Ok (exec s 0 (.incr k)).1 (clientRs rs s (.incr k)) :=
  ok_strmod h (.incr k) k (fun r => by cases hr : r.isError <;> simp [applied, hr]) (fun _ => rfl) (incrBy_shape h.nodead k 1)

theorem ok_decr {s : State} {rs : Shard} (h : Ok s rs) (k : Nat) :
    Ok (exec s 0 (.decr k)).1 (clientRs rs s (.decr k)) :=
  ok_strmod h (.decr k) k (fun r => by cases hr : r.isError <;> simp [applied, hr]) (fun _ => rfl) (incrBy_shape h.nodead k (-1))

theorem ok_incrby {s : State} {rs : Shard} (h : Ok s rs) (k : Nat) (d : Int) :
    Ok (exec s 0 (.incrby k d)).1 (clientRs rs s (.incrby k d)) :=
  ok_strmod h (.incrby k d) k (fun r => by cases hr : r.isError <;> simp [applied, hr]) (fun _ => rfl) (incrBy_shape h.nodead k d)

theorem ok_decrby {s : State} {rs : Shard} (h : Ok s rs) (k : Nat) (d : Int) :
    Ok (exec s 0 (.decrby k d)).1 (clientRs rs s (.decrby k d)) :=
  ok_strmod h (.decrby k d) k (fun r => by cases hr : r.isError <;> simp [applied, hr]) (fun _ => rfl) (decrBy_shape h.nodead k d)

theorem ok_append {s : State} {rs : Shard} (h : Ok s rs) (k : Nat) (v : BS) :
    Ok (exec s 0 (.append k v)).1 (clientRs rs s (.append k v)) :=
  ok_strmod h (.append k v) k (fun r => by cases hr : r.isError <;> simp [applied, hr]) (fun _ => rfl) (append_shape h.nodead k v)

theorem ok_getset {s : State} {rs : Shard} (h : Ok s rs) (k : Nat) (v : BS) :
    Ok (exec s 0 (.getset k v)).1 (clientRs rs s (.getset k v)) :=
  ok_strmod h (.getset k v) k (fun r => by cases hr : r.isError <;> simp [applied, hr]) (fun _ => rfl) (getset_shape s k v)

/-! ### DEL -/

theorem delKeys_fst_cons (s : State) (k : Nat) (ks : List Nat) :
    (delKeys s (k :: ks)).1 = (delKeys (NMap.erase k s) ks).1 ∨
    (NMap.get s k = none ∧ (delKeys s (k :: ks)).1 = (delKeys s ks).1) := by
  simp only [delKeys]
  cases hg : NMap.get s k with
  | none => right; exact ⟨rfl, rfl⟩
  | some e => left; rfl

theorem ok_delKeys (ks : List Nat) : ∀ (s : State) (rs : Shard) (d : Option Delta),
    Ok s rs → Ok (delKeys s ks).1 (ks.foldl delStep (rs, d)).1 := by
  induction ks with
  | nil => intro s rs d h; exact h
  | cons k ks ih =>
    intro s rs d h
    simp only [List.foldl_cons, delStep]
    have hstep : Ok (NMap.erase k s) (rs.recordDelete k).1 :=
      ⟨inv_erase h.inv, nodead_erase h.nodead, nodewf_delete k h.wf, srv_delete k h.inv.1 h.srv⟩
    rcases delKeys_fst_cons s k ks with he | ⟨hg, he⟩
    · rw [he]; exact ih _ _ _ hstep
    · rw [he]
      have : NMap.erase k s = s := erase_of_get_none h.inv.1 hg
      rw [this] at hstep
      exact ih _ _ _ hstep

theorem ok_del {s : State} {rs : Shard} (h : Ok s rs) (ks : List Nat) :
    Ok (exec s 0 (.del ks)).1 (clientRs rs s (.del ks)) := by
  have : clientRs rs s (.del ks) = (ks.foldl delStep (rs, none)).1 := by
    simp [clientRs, applied, exec, execDel, Reply.isError, record]
  rw [this]
  exact ok_delKeys ks s rs none h

/-! ### HSET / HINCRBY / HDEL -/

theorem ok_hset {s : State} {rs : Shard} (h : Ok s rs) (k : Nat) (fvs : List (Nat × BS)) :
    Ok (exec s 0 (.hset k fvs)).1 (clientRs rs s (.hset k fvs)) := by
  have happ : ∀ r, applied (.hset k fvs) r = !r.isError :=
    fun r => by cases hr : r.isError <;> simp [applied, hr]
  cases fvs with
  | nil =>
    have : clientRs rs s (.hset k []) = rs := by simp [clientRs, happ, exec, execHSet, Reply.isError]
    rw [this]; exact h
  | cons p l =>
    simp only [clientRs, happ, exec, execHSet]
    rcases hash_view h.srv k with ⟨hl, hg, hlive⟩ | ⟨hh, hl, hg, hlive, hne⟩ | hl
    · simp only [hl, Reply.isError, Bool.not_false, if_true, record]
      have hne : (hsetAll [] (p :: l)).1 ≠ [] := hsetAll_ne_nil _ (by simp)
      rw [putHash_of_ne_nil _ _ hne]
      refine ⟨?_, nodead_insert h.nodead (live_none _), nodewf_hwrite k _ h.wf, ?_⟩
      · rw [← putHash_of_ne_nil _ _ hne]
        exact inv_putHash h.inv k (wf_hsetAll NMap.wf_nil _) none
      · have := srv_hwrite k (p :: l) h.wf h.srv (by simp)
        rw [hlive] at this
        exact this
    · simp only [hl, Reply.isError, Bool.not_false, if_true, record]
      have hne' : (hsetAll hh (p :: l)).1 ≠ [] := hsetAll_ne_nil _ (by simp)
      rw [putHash_of_ne_nil _ _ hne']
      have hwf : NMap.WF hh := by rw [← hlive]; exact wf_liveFields (wf_rsHash h.wf k)
      refine ⟨?_, nodead_insert h.nodead (live_none _), nodewf_hwrite k _ h.wf, ?_⟩
      · rw [← putHash_of_ne_nil _ _ hne']
        exact inv_putHash h.inv k (wf_hsetAll hwf _) none
      · have := srv_hwrite k (p :: l) h.wf h.srv (by simp)
        rw [hlive] at this
        exact this
    · simp only [hl, Reply.isError, Bool.not_true]
      exact h

theorem nmap_insert_ne_nil {ν : Type} (k : Nat) (v : ν) (m : NMap ν) : NMap.insert k v m ≠ [] := by
  intro hnil
  have := NMap.get_insert (k := k) (v := v) (m := m) k
  rw [hnil] at this
  simp [NMap.get] at this

theorem hsetAll_single (h : MHash) (f : Nat) (v : BS) : (hsetAll h [(f, v)]).1 = NMap.insert f v h := by
  rw [hsetAll_fst_cons]; rfl

theorem hdelAll_nil (fs : List Nat) : (hdelAll [] fs).1 = [] := by
  induction fs with
  | nil => rfl
  | cons f fs ih => rw [hdelAll_fst_cons]; simp [NMap.get, ih]

/-- HINCRBY that succeeds: the field's new value is written on both sides -/
theorem ok_hincr_write {s : State} {rs : Shard} (h : Ok s rs) (k f : Nat) (nv : BS) (hx : MHash)
    (hlive : liveFields (rsHash rs k) = hx) :
    Ok (NMap.insert k { val := .hash (NMap.insert f nv hx), dl := none } s)
      (rs.recordHashWrite k [(f, nv)]).1 := by
  have hwf : NMap.WF hx := by rw [← hlive]; exact wf_liveFields (wf_rsHash h.wf k)
  refine ⟨?_, nodead_insert h.nodead (live_none _), nodewf_hwrite k _ h.wf, ?_⟩
  · rw [← putHash_of_ne_nil _ _ (nmap_insert_ne_nil f nv hx)]
    exact inv_putHash h.inv k (NMap.wf_insert hwf) none
  · have := srv_hwrite k [(f, nv)] h.wf h.srv (by simp)
    rw [hlive, hsetAll_single] at this
    exact this

theorem ok_hincrby {s : State} {rs : Shard} (h : Ok s rs) (k f : Nat) (d : Int) :
    Ok (exec s 0 (.hincrby k f d)).1 (clientRs rs s (.hincrby k f d)) := by
  have happ : ∀ r, applied (.hincrby k f d) r = !r.isError :=
    fun r => by cases hr : r.isError <;> simp [applied, hr]
  simp only [clientRs, happ, exec, execHIncrBy]
  rcases hash_view h.srv k with ⟨hl, hg, hlive⟩ | ⟨hh, hl, hg, hlive, hne⟩ | hl
  · simp only [hl, Reply.isError, Bool.not_false, if_true, record]
    rw [putHash_of_ne_nil _ _ (nmap_insert_ne_nil _ _ _)]
    simp only [hashFieldAt, NMap.get_insert, if_true]
    exact ok_hincr_write h k f _ [] hlive
  · simp only [hl]
    cases hfieldInt hh f with
    | none => simp only [Reply.isError, Bool.not_true]; exact h
    | some v =>
      simp only
      split
      · simp only [Reply.isError, Bool.not_false, if_true, record]
        rw [putHash_of_ne_nil _ _ (nmap_insert_ne_nil _ _ _)]
        simp only [hashFieldAt, NMap.get_insert, if_true]
        exact ok_hincr_write h k f _ hh hlive
      · simp only [Reply.isError, Bool.not_true]; exact h
  · simp only [hl, Reply.isError, Bool.not_true]
    exact h

theorem rs_hash_of_live {rs : Shard} {k : Nat} (hne : liveFields (rsHash rs k) ≠ []) :
    ∃ rv hm, NMap.get rs.keys k = some rv ∧ rv.crdt = .hash hm ∧ rsHash rs k = hm := by
  unfold rsHash at hne ⊢
  cases hg : NMap.get rs.keys k with
  | none => simp [hg, Crdt.hashOf, liveFields] at hne
  | some rv =>
    cases hc : rv.crdt with
    | hash hm => exact ⟨rv, hm, rfl, hc, by simp [Crdt.hashOf, hc]⟩
    | _ => simp [hg, Crdt.hashOf, hc, liveFields] at hne

theorem ok_hdel {s : State} {rs : Shard} (h : Ok s rs) (k : Nat) (fs : List Nat) :
    Ok (exec s 0 (.hdel k fs)).1 (clientRs rs s (.hdel k fs)) := by
  have happ : ∀ r, applied (.hdel k fs) r = !r.isError :=
    fun r => by cases hr : r.isError <;> simp [applied, hr]
  refine ⟨inv_exec h.inv 0 _, ?_, ?_, ?_⟩
  · -- NoDead
    simp only [exec, execHDel]
    rcases hash_view h.srv k with ⟨hl, _, _⟩ | ⟨hh, hl, _, _, _⟩ | hl
    · simp only [hl]; exact h.nodead
    · simp only [hl]
      cases hd : (hdelAll hh fs).1 with
      | nil => exact nodead_erase h.nodead
      | cons p l => exact nodead_insert h.nodead (live_none _)
    · simp only [hl]; exact h.nodead
  · -- NodeWF
    simp only [clientRs, happ, record]
    split
    · exact nodewf_hdelete k fs h.wf
    · exact h.wf
  · simp only [clientRs, happ, exec, execHDel]
    rcases hash_view h.srv k with ⟨hl, hg, hlive⟩ | ⟨hh, hl, hg, hlive, hne⟩ | hl
    · simp only [hl, Reply.isError, Bool.not_false, if_true, record]
      cases hr : NMap.get rs.keys k with
      | none => rw [Shard.recordHashDelete_none hr]; exact h.srv
      | some rv =>
        by_cases hc : rv.crdt.kind = 5
        · obtain ⟨hm, hm'⟩ := Shard.kind_hash hc
          rw [Shard.recordHashDelete_hash hr hm']
          simp only
          apply srvk_same h.srv
          rw [hg]
          have hrs : rsHash rs k = hm := by simp [rsHash, hr, hm', Crdt.hashOf]
          have hw : NMap.WF hm := by rw [← hrs]; exact wf_rsHash h.wf k
          apply matE_hash_of_nil _ (fs.foldl Shard.hashDelStep (rs.clock, hm)).2 rfl
          rw [liveFields_hashDel fs rs.clock hm hw, ← hrs, hlive, hdelAll_nil]
        · rw [Shard.recordHashDelete_other hr hc]; exact h.srv
    · simp only [hl, Reply.isError, Bool.not_false, if_true, record]
      obtain ⟨rv, hm, hr, hc, hrs⟩ := rs_hash_of_live (rs := rs) (k := k) (by rw [hlive]; exact hne)
      have hw : NMap.WF hm := by rw [← hrs]; exact wf_rsHash h.wf k
      rw [Shard.recordHashDelete_hash hr hc]
      simp only
      have hlf : liveFields (fs.foldl Shard.hashDelStep (rs.clock, hm)).2 = (hdelAll hh fs).1 := by
        rw [liveFields_hashDel fs rs.clock hm hw, ← hrs, hlive]
      cases hd : (hdelAll hh fs).1 with
      | nil =>
        simp only [putHash]
        exact srvk_erase h.inv.1 h.srv (matE_hash_of_nil _ _ rfl (by rw [hlf, hd]))
      | cons p l =>
        simp only [putHash]
        apply srvk_insert h.srv
        rw [matE_hash_of_ne_nil _ _ rfl (by rw [hlf, hd]; simp), hlf, hd]
    · simp only [hl, Reply.isError, Bool.not_true]
      exact h.srv

/-! ### delivery: `apply_remote_delta_impl` -/

/-- the merged value `apply_remote_delta` stores -/
def mergedVal (rs : Shard) (k : Nat) (d : RV) : RV :=
  match NMap.get rs.keys k with
  | some l => RV.merge l d
  | none => d

theorem keys_remote (rs : Shard) (k : Nat) (d : RV) :
    (rs.applyRemote k d).keys = NMap.insert k (mergedVal rs k d) rs.keys := rfl

theorem get_remote (rs : Shard) (k : Nat) (d : RV) :
    NMap.get (rs.applyRemote k d).keys k = some (mergedVal rs k d) := by
  rw [keys_remote, NMap.get_insert]; simp

theorem execStep_of_nodead {s : State} (hN : NoDead s) (c : Cmd) : execStep s c = exec s 0 c := by
  simp only [execStep, step, purge_of_nodead hN]

theorem exec_setCmd (s : State) (k : Nat) (v : BS) :
    (exec s 0 (setCmd k v)).1 = NMap.insert k { val := .str v, dl := none } s := by
  simp [setCmd, exec, execSet, setPlan, setCore, planDl]

theorem exec_setPx (s : State) (k : Nat) (v : BS) (ms : Nat) (h1 : 1 ≤ ms) (h2 : (ms : Int) ≤ i64Max) :
    (exec s 0 (setPxCmd k v ms)).1 = NMap.insert k { val := .str v, dl := some ms } s := by
  have h0 : ¬ ((ms : Int) ≤ 0) := by omega
  have h3 : ¬ ((ms : Int) > i64Max) := by omega
  have h4 : ¬ (ms = 0) := by omega
  simp [setPxCmd, exec, execSet, setPlan, absDeadline, planOfOpt, setCore, planDl, h3, h4]

theorem exec_del1 {s : State} (hw : NMap.WF s) (k : Nat) :
    (exec s 0 (.del [k])).1 = NMap.erase k s := by
  simp only [exec, execDel, delKeys]
  cases hg : NMap.get s k with
  | none => simp only; exact (erase_of_get_none hw hg).symm
  | some e => rfl

theorem nodewf_remote' {rs : Shard} (k : Nat) (d : RV) (h : rs.NodeWF) (hd : d.WF) :
    (rs.applyRemote k d).NodeWF := Shard.nodewf_remote rs k d h hd

theorem mergedVal_wf {rs : Shard} (k : Nat) (d : RV) (h : rs.NodeWF) (hd : d.WF) :
    (mergedVal rs k d).WF :=
  (nodewf_remote' k d h hd).2 _ (NMap.mem_of_get (get_remote rs k d))

/-- the string / tombstone branch -/
theorem ok_deliver_lww {s : State} {rs : Shard} (h : Ok s rs) (k : Nat) (d : RV) (hd : d.WF) (r : Lww)
    (hc : (mergedVal rs k d).crdt = .lww r) (hp : Lww.proper r = true)
    (hexp : ∀ v ms, r.get = some v → (mergedVal rs k d).expiry = some ms → 1 ≤ ms ∧ (ms : Int) ≤ i64Max) :
    Ok (rematerialise s k (mergedVal rs k d)) (rs.applyRemote k d) := by
  have hget : (mergedVal rs k d).get = r.get := by simp [RV.get, hc]
  simp only [rematerialise, hc, rematLww, hget]
  cases hg : r.get with
  | some v =>
    simp only [rematStr]
    cases he : (mergedVal rs k d).expiry with
    | none =>
      simp only
      rw [execStep_of_nodead h.nodead, exec_setCmd]
      refine ⟨inv_insert h.inv (valueOk_str v), nodead_insert h.nodead (live_none _),
        nodewf_remote' k d h.wf hd, ?_⟩
      rw [keys_remote]
      apply srvk_insert h.srv
      simp [matE, hc, hg, he]
    | some ms =>
      simp only
      obtain ⟨h1, h2⟩ := hexp v ms hg he
      rw [execStep_of_nodead h.nodead, exec_setPx s k v ms h1 h2]
      refine ⟨inv_insert h.inv (valueOk_str v),
        nodead_insert h.nodead ((live_some_iff _ ms).mpr (by omega)), nodewf_remote' k d h.wf hd, ?_⟩
      rw [keys_remote]
      apply srvk_insert h.srv
      simp [matE, hc, hg, he]
  | none =>
    have htomb : r.tomb = true := by
      simp only [Lww.proper, Bool.or_eq_true] at hp
      rcases hp with hp | hp
      · exact hp
      · simp only [Lww.get] at hg
        cases ht : r.tomb with
        | true => rfl
        | false => simp [ht] at hg; simp [hg] at hp
    have : (mergedVal rs k d).isTombstone = true := by simp [RV.isTombstone, hc, htomb]
    simp only [this, if_true]
    rw [execStep_of_nodead h.nodead, exec_del1 h.inv.1]
    refine ⟨inv_erase h.inv, nodead_erase h.nodead, nodewf_remote' k d h.wf hd, ?_⟩
    rw [keys_remote]
    apply srvk_erase h.inv.1 h.srv
    simp [matE, hc, hg]

/-! #### the hash branch -/

theorem get_hsetAll_wf (fvs : MHash) (hw : NMap.WF fvs) (h : MHash) (f : Nat) :
    NMap.get (hsetAll h fvs).1 f =
      (match NMap.get fvs f with
       | some v => some v
       | none => NMap.get h f) := by
  induction fvs generalizing h with
  | nil => rfl
  | cons p fvs ih =>
    obtain ⟨f0, v0⟩ := p
    have ⟨hlb, hw'⟩ := NMap.wf_cons.mp hw
    rw [hsetAll_fst_cons, ih hw', NMap.get_cons]
    by_cases hf : f = f0
    · subst hf
      have : NMap.get fvs f = none := NMap.get_eq_none_of_LB hlb (Nat.le_refl _)
      simp [this, NMap.get_insert]
    · simp only [hf, if_false]
      cases NMap.get fvs f with
      | some v => rfl
      | none => simp [NMap.get_insert, hf]

theorem get_hdelAll {h : MHash} (hw : NMap.WF h) (fs : List Nat) (f : Nat) :
    NMap.get (hdelAll h fs).1 f = if f ∈ fs then none else NMap.get h f := by
  induction fs generalizing h with
  | nil => simp [hdelAll]
  | cons f0 fs ih =>
    rw [hdelAll_fst_cons]
    split
    · rw [ih (NMap.wf_erase hw), NMap.get_erase hw]
      by_cases hf : f = f0
      · simp [hf]
      · simp [hf]
    · rename_i hns
      have hn : NMap.get h f0 = none := by
        cases hx : NMap.get h f0 with
        | none => rfl
        | some _ => simp [hx] at hns
      rw [ih hw]
      by_cases hf : f = f0
      · subst hf; simp [hn]
      · simp [hf]

theorem mem_tombFields {hm : NMap Lww} (hw : NMap.WF hm) (f : Nat) :
    f ∈ tombFields hm ↔ ∃ r, NMap.get hm f = some r ∧ r.tomb = true := by
  simp only [tombFields, List.mem_map, List.mem_filter]
  constructor
  · rintro ⟨p, ⟨hp, ht⟩, hpf⟩
    subst hpf
    exact ⟨p.2, NMap.get_of_mem hw hp, ht⟩
  · rintro ⟨r, hg, ht⟩
    exact ⟨(f, r), ⟨NMap.mem_of_get hg, ht⟩, rfl⟩

/-- HSET of the live fields then HDEL of the tombstoned ones turns the executor's hash into the
    live fields of the merged hash, provided every register is a tombstone or a value and the
    executor had no field the merged hash does not know -/
theorem remat_fields {hx : MHash} {hm : NMap Lww} (hwx : NMap.WF hx) (hwm : NMap.WF hm)
    (hprop : ∀ p ∈ hm, Lww.proper p.2 = true)
    (hsub : ∀ f, NMap.get hm f = none → NMap.get hx f = none) :
    (hdelAll (hsetAll hx (liveFields hm)).1 (tombFields hm)).1 = liveFields hm := by
  have hw1 : NMap.WF (hsetAll hx (liveFields hm)).1 := wf_hsetAll hwx _
  apply NMap.ext (wf_hdelAll hw1 _) (wf_liveFields hwm)
  intro f
  rw [get_hdelAll hw1, get_hsetAll_wf _ (wf_liveFields hwm), get_liveFields hwm]
  cases hg : NMap.get hm f with
  | none =>
    have : ¬ f ∈ tombFields hm := by
      rw [mem_tombFields hwm]; rintro ⟨r, hr, _⟩; rw [hg] at hr; cases hr
    simp [this, hsub f hg]
  | some r =>
    have hpr := hprop (f, r) (NMap.mem_of_get hg)
    cases ht : r.tomb with
    | true =>
      have : f ∈ tombFields hm := (mem_tombFields hwm f).mpr ⟨r, hg, ht⟩
      simp [this, Lww.get, ht]
    | false =>
      have : ¬ f ∈ tombFields hm := by
        rw [mem_tombFields hwm]; rintro ⟨r', hr', ht'⟩
        rw [hg] at hr'; cases hr'; rw [ht] at ht'; cases ht'
      simp only [Lww.proper, ht, Bool.false_or] at hpr
      cases hv : r.value with
      | none => simp [hv] at hpr
      | some v => simp [this, Lww.get, ht, hv]

/-- what the executor holds under a key as a hash cell -/
def cellEntry (h : MHash) : Option Entry :=
  match h with
  | [] => none
  | p :: l => some { val := .hash (p :: l), dl := none }

theorem matE_hash (rv : RV) (hm : NMap Lww) (hc : rv.crdt = .hash hm) :
    matE (some rv) = cellEntry (liveFields hm) := by
  simp only [matE, hc, cellEntry]
  cases liveFields hm <;> rfl

theorem get_putHash {e : State} (hw : NMap.WF e) (k : Nat) (h : MHash) (k' : Nat) :
    NMap.get (putHash e k h none) k' = if k' = k then cellEntry h else NMap.get e k' := by
  cases h with
  | nil => simp only [putHash, cellEntry]; exact NMap.get_erase hw k'
  | cons p l => simp only [putHash, cellEntry]; exact NMap.get_insert k'

theorem nodead_putHash {e : State} (hN : NoDead e) (k : Nat) (h : MHash) : NoDead (putHash e k h none) := by
  cases h with
  | nil => exact nodead_erase hN
  | cons p l => exact nodead_insert hN (live_none _)

theorem hset_step {e : State} {k : Nat} {hc : MHash} (hg : NMap.get e k = cellEntry hc)
    (fvs : List (Nat × BS)) (hne : fvs ≠ []) :
    (exec e 0 (.hset k fvs)).1 = putHash e k (hsetAll hc fvs).1 none := by
  cases fvs with
  | nil => exact absurd rfl hne
  | cons q fvs =>
    simp only [exec, execHSet]
    cases hc with
    | nil => simp only [cellEntry] at hg; simp [lookupHash, hg]
    | cons p l => simp only [cellEntry] at hg; simp [lookupHash, hg]

theorem hdel_step {e : State} {k : Nat} {hc : MHash} (hw : NMap.WF e) (hg : NMap.get e k = cellEntry hc)
    (fs : List Nat) :
    (exec e 0 (.hdel k fs)).1 = putHash e k (hdelAll hc fs).1 none := by
  simp only [exec, execHDel]
  cases hc with
  | nil =>
    simp only [cellEntry] at hg
    simp only [lookupHash, hg, hdelAll_nil, putHash]
    exact (erase_of_get_none hw hg).symm
  | cons p l => simp only [cellEntry] at hg; simp [lookupHash, hg]

theorem hsetAll_nil_right (h : MHash) : (hsetAll h []).1 = h := rfl
theorem hdelAll_nil_right (h : MHash) : (hdelAll h []).1 = h := rfl

theorem isEmpty_eq_true_iff {α : Type} (l : List α) : l.isEmpty = true ↔ l = [] := by
  cases l <;> simp

/-- `rematHash` after the type check -/
def rematHash2 (e0 : State) (k : Nat) (h : NMap Lww) : State :=
  let e1 := if (liveFields h).isEmpty then e0 else (execStep e0 (.hset k (liveFields h))).1
  if (tombFields h).isEmpty then e1 else (execStep e1 (.hdel k (tombFields h))).1

theorem rematHash_eq (s : State) (k : Nat) (h : NMap Lww) :
    rematHash s k h =
      rematHash2 (if nonHashAt s k then (execStep s (.del [k])).1 else s) k h := rfl

theorem rematHash_spec {s : State} {k : Nat} {hx : MHash} (hI : Inv s) (hN : NoDead s)
    (hwx : NMap.WF hx) (hg : NMap.get s k = cellEntry hx) (hm : NMap Lww) :
    Inv (rematHash2 s k hm) ∧ NoDead (rematHash2 s k hm) ∧
    ∀ k', NMap.get (rematHash2 s k hm) k' =
      if k' = k then cellEntry (hdelAll (hsetAll hx (liveFields hm)).1 (tombFields hm)).1
      else NMap.get s k' := by
  -- after the HSET
  have h1 : ∃ e1, e1 = (if (liveFields hm).isEmpty then s else (execStep s (.hset k (liveFields hm))).1) ∧
      Inv e1 ∧ NoDead e1 ∧
      ∀ k', NMap.get e1 k' = if k' = k then cellEntry (hsetAll hx (liveFields hm)).1 else NMap.get s k' := by
    refine ⟨_, rfl, ?_⟩
    by_cases hl : (liveFields hm).isEmpty = true
    · simp only [hl, if_true]
      rw [(isEmpty_eq_true_iff _).mp hl, hsetAll_nil_right]
      refine ⟨hI, hN, fun k' => ?_⟩
      by_cases hk : k' = k
      · simp [hk, hg]
      · simp [hk]
    · have hlf : (liveFields hm).isEmpty = false := by simpa using hl
      simp only [hlf, Bool.false_eq_true, if_false]
      have hne : liveFields hm ≠ [] := fun h => hl ((isEmpty_eq_true_iff _).mpr h)
      rw [execStep_of_nodead hN, hset_step hg _ hne]
      exact ⟨inv_putHash hI k (wf_hsetAll hwx _) none, nodead_putHash hN k _, get_putHash hI.1 k _⟩
  obtain ⟨e1, he1, hI1, hN1, hg1⟩ := h1
  have hgk : NMap.get e1 k = cellEntry (hsetAll hx (liveFields hm)).1 := by simpa using hg1 k
  simp only [rematHash2]
  rw [← he1]
  by_cases ht : (tombFields hm).isEmpty = true
  · simp only [ht, if_true]
    rw [(isEmpty_eq_true_iff _).mp ht, hdelAll_nil_right]
    exact ⟨hI1, hN1, hg1⟩
  · have htf : (tombFields hm).isEmpty = false := by simpa using ht
    simp only [htf, Bool.false_eq_true, if_false]
    rw [execStep_of_nodead hN1, hdel_step hI1.1 hgk]
    refine ⟨inv_putHash hI1 k (wf_hdelAll (wf_hsetAll hwx _) _) none, nodead_putHash hN1 k _, fun k' => ?_⟩
    rw [get_putHash hI1.1]
    by_cases hk : k' = k
    · simp [hk]
    · simp only [hk, if_false]
      have := hg1 k'
      simpa [hk] using this

theorem optMerge_none {ν : Type} {f : ν → ν → ν} {a b : Option ν} (h : optMerge f a b = none) : a = none := by
  cases a <;> cases b <;> simp [optMerge] at h ⊢

/-- the merged hash knows every field the local hash knew -/
theorem merged_hash_sub {rs : Shard} {k : Nat} {d : RV} {hm : NMap Lww} (hW : rs.NodeWF) (hd : d.WF)
    (hc : (mergedVal rs k d).crdt = .hash hm) :
    ∀ f, NMap.get hm f = none → NMap.get (rsHash rs k) f = none := by
  intro f hf
  unfold mergedVal at hc
  unfold rsHash
  cases hg : NMap.get rs.keys k with
  | none => rfl
  | some l =>
    simp only [hg] at hc
    have hlw := hW.2 _ (NMap.mem_of_get hg)
    simp only [Option.getD_some]
    cases hlc : l.crdt with
    | hash hl =>
      simp only [Crdt.hashOf]
      have hwl : NMap.WF hl := by have := hlw.1; rw [hlc] at this; exact this
      simp only [RV.merge, RV.mergeWith, Crdt.mergeWithTimestamps, hlc] at hc
      cases hdc : d.crdt with
      | hash hdh =>
        have hwd : NMap.WF hdh := by have := hd.1; rw [hdc] at this; exact this
        simp only [hdc, Crdt.tryMerge, Crdt.hash.injEq] at hc
        subst hc
        rw [NMap.get_merge hwl hwd] at hf
        exact optMerge_none hf
      | lww r =>
        simp only [hdc, Crdt.tryMerge] at hc
        split at hc
        · cases hc
        · simp only [Crdt.hash.injEq] at hc; subst hc; exact hf
      | gcounter c =>
        simp only [hdc, Crdt.tryMerge] at hc
        split at hc
        · cases hc
        · simp only [Crdt.hash.injEq] at hc; subst hc; exact hf
      | pncounter p n =>
        simp only [hdc, Crdt.tryMerge] at hc
        split at hc
        · cases hc
        · simp only [Crdt.hash.injEq] at hc; subst hc; exact hf
      | gset s =>
        simp only [hdc, Crdt.tryMerge] at hc
        split at hc
        · cases hc
        · simp only [Crdt.hash.injEq] at hc; subst hc; exact hf
      | orset e n =>
        simp only [hdc, Crdt.tryMerge] at hc
        split at hc
        · cases hc
        · simp only [Crdt.hash.injEq] at hc; subst hc; exact hf
    | lww r => rfl
    | gcounter c => rfl
    | pncounter p n => rfl
    | gset s => rfl
    | orset e n => rfl

theorem nonHashAt_of_cell {s : State} {k : Nat} {hx : MHash} (hg : NMap.get s k = cellEntry hx) :
    nonHashAt s k = false := by
  cases hx with
  | nil => simp only [cellEntry] at hg; simp [nonHashAt, hg]
  | cons p l => simp only [cellEntry] at hg; simp [nonHashAt, hg]

theorem nonHashAt_of_wrong {s : State} {k : Nat} (h : lookupHash s k = .wrong) :
    nonHashAt s k = true := by
  simp only [lookupHash] at h
  simp only [nonHashAt]
  cases hg : NMap.get s k with
  | none => simp [hg] at h
  | some e =>
    obtain ⟨val, dl⟩ := e
    cases val <;> simp_all

theorem ok_deliver_hash {s : State} {rs : Shard} (h : Ok s rs) (k : Nat) (d : RV) (hd : d.WF)
    (hm : NMap Lww) (hc : (mergedVal rs k d).crdt = .hash hm)
    (hprop : hm.all (fun p => Lww.proper p.2) = true) :
    Ok (rematerialise s k (mergedVal rs k d)) (rs.applyRemote k d) := by
  have hwm : NMap.WF hm := by
    have := (mergedVal_wf k d h.wf hd).1
    rw [hc] at this; exact this
  have hwx : NMap.WF (liveFields (rsHash rs k)) := wf_liveFields (wf_rsHash h.wf k)
  have hpr : ∀ p ∈ hm, Lww.proper p.2 = true :=
    fun p hp => by simpa using (List.all_eq_true.mp hprop) p hp
  simp only [rematerialise, hc, rematHash_eq]
  rcases hash_view h.srv k with ⟨_, hg, hlive⟩ | ⟨hh, _, hg, hlive, hne⟩ | hl
  · -- no key: nothing to delete
    have hcell : NMap.get s k = cellEntry (liveFields (rsHash rs k)) := by rw [hg, hlive]; rfl
    rw [nonHashAt_of_cell hcell]
    simp only [Bool.false_eq_true, if_false]
    obtain ⟨hI, hN, hgk⟩ := rematHash_spec h.inv h.nodead hwx hcell hm
    have hfields := remat_fields hwx hwm hpr (fun f hf => by
      rw [get_liveFields (wf_rsHash h.wf k), merged_hash_sub h.wf hd hc f hf]; rfl)
    refine ⟨hI, hN, nodewf_remote' k d h.wf hd, ?_⟩
    rw [keys_remote]
    intro k'
    rw [hgk k', NMap.get_insert]
    by_cases hk : k' = k
    · simp only [hk, if_true]; rw [hfields, matE_hash _ hm hc]
    · simp only [hk, if_false]; exact h.srv k'
  · -- a hash: merged in place
    have hcell : NMap.get s k = cellEntry (liveFields (rsHash rs k)) := by
      rw [hg, hlive]
      cases hh with
      | nil => exact absurd rfl hne
      | cons p l => rfl
    rw [nonHashAt_of_cell hcell]
    simp only [Bool.false_eq_true, if_false]
    obtain ⟨hI, hN, hgk⟩ := rematHash_spec h.inv h.nodead hwx hcell hm
    have hfields := remat_fields hwx hwm hpr (fun f hf => by
      rw [get_liveFields (wf_rsHash h.wf k), merged_hash_sub h.wf hd hc f hf]; rfl)
    refine ⟨hI, hN, nodewf_remote' k d h.wf hd, ?_⟩
    rw [keys_remote]
    intro k'
    rw [hgk k', NMap.get_insert]
    by_cases hk : k' = k
    · simp only [hk, if_true]; rw [hfields, matE_hash _ hm hc]
    · simp only [hk, if_false]; exact h.srv k'
  · -- another type: deleted first, then the hash is built from nothing
    rw [nonHashAt_of_wrong hl]
    simp only [if_true]
    rw [execStep_of_nodead h.nodead, exec_del1 h.inv.1]
    have hcell : NMap.get (NMap.erase k s) k = cellEntry [] := by
      rw [NMap.get_erase h.inv.1]; simp [cellEntry]
    obtain ⟨hI, hN, hgk⟩ :=
      rematHash_spec (inv_erase h.inv) (nodead_erase h.nodead) NMap.wf_nil hcell hm
    have hfields := remat_fields (hx := []) NMap.wf_nil hwm hpr (fun _ _ => rfl)
    refine ⟨hI, hN, nodewf_remote' k d h.wf hd, ?_⟩
    rw [keys_remote]
    intro k'
    rw [hgk k', NMap.get_insert]
    by_cases hk : k' = k
    · simp only [hk, if_true]; rw [hfields, matE_hash _ hm hc]
    · simp only [hk, if_false]
      rw [NMap.get_erase h.inv.1]
      simp only [hk, if_false]
      exact h.srv k'

end RedisVerif.Glue
