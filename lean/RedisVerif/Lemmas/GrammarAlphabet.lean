import RedisVerif.Model.GrammarGen
import RedisVerif.Lemmas.GrammarErrs

/-
  The error / constructor alphabet of the generic body: everything `runGen d` can answer is named by
  the descriptor `d` — the literals of its slots, of its tail (option values, missing values, the
  unknown-word policy, the odd-pairs text), of its finishing function; the formatted errors of its
  option table; the constructors of its finishing function.
-/
namespace RedisVerif.Grammar

/-- option tables as the grammars write them: at most two values, a missing value is an explicit error -/
def plainOpts' (tbl : List OptSpec) : Bool :=
  tbl.all fun o => o.vals.length ≤ 2 &&
    (o.vals.isEmpty || match o.missing with
      | .err _ => true
      | _ => false)

def Tail.plain : Tail → Bool
  | .scan tbl _ => plainOpts' tbl
  | _ => true

def Tail.lits : Tail → List Lit
  | .many a => argErrs a
  | .pairs a b => argErrs a ++ argErrs b
  | .scan tbl unk => optErrs tbl ++ (match unk with | .lit l => [l] | .fmt _ => [])
  | .flagsPairs _ odd a b => odd :: (argErrs a ++ argErrs b)
  | _ => []

def Tail.fmts : Tail → List Fmt
  | .scan tbl unk => tbl.filterMap (·.reject) ++ (match unk with | .fmt f => [f] | .lit _ => [])
  | _ => []

/-- every error literal a body of this shape can answer -/
def GenDesc.lits (d : GenDesc) : List Lit :=
  d.pre.flatMap argErrs ++ d.opt.flatMap argErrs ++ d.tail.lits ++ d.finLits

/-- what a body of shape `d` may answer -/
def Allowed (d : GenDesc) : BRes → Prop
  | .ok c => c.ctor ∈ d.ctors
  | .error e => e = .unreachable ∨ (∃ l ∈ d.lits, e = .lit l) ∨ (∃ f ∈ d.tail.fmts, ∃ w, e = .fmt f w)

theorem takeSlots_err : ∀ (as : List Arg) (vs : List Bytes) (e : BErr),
    takeSlots as vs = .error e → e = .unreachable ∨ ∃ l ∈ as.flatMap argErrs, e = .lit l := by
  intro as
  induction as with
  | nil => intro vs e h; simp [takeSlots] at h
  | cons a as ih =>
    intro vs e h
    match vs with
    | [] => simp only [takeSlots, Except.error.injEq] at h; exact Or.inl h.symm
    | v :: vs' =>
      simp only [takeSlots, bind, Except.bind] at h
      cases hx : a.extract v with
      | error e' =>
        rw [hx] at h; simp only [Except.error.injEq] at h; subst h
        obtain ⟨l, hl, he⟩ := extract_err hx
        exact Or.inr ⟨l, by simp [hl], he⟩
      | ok t =>
        rw [hx] at h
        simp only at h
        cases hy : takeSlots as vs' with
        | ok r => rw [hy] at h; simp [pure, Except.pure] at h
        | error e' =>
          rw [hy] at h; simp only [Except.error.injEq] at h; subst h
          rcases ih vs' e' hy with h1 | ⟨l, hl, he⟩
          · exact Or.inl h1
          · exact Or.inr ⟨l, by simp [hl], he⟩

theorem takeOpt_err : ∀ (as : List Arg) (vs : List Bytes) (e : BErr),
    takeOpt as vs = .error e → ∃ l ∈ as.flatMap argErrs, e = .lit l := by
  intro as
  induction as with
  | nil => intro vs e h; cases vs <;> simp [takeOpt] at h
  | cons a as ih =>
    intro vs e h
    match vs with
    | [] => simp [takeOpt] at h
    | v :: vs' =>
      simp only [takeOpt, bind, Except.bind] at h
      cases hx : a.extract v with
      | error e' =>
        rw [hx] at h; simp only [Except.error.injEq] at h; subst h
        obtain ⟨l, hl, he⟩ := extract_err hx
        exact ⟨l, by simp [hl], he⟩
      | ok t =>
        rw [hx] at h
        simp only at h
        cases hy : takeOpt as vs' with
        | ok r => rw [hy] at h; simp [pure, Except.pure] at h
        | error e' =>
          rw [hy] at h; simp only [Except.error.injEq] at h; subst h
          obtain ⟨l, hl, he⟩ := ih vs' e' hy
          exact ⟨l, by simp [hl], he⟩

/-- pairs: an odd rest is `unreachable` -/
theorem extractPairs_err' (a b : Arg) : ∀ (n : Nat) (vs : List Bytes) (e : BErr), vs.length ≤ n →
    extractPairs a b vs = .error e → e = .unreachable ∨ ∃ l ∈ argErrs a ++ argErrs b, e = .lit l := by
  intro n
  induction n with
  | zero => intro vs e hl h; match vs with
    | [] => simp [extractPairs] at h
    | _ :: _ => simp at hl
  | succ n ih =>
    intro vs e hl h
    match vs with
    | [] => simp [extractPairs] at h
    | [_] => simp only [extractPairs, Except.error.injEq] at h; exact Or.inl h.symm
    | x :: y :: vs' =>
      simp only [extractPairs, bind, Except.bind] at h
      cases hx : a.extract x with
      | error e' =>
        rw [hx] at h; simp only [Except.error.injEq] at h; subst h
        obtain ⟨l, hl', he⟩ := extract_err hx
        exact Or.inr ⟨l, by simp [hl'], he⟩
      | ok t =>
        rw [hx] at h
        simp only at h
        cases hy : b.extract y with
        | error e' =>
          rw [hy] at h; simp only [Except.error.injEq] at h; subst h
          obtain ⟨l, hl', he⟩ := extract_err hy
          exact Or.inr ⟨l, by simp [hl'], he⟩
        | ok u =>
          rw [hy] at h
          simp only at h
          cases hz : extractPairs a b vs' with
          | ok us => rw [hz] at h; simp [pure, Except.pure] at h
          | error e' =>
            rw [hz] at h; simp only [Except.error.injEq] at h; subst h
            exact ih vs' e' (by simp at hl; omega) hz

/-- the option scan with refusals: a literal of the table, the unknown-word policy, or the formatted refusal of
    a listed word -/
theorem scan_err' (tbl : List OptSpec) (unk : Bytes → Option BErr) (hp : plainOpts' tbl = true) :
    ∀ (n : Nat) (opts : List Bytes) (e : BErr), opts.length ≤ n → scanOpts tbl unk opts = .error e →
      (∃ l ∈ optErrs tbl, e = .lit l) ∨ (∃ w, unk w = some e) ∨ (∃ f ∈ tbl.filterMap (·.reject), ∃ w, e = .fmt f w) := by
  intro n
  induction n with
  | zero => intro opts e hl h; match opts with
    | [] => simp [scanOpts] at h
    | _ :: _ => simp at hl
  | succ n ih =>
    intro opts e hl h
    match opts with
    | [] => simp [scanOpts] at h
    | a :: r =>
      have hr : r.length ≤ n := by simp at hl; omega
      rw [scanOpts] at h
      cases hf : findOpt tbl (kw a) 0 with
      | none =>
        rw [hf] at h
        simp only at h
        cases hu : unk (kw a) with
        | some e' => rw [hu] at h; simp only [Except.error.injEq] at h; subst h; exact Or.inr (Or.inl ⟨_, hu⟩)
        | none => rw [hu] at h; exact ih r e hr h
      | some io =>
        obtain ⟨idx, o⟩ := io
        rw [hf] at h
        have hom := findOpt_mem tbl (kw a) 0 idx o hf
        have hpo := List.all_eq_true.mp hp o hom
        simp only [Bool.and_eq_true, decide_eq_true_eq] at hpo
        obtain ⟨hlen, hmiss⟩ := hpo
        have hsub : ∀ l, l ∈ (o.vals.flatMap argErrs ++ match o.missing with | .err l => [l] | _ => []) →
            l ∈ optErrs tbl := by
          intro l hl'
          simp only [optErrs, List.mem_flatMap]
          exact ⟨o, hom, hl'⟩
        simp only at h
        cases hrej : o.reject with
        | some f =>
          rw [hrej] at h
          simp only [Except.error.injEq] at h
          refine Or.inr (Or.inr ⟨f, ?_, kw a, h.symm⟩)
          simp only [List.mem_filterMap]
          exact ⟨o, hom, hrej⟩
        | none =>
          rw [hrej] at h
          simp only at h
          match hv : o.vals with
          | [] =>
            rw [hv] at h
            simp only [bind, Except.bind] at h
            cases hs : scanOpts tbl unk r with
            | ok s => rw [hs] at h; simp [pure, Except.pure] at h
            | error e' => rw [hs] at h; simp only [Except.error.injEq] at h; subst h; exact ih r e' hr hs
          | [k1] =>
            rw [hv] at h hsub
            have hmiss : (match o.missing with | .err _ => true | _ => false) = true := by
              rw [hv] at hmiss; simpa using hmiss
            simp only at h
            match r with
            | [] =>
              simp only at h
              cases hm : o.missing with
              | err l =>
                rw [hm] at h hsub
                simp only [Missing.result, Except.error.injEq] at h
                exact Or.inl ⟨l, hsub l (by simp), h.symm⟩
              | crash => rw [hm] at hmiss; simp at hmiss
              | ignore => rw [hm] at hmiss; simp at hmiss
            | v1 :: rest' =>
              simp only [bind, Except.bind] at h
              cases hx : k1.extract v1 with
              | error e' =>
                rw [hx] at h; simp only [Except.error.injEq] at h; subst h
                obtain ⟨l, hl', he⟩ := extract_err hx
                exact Or.inl ⟨l, hsub l (by simp [hl']), he⟩
              | ok t1 =>
                rw [hx] at h
                simp only at h
                cases hs : scanOpts tbl unk rest' with
                | ok s => rw [hs] at h; simp [pure, Except.pure] at h
                | error e' =>
                  rw [hs] at h; simp only [Except.error.injEq] at h; subst h
                  exact ih rest' e' (by simp at hr; omega) hs
          | [k1, k2] =>
            rw [hv] at h hsub
            have hmiss : (match o.missing with | .err _ => true | _ => false) = true := by
              rw [hv] at hmiss; simpa using hmiss
            simp only at h
            have missCase : o.missing.result = .error e → (∃ l ∈ optErrs tbl, e = .lit l) ∨ (∃ w, unk w = some e) ∨
                (∃ f ∈ tbl.filterMap (·.reject), ∃ w, e = .fmt f w) := by
              intro hmr
              cases hm : o.missing with
              | err l =>
                rw [hm] at hmr hsub
                simp only [Missing.result, Except.error.injEq] at hmr
                exact Or.inl ⟨l, hsub l (by simp), hmr.symm⟩
              | crash => rw [hm] at hmiss; simp at hmiss
              | ignore => rw [hm] at hmiss; simp at hmiss
            match r with
            | [] => exact missCase h
            | [_] => exact missCase h
            | v1 :: v2 :: rest' =>
              simp only [bind, Except.bind] at h
              cases hx : k1.extract v1 with
              | error e' =>
                rw [hx] at h; simp only [Except.error.injEq] at h; subst h
                obtain ⟨l, hl', he⟩ := extract_err hx
                exact Or.inl ⟨l, hsub l (by simp [hl']), he⟩
              | ok t1 =>
                rw [hx] at h
                simp only at h
                cases hy : k2.extract v2 with
                | error e' =>
                  rw [hy] at h; simp only [Except.error.injEq] at h; subst h
                  obtain ⟨l, hl', he⟩ := extract_err hy
                  exact Or.inl ⟨l, hsub l (by simp [hl']), he⟩
                | ok t2 =>
                  rw [hy] at h
                  simp only at h
                  cases hs : scanOpts tbl unk rest' with
                  | ok s => rw [hs] at h; simp [pure, Except.pure] at h
                  | error e' =>
                    rw [hs] at h; simp only [Except.error.injEq] at h; subst h
                    exact ih rest' e' (by simp at hr; omega) hs
          | _ :: _ :: _ :: _ => rw [hv] at hlen; simp at hlen

/-- the errors of a tail -/
theorem tail_run_err (t : Tail) (hp : t.plain = true) (rest : List Bytes) (e : BErr) (h : t.run rest = .error e) :
    e = .unreachable ∨ (∃ l ∈ t.lits, e = .lit l) ∨ (∃ f ∈ t.fmts, ∃ w, e = .fmt f w) := by
  cases t with
  | none =>
    simp only [Tail.run] at h
    split at h
    · simp at h
    · simp only [Except.error.injEq] at h; exact Or.inl h.symm
  | ignore => simp [Tail.run] at h
  | raw => simp [Tail.run] at h
  | many a =>
    simp only [Tail.run, bind, Except.bind] at h
    cases hx : extractAll a rest with
    | ok us => rw [hx] at h; simp [pure, Except.pure] at h
    | error e' =>
      rw [hx] at h; simp only [Except.error.injEq] at h; subst h
      exact Or.inr (Or.inl (extractAll_err a rest e' hx))
  | pairs a b =>
    simp only [Tail.run, bind, Except.bind] at h
    cases hx : extractPairs a b rest with
    | ok us => rw [hx] at h; simp [pure, Except.pure] at h
    | error e' =>
      rw [hx] at h; simp only [Except.error.injEq] at h; subst h
      rcases extractPairs_err' a b _ rest e' (Nat.le_refl _) hx with h1 | h2
      · exact Or.inl h1
      · exact Or.inr (Or.inl h2)
  | scan tbl unk =>
    simp only [Tail.run, bind, Except.bind] at h
    cases hx : scanOpts tbl unk.fn rest with
    | ok s => rw [hx] at h; simp [pure, Except.pure] at h
    | error e' =>
      rw [hx] at h; simp only [Except.error.injEq] at h; subst h
      rcases scan_err' tbl unk.fn hp _ rest e' (Nat.le_refl _) hx with ⟨l, hl, he⟩ | ⟨w, hw⟩ | h3
      · exact Or.inr (Or.inl ⟨l, by simp [Tail.lits, hl], he⟩)
      · cases unk with
        | lit l =>
          simp only [Unk.fn, Option.some.injEq] at hw
          exact Or.inr (Or.inl ⟨l, by simp [Tail.lits], hw.symm⟩)
        | fmt f =>
          simp only [Unk.fn, Option.some.injEq] at hw
          exact Or.inr (Or.inr ⟨f, by simp [Tail.fmts], w, hw.symm⟩)
      · obtain ⟨f, hf, w, he⟩ := h3
        exact Or.inr (Or.inr ⟨f, by simp only [Tail.fmts, List.mem_append]; exact Or.inl hf, w, he⟩)
  | flagsPairs fl odd a b =>
    simp only [Tail.run] at h
    split at h
    · simp only [Except.error.injEq] at h
      exact Or.inr (Or.inl ⟨odd, by simp [Tail.lits], h.symm⟩)
    · simp only [bind, Except.bind] at h
      cases hx : extractPairs a b (takeFlags fl rest).2 with
      | ok us => rw [hx] at h; simp [pure, Except.pure] at h
      | error e' =>
        rw [hx] at h; simp only [Except.error.injEq] at h; subst h
        rcases extractPairs_err' a b _ _ e' (Nat.le_refl _) hx with h1 | ⟨l, hl, he⟩
        · exact Or.inl h1
        · exact Or.inr (Or.inl ⟨l, by simp only [Tail.lits, List.mem_cons]; exact Or.inr hl, he⟩)

/-- everything the generic body answers is named by its descriptor -/
theorem runGen_allowed (d : GenDesc) (hfin : FinOk d) (hp : d.tail.plain = true) (args : List Bytes) :
    Allowed d (runGen d args) := by
  unfold runGen
  cases d.dom.ok args.length with
  | false => exact Or.inl rfl
  | true =>
    simp only [bind, Except.bind]
    cases hs : takeSlots d.pre args with
    | error e =>
      rcases takeSlots_err _ _ _ hs with h | ⟨l, hl, he⟩
      · exact Or.inl h
      · exact Or.inr (Or.inl ⟨l, by simp [GenDesc.lits, hl], he⟩)
    | ok p =>
      simp only
      cases ho : takeOpt d.opt p.2 with
      | error e =>
        obtain ⟨l, hl, he⟩ := takeOpt_err _ _ _ ho
        exact Or.inr (Or.inl ⟨l, by simp [GenDesc.lits, hl], he⟩)
      | ok o =>
        simp only
        cases ht : d.tail.run o.2 with
        | error e =>
          rcases tail_run_err _ hp _ _ ht with h | ⟨l, hl, he⟩ | h3
          · exact Or.inl h
          · exact Or.inr (Or.inl ⟨l, by simp [GenDesc.lits, hl], he⟩)
          · exact Or.inr (Or.inr h3)
        | ok tv =>
          simp only
          have := hfin (p.1 ++ o.1) tv
          cases hf : d.fin (p.1 ++ o.1) tv with
          | ok c => rw [hf] at this; exact this
          | error e =>
            rw [hf] at this
            rcases this with h | ⟨l, hl, he⟩
            · exact Or.inl h
            · exact Or.inr (Or.inl ⟨l, by simp [GenDesc.lits, hl], he⟩)

/-- the finishing functions of the table-driven bodies answer their one constructor -/
theorem body_gen_finOk (b : Body) : FinOk b.gen := by
  cases b with
  | custom cb => exact cb.fin_ok
  | const c => intro ts tv; simp [Body.gen]
  | fixed c sl => intro ts tv; simp [Body.gen]
  | many c p e => intro ts tv; simp only [Body.gen]; cases tv <;> simp [vecFin]
  | pairs c p a b' => intro ts tv; simp only [Body.gen]; cases tv <;> simp [vecFin]

end RedisVerif.Grammar
