import RedisVerif.Lemmas.StreamOps

/-!
  Fold-level lemmas about M4 (shared by C12 and C13): a `Carrier` assigns to every key the
  carrier of `RVCarrier`; `InCar c l` says every update of `l` lives in the carrier of its key.
  Unlike `Coherent` this is closed under "replace some updates of a key by their merge", which is
  what compaction does to the listed content.

  * `foldState_replace`: replacing a sub-collection `B` of the updates by `foldState B` changes
    neither `foldState` nor membership in the carrier;
  * `absorbed_of_mem_inCar`, `absorbed_mono`: an update stays absorbed when the content grows;
  * `compact_fold_preserved`: for every oracle, a compaction whose survivors are the per-key
    merge of what it removed leaves `foldState (content)` unchanged — instantiated by the
    repaired compactor (`goodAcc_repaired`) and, under decidable hypotheses, by the code that
    exists on a fault-free run (`goodAcc_pinned`).
-/
namespace RedisVerif
namespace Stream

open FoldACI RVCarrier

structure Carrier where
  U : Nat → List (Nat × Lww)
  kd : Nat → Nat
  cons : ∀ k, UCons (U k)

def InCar (c : Carrier) (l : List Delta) : Prop := ∀ p ∈ l, Car (c.U p.1) (c.kd p.1) p.2

theorem inCar_vals {c : Carrier} {l : List Delta} (h : InCar c l) (k : Nat) :
    ∀ y ∈ vals k l, Car (c.U k) (c.kd k) y :=
  fun y hy => h (k, y) (mem_vals.mp hy)

theorem Carrier.aci (c : Carrier) (k : Nat) : ACI RV.merge (Car (c.U k) (c.kd k)) :=
  RVCarrier.aci (c.kd k) (c.cons k)

def kindOf (l : List Delta) (k : Nat) : Nat :=
  match vals k l with
  | v :: _ => v.crdt.kind
  | [] => 0

/-- the carrier assignment a coherent list of updates induces -/
def carrierOf (l : List Delta) (hc : Coherent l) : Carrier :=
  { U := fun k => regUniverse k l, kd := kindOf l, cons := ucons_universe hc }

theorem inCar_of_coherent {l : List Delta} (hc : Coherent l) : InCar (carrierOf l hc) l := by
  intro p hp
  obtain ⟨k, v⟩ := p
  have hv : v ∈ vals k l := mem_vals.mpr hp
  show Car (regUniverse k l) (kindOf l k) v
  unfold kindOf
  cases hl : vals k l with
  | nil => rw [hl] at hv; cases hv
  | cons v0 rest =>
    have h0 : v0 ∈ vals k l := by simp [hl]
    exact car_of_coherent hc h0 hv

theorem mem_foldState_iff {B : List Delta} {k : Nat} {v : RV} :
    (k, v) ∈ foldState B ↔ fold1 RV.merge (vals k B) = some v := by
  rw [← get_foldState]
  constructor
  · exact fun h => Crdt.get_of_mem (wf_foldState B) h
  · exact fun h => Crdt.mem_of_get h

/-- `foldState` depends only on the set of updates (carrier form) -/
theorem foldState_eq_of_same_set_inCar (c : Carrier) {l l' : List Delta} (hcar : InCar c l)
    (hset : ∀ d, d ∈ l ↔ d ∈ l') : foldState l = foldState l' := by
  apply NMap.ext (wf_foldState l) (wf_foldState l')
  intro k
  rw [get_foldState, get_foldState]
  exact fold1_eq_of_same_set (c.aci k) (inCar_vals hcar k)
    (fun y => by rw [mem_vals, mem_vals]; exact hset (k, y))

/-- **replacing a sub-collection of the updates by its per-key merge** changes neither the
    folded state nor membership in the carrier -/
theorem foldState_replace (c : Carrier) {l l' B : List Delta} (hcar : InCar c l)
    (hB : ∀ d ∈ B, d ∈ l)
    (h1 : ∀ d ∈ l', d ∈ l ∨ d ∈ foldState B)
    (h2 : ∀ d ∈ l, d ∈ l' ∨ (d ∈ B ∧ ∀ e ∈ foldState B, e ∈ l')) :
    foldState l' = foldState l ∧ InCar c l' := by
  have hBcar : InCar c B := fun p hp => hcar p (hB p hp)
  constructor
  · apply NMap.ext (wf_foldState l') (wf_foldState l)
    intro k
    rw [get_foldState, get_foldState]
    apply fold1_replace (c.aci k) (B := vals k B) (inCar_vals hcar k)
    · intro y hy
      exact mem_vals.mpr (hB _ (mem_vals.mp hy))
    · intro y hy
      rcases h1 (k, y) (mem_vals.mp hy) with h | h
      · exact Or.inl (mem_vals.mpr h)
      · exact Or.inr (mem_foldState_iff.mp h)
    · intro y hy
      rcases h2 (k, y) (mem_vals.mp hy) with h | ⟨hb, hall⟩
      · exact Or.inl (mem_vals.mpr h)
      · refine Or.inr ⟨mem_vals.mpr hb, ?_⟩
        obtain ⟨v, hv, _⟩ := le_fold1 (c.aci k) (inCar_vals hBcar k) (mem_vals.mpr hb)
        exact ⟨v, hv, mem_vals.mpr (hall (k, v) (mem_foldState_iff.mpr hv))⟩
  · intro p hp
    rcases h1 p hp with h | h
    · exact hcar p h
    · obtain ⟨k, v⟩ := p
      exact fold1_closed (c.aci k) (inCar_vals hBcar k) (mem_foldState_iff.mp h)

/-- an update of the list is absorbed by the folded state -/
theorem absorbed_of_mem_inCar (c : Carrier) {l : List Delta} (hcar : InCar c l) {k : Nat} {v : RV}
    (h : (k, v) ∈ l) : ∃ u, NMap.get (foldState l) k = some u ∧ RV.merge v u = u := by
  rw [get_foldState]
  exact le_fold1 (c.aci k) (inCar_vals hcar k) (mem_vals.mpr h)

/-- absorption survives growth of the list -/
theorem absorbed_mono (c : Carrier) {l l' : List Delta} (hcar' : InCar c l')
    (hsub : ∀ d ∈ l, d ∈ l') {k : Nat} {v : RV} (hv : Car (c.U k) (c.kd k) v)
    (h : ∃ u, NMap.get (foldState l) k = some u ∧ RV.merge v u = u) :
    ∃ u', NMap.get (foldState l') k = some u' ∧ RV.merge v u' = u' := by
  obtain ⟨u, hu, hvu⟩ := h
  rw [get_foldState] at hu
  have hcar : InCar c l := fun p hp => hcar' p (hsub p hp)
  have hne : ∃ y, y ∈ vals k l := by
    cases hl : vals k l with
    | nil => rw [hl] at hu; cases hu
    | cons y _ => exact ⟨y, by simp⟩
  obtain ⟨y, hy⟩ := hne
  have hy' : y ∈ vals k l' := mem_vals.mpr (hsub _ (mem_vals.mp hy))
  obtain ⟨u', hu', _⟩ := le_fold1 (c.aci k) (inCar_vals hcar' k) hy'
  refine ⟨u', by rw [get_foldState]; exact hu', ?_⟩
  have huu' : le RV.merge u u' := by
    apply fold1_le_of_forall (c.aci k) (inCar_vals hcar k) (fold1_closed (c.aci k) (inCar_vals hcar' k) hu') hu
    intro z hz
    obtain ⟨w, hw, hle⟩ := le_fold1 (c.aci k) (inCar_vals hcar' k) (mem_vals.mpr (hsub _ (mem_vals.mp hz)))
    rw [hu'] at hw; cases hw; exact hle
  exact le_trans (c.aci k) hv (fold1_closed (c.aci k) (inCar_vals hcar k) hu)
    (fold1_closed (c.aci k) (inCar_vals hcar' k) hu') hvu huu'

/-! ### compaction preserves the folded content -/

/-- the survivors of the compaction are the per-key merge of the deltas it removed -/
def GoodAcc (st : Store) (cfg : CompactCfg) (acc : LoadAcc) : Prop :=
  keptOf cfg acc.ktd = foldState (segDeltas st acc.actually)

theorem compact_fold_preserved (c : Carrier) (fl : CompactFlags) (F : Oracle) (cfg : CompactCfg)
    (sz : Nat) (w : World) (hinv : StoreInv w.store) (hcar : InCar c (content w.store))
    (hgood : ∀ w1 m, loadOrCreate F w 0 = (w1, some m) →
      (loadLoop fl F w1 LoadAcc.init (selectSegments cfg m)).2.failed = false →
      GoodAcc w.store cfg (loadLoop fl F w1 LoadAcc.init (selectSegments cfg m)).2) :
    foldState (content (compactWith fl F cfg sz w).1.store) = foldState (content w.store) ∧
    InCar c (content (compactWith fl F cfg sz w).1.store) := by
  rcases (compact_spec fl F cfg sz w hinv).2 with h | ⟨w1, m, hl, hnf, hcont⟩
  · rw [h]; exact ⟨rfl, hcar⟩
  · have hg := hgood w1 m hl hnf
    unfold GoodAcc at hg
    have hact : ∀ s ∈ (loadLoop fl F w1 LoadAcc.init (selectSegments cfg m)).2.actually, s ∈ m.segments := by
      intro s hs
      rcases loadLoop_actually fl F w1 LoadAcc.init (selectSegments cfg m) s hs with h | h
      · simp [LoadAcc.init] at h
      · exact mem_selectSegments h
    generalize (loadLoop fl F w1 LoadAcc.init (selectSegments cfg m)).2 = acc at hg hcont hnf hact
    have hcw : content w.store = segDeltas w.store m.segments := by
      unfold content
      rw [segments_of_load hl]
    rw [hg] at hcont
    apply foldState_replace c (B := segDeltas w.store acc.actually) hcar
    · intro d hd
      rw [hcw]
      obtain ⟨s, hs, r⟩ := mem_segDeltas.mp hd
      exact mem_segDeltas.mpr ⟨s, hact s hs, r⟩
    · intro d hd
      rcases (hcont d).mp hd with h | h
      · exact Or.inr h
      · left
        rw [hcw]
        obtain ⟨s, hs, r⟩ := mem_segDeltas.mp h
        exact mem_segDeltas.mpr ⟨s, (mem_removeIds.mp hs).1, r⟩
    · intro d hd
      rw [hcw] at hd
      obtain ⟨s, hs, ds, hgs, hds⟩ := mem_segDeltas.mp hd
      by_cases hid : s.id ∈ acc.actually.map (·.id)
      · right
        obtain ⟨t, ht, hte⟩ := List.mem_map.mp hid
        refine ⟨mem_segDeltas.mpr ⟨t, ht, ds, by rw [hte]; exact hgs, hds⟩, ?_⟩
        intro e he
        exact (hcont e).mpr (Or.inl he)
      · left
        exact (hcont d).mpr (Or.inr (mem_segDeltas.mpr ⟨s, mem_removeIds.mpr ⟨hs, hid⟩, ds, hgs, hds⟩))

/-! ### when are the survivors the per-key merge of what was removed? -/

theorem keptOf_noGC {cfg : CompactCfg} (h : cfg.cutoff = 0) (ktd : NMap RV) : keptOf cfg ktd = ktd := by
  unfold keptOf
  rw [List.filter_eq_self]
  intro p _
  simp [h]

theorem foldl_keepStep_merge (acc : NMap RV) (ds : List Delta) :
    ds.foldl (keepStep true) acc = applyAll acc ds := by
  induction ds generalizing acc with
  | nil => rfl
  | cons d ds ih =>
    simp only [List.foldl_cons, applyAll]
    rw [ih]
    rfl

/-- no call of this oracle is a read corruption -/
def NoReadCorruption (F : Oracle) : Prop := ∀ n, F n ≠ .readCorrupt

/-- under `NoReadCorruption` a successful `get` returns the stored object -/
theorem get_ok_clean {F : Oracle} (hF : NoReadCorruption F) {w w' : World} {n : Nat} {o : Obj}
    (h : w.get F n = (w', .ok o)) : NMap.get w.store n = some o := by
  unfold World.get at h
  split at h
  · cases h
  · split at h
    · split at h
      · rename_i o' hg; cases h; exact hg
      · cases h
    · rename_i hc
      exact absurd hc (hF _)
    all_goals cases h

/-- the loading loop of the current compactor (only `NotFound` = missing) over complete
    segments, for every oracle: it either aborts, or it has loaded a sub-list of the selected
    segments — those whose read was not corrupted — and nothing else; a segment whose read
    returned an unparsable body is SKIPPED (it stays listed and is not deleted) -/
theorem loadLoop_repaired (fl : CompactFlags) (hnf : fl.missingOnlyNotFound = true) (F : Oracle)
    (w : World) (acc : LoadAcc) (l : List SegInfo)
    (hl : ∀ s ∈ l, ∃ ds, NMap.get w.store (segName s.id) = some (.segment ds)) :
    (loadLoop fl F w acc l).2.failed = true ∨
    ∃ sub, sub.Sublist l ∧ (NoReadCorruption F → sub = l) ∧
      (loadLoop fl F w acc l).2.actually = acc.actually ++ sub ∧
      (loadLoop fl F w acc l).2.ktd = (segDeltas w.store sub).foldl (keepStep fl.mergeInsteadOfLatest) acc.ktd := by
  induction l generalizing w acc with
  | nil => exact Or.inr ⟨[], List.Sublist.refl _, fun _ => rfl, by simp [loadLoop], by simp [loadLoop, segDeltas]⟩
  | cons s rest ih =>
    unfold loadLoop
    split
    · rename_i hf
      exact Or.inl hf
    · obtain ⟨ds0, hds0⟩ := hl s (by simp)
      have hgs := get_store F w (segName s.id)
      split
      · rename_i w1 ds heq
        have hds : ds = ds0 := by
          rcases get_ok heq with hg | ⟨ht, _⟩
          · rw [hds0] at hg; cases hg; rfl
          · cases ht
        subst hds
        rw [heq] at hgs
        have hgs' : w1.store = w.store := hgs
        have hl' : ∀ t ∈ rest, ∃ ds, NMap.get w1.store (segName t.id) = some (.segment ds) := by
          intro t ht
          rw [hgs']
          exact hl t (by simp [ht])
        rcases ih w1 _ hl' with h | ⟨sub, hsub, hfull, h1, h2⟩
        · exact Or.inl h
        · refine Or.inr ⟨s :: sub, hsub.cons₂ s, fun hF => by rw [hfull hF], by rw [h1]; simp, ?_⟩
          rw [h2]
          simp only [segDeltas, List.flatMap_cons, hds0, List.foldl_append, hgs']
      · -- a body that does not parse (a read corruption: the stored object is a segment)
        rename_i w1 o hne heq
        rw [heq] at hgs
        have hgs' : w1.store = w.store := hgs
        have hl' : ∀ t ∈ rest, ∃ ds, NMap.get w1.store (segName t.id) = some (.segment ds) := by
          intro t ht
          rw [hgs']
          exact hl t (by simp [ht])
        rcases ih w1 acc hl' with h | ⟨sub, hsub, hfull, h1, h2⟩
        · exact Or.inl h
        · refine Or.inr ⟨sub, hsub.cons s, ?_, h1, by rw [h2, hgs']⟩
          intro hF
          have := get_ok_clean hF heq
          rw [hds0] at this
          cases this
          exact absurd rfl (hne ds0)
      · rename_i w1 nf heq
        cases nf with
        | true =>
          have := get_notFound heq
          rw [hds0] at this
          cases this
        | false =>
          simp only [hnf, Bool.not_false, Bool.and_self, if_true]
          exact Or.inl (by first | rfl | trivial)

theorem goodAcc_repaired (fl : CompactFlags) (hm : fl.mergeInsteadOfLatest = true)
    (hnf : fl.missingOnlyNotFound = true) (F : Oracle) (cfg : CompactCfg) (hgc : cfg.cutoff = 0)
    (w : World) (hinv : StoreInv w.store) :
    ∀ w1 m, loadOrCreate F w 0 = (w1, some m) →
      (loadLoop fl F w1 LoadAcc.init (selectSegments cfg m)).2.failed = false →
      GoodAcc w.store cfg (loadLoop fl F w1 LoadAcc.init (selectSegments cfg m)).2 := by
  intro w1 m hl hfail
  have hst1 : w1.store = w.store := by
    have := loadOrCreate_store F w 0
    rw [hl] at this
    exact this
  have hback := backed_of_load hinv hl
  have hsel : ∀ s ∈ selectSegments cfg m, ∃ ds, NMap.get w1.store (segName s.id) = some (.segment ds) := by
    intro s hs
    rw [hst1]
    exact (hback.1 s (mem_selectSegments hs)).2
  rcases loadLoop_repaired fl hnf F w1 LoadAcc.init (selectSegments cfg m) hsel with h | ⟨sub, _, _, h1, h2⟩
  · rw [h] at hfail; cases hfail
  · unfold GoodAcc
    rw [keptOf_noGC hgc, h1, h2, hm, foldl_keepStep_merge, hst1]
    simp [LoadAcc.init, foldState]

/-! ### fault-free runs of the code that exists -/

/-- the oracle without faults -/
def allOk : Oracle := fun _ => .ok

theorem get_allOk {w : World} (hd : w.dead = false) {n : Nat} {o : Obj}
    (h : NMap.get w.store n = some o) : w.get allOk n = (w.tick, .ok o) := by
  unfold World.get
  simp [hd, allOk, h]

theorem get_allOk_none {w : World} (hd : w.dead = false) {n : Nat}
    (h : NMap.get w.store n = none) : w.get allOk n = (w.tick, .err true) := by
  unfold World.get
  simp [hd, allOk, h]

theorem loadOrCreate_allOk {w : World} (hd : w.dead = false) (hinv : StoreInv w.store) :
    loadOrCreate allOk w 0 = (w.tick, some (manifestOf w.store 0)) := by
  unfold loadOrCreate manifestOf
  rcases hinv with h | ⟨m, h, _⟩
  · rw [get_allOk_none hd h, h]
  · rw [get_allOk hd h, h]

/-- the selected segments' deltas, in the order the compactor reads them -/
def selDeltas (st : Store) (cfg : CompactCfg) : List Delta :=
  segDeltas st (selectSegments cfg (manifestOf st 0))

theorem loadLoop_allOk (fl : CompactFlags) (w : World) (hd : w.dead = false) (acc : LoadAcc)
    (hf : acc.failed = false) (l : List SegInfo)
    (hl : ∀ s ∈ l, ∃ ds, NMap.get w.store (segName s.id) = some (.segment ds)) :
    (loadLoop fl allOk w acc l).2.actually = acc.actually ++ l ∧
    (loadLoop fl allOk w acc l).2.ktd = (segDeltas w.store l).foldl (keepStep fl.mergeInsteadOfLatest) acc.ktd := by
  induction l generalizing w acc with
  | nil => exact ⟨by simp [loadLoop], by simp [loadLoop, segDeltas]⟩
  | cons s rest ih =>
    obtain ⟨ds0, hds0⟩ := hl s (by simp)
    unfold loadLoop
    rw [get_allOk hd hds0]
    simp only [hf, Bool.false_eq_true, if_false]
    have hl' : ∀ t ∈ rest, ∃ ds, NMap.get w.tick.store (segName t.id) = some (.segment ds) :=
      fun t ht => hl t (by simp [ht])
    obtain ⟨h1, h2⟩ := ih w.tick (by simpa [World.tick] using hd)
      { ktd := ds0.foldl (keepStep fl.mergeInsteadOfLatest) acc.ktd, before := acc.before + ds0.length,
        actually := acc.actually ++ [s], missing := acc.missing, failed := false } rfl hl'
    refine ⟨by rw [h1]; simp, ?_⟩
    rw [h2]
    simp only [segDeltas, List.flatMap_cons, hds0, List.foldl_append, World.tick]

/-- decidable: on the deltas this compaction selects, keeping the latest by outer time gives
    the same per-key survivors as merging them -/
def KeepLatestAgreesWithMerge (st : Store) (cfg : CompactCfg) : Prop :=
  (selDeltas st cfg).foldl (keepStep false) [] = foldState (selDeltas st cfg)

instance (st : Store) (cfg : CompactCfg) : Decidable (KeepLatestAgreesWithMerge st cfg) := by
  unfold KeepLatestAgreesWithMerge; infer_instance

/-- decidable: no tombstone among the survivors is below the cutoff -/
def NoTombstoneDropped (st : Store) (cfg : CompactCfg) : Prop :=
  keptOf cfg (foldState (selDeltas st cfg)) = foldState (selDeltas st cfg)

instance (st : Store) (cfg : CompactCfg) : Decidable (NoTombstoneDropped st cfg) := by
  unfold NoTombstoneDropped; infer_instance

theorem goodAcc_pinned (cfg : CompactCfg) (w : World) (hd : w.dead = false) (hinv : StoreInv w.store)
    (hk : KeepLatestAgreesWithMerge w.store cfg) (hn : NoTombstoneDropped w.store cfg) :
    ∀ w1 m, loadOrCreate allOk w 0 = (w1, some m) →
      (loadLoop pinnedFlags allOk w1 LoadAcc.init (selectSegments cfg m)).2.failed = false →
      GoodAcc w.store cfg (loadLoop pinnedFlags allOk w1 LoadAcc.init (selectSegments cfg m)).2 := by
  intro w1 m hl _
  rw [loadOrCreate_allOk hd hinv] at hl
  cases hl
  have hback : Backed w.store (manifestOf w.store 0) :=
    backed_of_load hinv (loadOrCreate_allOk hd hinv)
  have hsel : ∀ s ∈ selectSegments cfg (manifestOf w.store 0),
      ∃ ds, NMap.get w.tick.store (segName s.id) = some (.segment ds) :=
    fun s hs => (hback.1 s (mem_selectSegments hs)).2
  obtain ⟨h1, h2⟩ := loadLoop_allOk pinnedFlags w.tick (by simpa [World.tick] using hd) LoadAcc.init rfl _ hsel
  unfold GoodAcc
  rw [h1, h2]
  simp only [LoadAcc.init, List.nil_append, pinnedFlags, World.tick]
  unfold KeepLatestAgreesWithMerge selDeltas at hk
  unfold NoTombstoneDropped selDeltas at hn
  rw [hk, hn]

/-! ### tombstone GC -/

def dropped (cfg : CompactCfg) (v : RV) : Bool := v.isTombstone && v.ts.time < cfg.cutoff

theorem mem_keptOf {cfg : CompactCfg} {ktd : NMap RV} {p : Nat × RV} :
    p ∈ keptOf cfg ktd ↔ p ∈ ktd ∧ dropped cfg p.2 = false := by
  unfold keptOf dropped
  rw [List.mem_filter]
  cases h1 : p.2.isTombstone <;> cases h2 : decide (p.2.ts.time < cfg.cutoff) <;> simp [h1, h2]

/-- decidable: every tombstone this compaction would drop belongs to a key that occurs in no
    listed segment outside the compaction -/
def GcSafe (st : Store) (cfg : CompactCfg) : Prop :=
  ∀ p ∈ foldState (selDeltas st cfg), dropped cfg p.2 = true →
    ∀ q ∈ segDeltas st (removeIds (manifestOf st 0) ((selectSegments cfg (manifestOf st 0)).map (·.id))),
      q.1 ≠ p.1

instance (st : Store) (cfg : CompactCfg) : Decidable (GcSafe st cfg) := by
  unfold GcSafe; infer_instance

theorem selectSegments_congr {cfg : CompactCfg} {m m' : Manifest} (h : m.segments = m'.segments) :
    selectSegments cfg m = selectSegments cfg m' := by
  unfold selectSegments; rw [h]

theorem removeIds_congr {m m' : Manifest} (h : m.segments = m'.segments) (ids : List Nat) :
    removeIds m ids = removeIds m' ids := by
  unfold removeIds; rw [h]

/-- **tombstone GC of the repaired compactor is safe under `GcSafe`**, for every oracle: key by
    key the folded content is unchanged, except that a key whose merged value is a tombstone below
    the cutoff may have disappeared. -/
theorem compact_gc_safe (c : Carrier) (fl : CompactFlags) (hm : fl.mergeInsteadOfLatest = true)
    (hnf : fl.missingOnlyNotFound = true) (F : Oracle) (hF : NoReadCorruption F) (cfg : CompactCfg) (sz : Nat)
    (w : World) (hinv : StoreInv w.store) (hcar : InCar c (content w.store)) (hsafe : GcSafe w.store cfg) (k : Nat) :
    NMap.get (foldState (content (compactWith fl F cfg sz w).1.store)) k = NMap.get (foldState (content w.store)) k ∨
    (NMap.get (foldState (content (compactWith fl F cfg sz w).1.store)) k = none ∧
      ∃ T, NMap.get (foldState (content w.store)) k = some T ∧ dropped cfg T = true) := by
  rcases (compact_spec fl F cfg sz w hinv).2 with h | ⟨w1, m, hl, hnfail, hcont⟩
  · rw [h]; exact Or.inl rfl
  · have hst1 : w1.store = w.store := by
      have := loadOrCreate_store F w 0
      rw [hl] at this
      exact this
    have hback := backed_of_load hinv hl
    have hsegs := segments_of_load hl
    have hselp : ∀ s ∈ selectSegments cfg m, ∃ ds, NMap.get w1.store (segName s.id) = some (.segment ds) := by
      intro s hs
      rw [hst1]
      exact (hback.1 s (mem_selectSegments hs)).2
    rcases loadLoop_repaired fl hnf F w1 LoadAcc.init (selectSegments cfg m) hselp with h | ⟨sub, _, hfull, h1, h2⟩
    · rw [h] at hnfail; cases hnfail
    · rw [hfull hF] at h1 h2
      rw [h1, h2, hm, foldl_keepStep_merge, hst1] at hcont
      simp only [LoadAcc.init, List.nil_append] at hcont
      have hsel : selectSegments cfg m = selectSegments cfg (manifestOf w.store 0) :=
        selectSegments_congr hsegs.symm
      have hrem : removeIds m ((selectSegments cfg m).map (·.id)) =
          removeIds (manifestOf w.store 0) ((selectSegments cfg (manifestOf w.store 0)).map (·.id)) := by
        rw [hsel]; exact removeIds_congr hsegs.symm _
      have hB : applyAll [] (segDeltas w.store (selectSegments cfg m)) = foldState (selDeltas w.store cfg) := by
        unfold selDeltas foldState; rw [hsel]
      rw [hB, hrem] at hcont
      unfold GcSafe at hsafe
      generalize hBl : selDeltas w.store cfg = B at hcont hsafe
      generalize hRl : segDeltas w.store (removeIds (manifestOf w.store 0)
        ((selectSegments cfg (manifestOf w.store 0)).map (·.id))) = R at hcont hsafe
      -- the listed content is (as a set) B ∪ R
      have hcw : ∀ d, d ∈ content w.store ↔ d ∈ B ∨ d ∈ R := by
        intro d
        unfold content
        rw [← hBl, ← hRl]
        unfold selDeltas
        constructor
        · intro hd
          obtain ⟨s, hs, ds, hgs, hds⟩ := mem_segDeltas.mp hd
          by_cases hid : s.id ∈ (selectSegments cfg (manifestOf w.store 0)).map (·.id)
          · left
            obtain ⟨t, ht, hte⟩ := List.mem_map.mp hid
            exact mem_segDeltas.mpr ⟨t, ht, ds, by rw [hte]; exact hgs, hds⟩
          · right
            exact mem_segDeltas.mpr ⟨s, mem_removeIds.mpr ⟨hs, hid⟩, ds, hgs, hds⟩
        · rintro (hd | hd)
          · obtain ⟨s, hs, r⟩ := mem_segDeltas.mp hd
            exact mem_segDeltas.mpr ⟨s, mem_selectSegments hs, r⟩
          · obtain ⟨s, hs, r⟩ := mem_segDeltas.mp hd
            exact mem_segDeltas.mpr ⟨s, (mem_removeIds.mp hs).1, r⟩
      have hBsub : ∀ d ∈ B, d ∈ content w.store := fun d hd => (hcw d).mpr (Or.inl hd)
      have hcarB : InCar c B := fun p hp => hcar p (hBsub p hp)
      rw [get_foldState, get_foldState]
      -- is key k dropped?
      cases hfk : fold1 RV.merge (vals k B) with
      | none =>
        -- no selected delta for k: both sides see exactly the values in R
        left
        have hBk : vals k B = [] := by
          cases hv : vals k B with
          | nil => rfl
          | cons x _ => rw [hv] at hfk; simp [fold1] at hfk
        apply fold1_eq_of_same_set (c.aci k)
        · intro y hy
          have hy' := mem_vals.mp hy
          rcases (hcont (k, y)).mp hy' with h | h
          · have := mem_foldState_iff.mp (mem_keptOf.mp h).1
            rw [hfk] at this; cases this
          · exact inCar_vals hcar k y (mem_vals.mpr ((hcw _).mpr (Or.inr h)))
        · intro y
          rw [mem_vals, mem_vals]
          constructor
          · intro hy
            rcases (hcont (k, y)).mp hy with h | h
            · have := mem_foldState_iff.mp (mem_keptOf.mp h).1
              rw [hfk] at this; cases this
            · exact (hcw _).mpr (Or.inr h)
          · intro hy
            rcases (hcw _).mp hy with h | h
            · have : y ∈ vals k B := mem_vals.mpr h
              rw [hBk] at this; cases this
            · exact (hcont _).mpr (Or.inr h)
      | some T =>
        have hTmem : (k, T) ∈ foldState B := mem_foldState_iff.mpr hfk
        cases hdT : dropped cfg T with
        | true =>
          right
          have hnoR : ∀ q ∈ R, q.1 ≠ k := fun q hq => hsafe (k, T) hTmem hdT q hq
          have hempty : vals k (content (compactWith fl F cfg sz w).1.store) = [] := by
            cases hv : vals k (content (compactWith fl F cfg sz w).1.store) with
            | nil => rfl
            | cons y _ =>
              have hy : (k, y) ∈ content (compactWith fl F cfg sz w).1.store := mem_vals.mp (by rw [hv]; simp)
              rcases (hcont (k, y)).mp hy with h | h
              · obtain ⟨hmem, hnd⟩ := mem_keptOf.mp h
                have := mem_foldState_iff.mp hmem
                rw [hfk] at this
                cases this
                rw [hdT] at hnd; cases hnd
              · exact absurd rfl (hnoR _ h)
          refine ⟨by rw [hempty]; rfl, T, ?_, hdT⟩
          rw [← hfk]
          apply fold1_eq_of_same_set (c.aci k) (inCar_vals hcar k)
          intro y
          rw [mem_vals, mem_vals]
          constructor
          · intro hy
            rcases (hcw _).mp hy with h | h
            · exact h
            · exact absurd rfl (hnoR _ h)
          · exact fun hy => hBsub _ hy
        | false =>
          left
          apply fold1_replace (c.aci k) (B := vals k B) (inCar_vals hcar k)
          · intro y hy
            exact mem_vals.mpr (hBsub _ (mem_vals.mp hy))
          · intro y hy
            rcases (hcont (k, y)).mp (mem_vals.mp hy) with h | h
            · exact Or.inr (mem_foldState_iff.mp (mem_keptOf.mp h).1)
            · exact Or.inl (mem_vals.mpr ((hcw _).mpr (Or.inr h)))
          · intro y hy
            rcases (hcw _).mp (mem_vals.mp hy) with h | h
            · refine Or.inr ⟨mem_vals.mpr h, T, hfk, ?_⟩
              exact mem_vals.mpr ((hcont _).mpr (Or.inl (mem_keptOf.mpr ⟨hTmem, hdT⟩)))
            · exact Or.inl (mem_vals.mpr ((hcont _).mpr (Or.inr h)))

/-! ### the selection rule: oldest-first prefix of the candidates -/

theorem insertBy_sorted {α : Type} (key : α → Nat) (x : α) {l : List α}
    (h : l.Pairwise (fun a b => key a ≤ key b)) : (insertBy key x l).Pairwise (fun a b => key a ≤ key b) := by
  induction l with
  | nil => simp [insertBy]
  | cons y l ih =>
    have ⟨hy, hl⟩ := List.pairwise_cons.mp h
    simp only [insertBy]
    split
    · rename_i hlt
      apply List.pairwise_cons.mpr
      refine ⟨?_, ih hl⟩
      intro z hz
      rcases (mem_insertBy key x z l).mp hz with h1 | h1
      · rw [h1]; omega
      · exact hy z h1
    · rename_i hge
      apply List.pairwise_cons.mpr
      refine ⟨?_, h⟩
      intro z hz
      cases hz with
      | head => omega
      | tail _ hz' => have := hy z hz'; omega

theorem sortBy_sorted {α : Type} (key : α → Nat) (l : List α) :
    (sortBy key l).Pairwise (fun a b => key a ≤ key b) := by
  induction l with
  | nil => exact List.Pairwise.nil
  | cons x l ih => exact insertBy_sorted key x ih

/-- the candidates of a pass: segments below the size target -/
def candidates (cfg : CompactCfg) (m : Manifest) : List SegInfo := m.segments.filter (fun s => s.size < cfg.target)

/-- **the documented selection rule**: a listed segment that a pass does not select is either not
    a candidate (size ≥ target) or at least as new as every selected segment (it was cut off by
    `max_segments_per_compaction`): a pass takes an oldest-first prefix of the candidates -/
theorem unselected_is_noncandidate_or_newer (cfg : CompactCfg) (m : Manifest) {s : SegInfo}
    (hs : s ∈ m.segments) (hns : s ∉ selectSegments cfg m) :
    cfg.target ≤ s.size ∨ ∀ t ∈ selectSegments cfg m, t.id ≤ s.id := by
  by_cases hc : s.size < cfg.target
  · right
    unfold selectSegments at hns ⊢
    generalize hL : sortBy (·.id) (m.segments.filter (fun s => s.size < cfg.target)) = L at hns ⊢
    have hsL : s ∈ L := by
      rw [← hL, mem_sortBy]
      exact List.mem_filter.mpr ⟨hs, by simpa using hc⟩
    have hsorted : L.Pairwise (fun a b => a.id ≤ b.id) := by rw [← hL]; exact sortBy_sorted _ _
    have hsplit := List.take_append_drop cfg.maxPer L
    rw [← hsplit] at hsL hsorted
    have hdrop : s ∈ L.drop cfg.maxPer := by
      rcases List.mem_append.mp hsL with h | h
      · exact absurd h hns
      · exact h
    intro t ht
    exact (List.pairwise_append.mp hsorted).2.2 t ht s hdrop
  · left; omega

/-- hence whatever survives outside a pass lives in a non-candidate segment or in a segment
    strictly newer than every compacted one -/
theorem outside_pass_is_noncandidate_or_newer {st : Store} {cfg : CompactCfg} {m : Manifest} {q : Delta}
    (hq : q ∈ segDeltas st (removeIds m ((selectSegments cfg m).map (·.id)))) :
    ∃ s ∈ m.segments, (cfg.target ≤ s.size ∨ ∀ t ∈ selectSegments cfg m, t.id < s.id) ∧
      ∃ ds, NMap.get st (segName s.id) = some (.segment ds) ∧ q ∈ ds := by
  obtain ⟨s, hs, ds, hg, hd⟩ := mem_segDeltas.mp hq
  obtain ⟨hsm, hid⟩ := mem_removeIds.mp hs
  have hns : s ∉ selectSegments cfg m := fun h => hid (List.mem_map.mpr ⟨s, h, rfl⟩)
  refine ⟨s, hsm, ?_, ds, hg, hd⟩
  rcases unselected_is_noncandidate_or_newer cfg m hsm hns with h | h
  · exact Or.inl h
  · right
    intro t ht
    have hle := h t ht
    have hne : t.id ≠ s.id := fun he => hid (List.mem_map.mpr ⟨t, ht, he⟩)
    omega

end Stream
end RedisVerif
