import RedisVerif.Model.Wal

/-! Helper lemmas about the WAL model (codec, reader loop, header, truncation). -/
namespace RedisVerif.Wal

theorem le_length (k v : Nat) : (le k v).length = k := by
  induction k generalizing v with
  | zero => rfl
  | succ k ih => simp [le, ih]

theorem leVal_le (k v : Nat) (h : v < 256 ^ k) : leVal (le k v) = v := by
  induction k generalizing v with
  | zero => simp at h; subst h; rfl
  | succ k ih =>
    simp only [le, leVal]
    have : v / 256 < 256 ^ k := by
      rw [Nat.div_lt_iff_lt_mul (by decide)]; rw [Nat.pow_succ] at h; exact h
    rw [ih _ this]; omega

/-- a `k`-byte little-endian field holds a value below `256^k` -/
theorem leVal_lt (bs : Bytes) (hb : ∀ b ∈ bs, b < 256) : leVal bs < 256 ^ bs.length := by
  induction bs with
  | nil => simp [leVal]
  | cons b bs ih =>
    have h0 := hb b (by simp)
    have h1 := ih (fun x hx => hb x (by simp [hx]))
    simp only [leVal, List.length_cons, Nat.pow_succ]
    omega

theorem encode_length (e : Entry) : e.encode.length = overhead + e.data.length := by
  simp [Entry.encode, le_length, overhead]; omega

/-- the three header fields of anything that starts with 16 well-formed header bytes -/
theorem hdr_fields (n t c : Nat) (rest : Bytes) :
    let bs := le 4 n ++ (le 8 t ++ (le 4 c ++ rest))
    bs.take 4 = le 4 n ∧ (bs.drop 4).take 8 = le 8 t ∧ (bs.drop 12).take 4 = le 4 c ∧
      bs.drop 16 = rest ∧ bs.length = 16 + rest.length := by
  intro bs
  have h4 : (le 4 n).length = 4 := le_length _ _
  have h8 : (le 8 t).length = 8 := le_length _ _
  have h4c : (le 4 c).length = 4 := le_length _ _
  have d4 : bs.drop 4 = le 8 t ++ (le 4 c ++ rest) := List.drop_left' h4
  have d12 : bs.drop 12 = le 4 c ++ rest := by
    have : bs.drop 12 = (bs.drop 4).drop 8 := by rw [List.drop_drop]
    rw [this, d4]; exact List.drop_left' h8
  have d16 : bs.drop 16 = rest := by
    have : bs.drop 16 = (bs.drop 12).drop 4 := by rw [List.drop_drop]
    rw [this, d12]; exact List.drop_left' h4c
  refine ⟨List.take_left' h4, ?_, ?_, d16, ?_⟩
  · rw [d4]; exact List.take_left' h8
  · rw [d12]; exact List.take_left' h4c
  · simp [bs, h4, h8, h4c]; omega

/-- `decode` on bytes that start with a complete, in-range entry header -/
theorem decode_hdr (fmt : Format) (crc : Bytes → Nat) (n t c : Nat) (body : Bytes)
    (hn : n < 2 ^ 32) (ht : t < 2 ^ 64) (hc : c < 2 ^ 32) :
    decode fmt crc (le 4 n ++ (le 8 t ++ (le 4 c ++ body))) =
      if fmt = .v2 ∧ n = 0 then none
      else if body.length < n then none
      else if crc (covered fmt n t (body.take n)) = c
        then some (⟨body.take n, t, c⟩, overhead + n) else none := by
  obtain ⟨f1, f2, f3, f4, f5⟩ := hdr_fields n t c body
  unfold decode
  simp only [f1, f2, f3, f4, f5, overhead]
  rw [leVal_le 4 _ (by simpa using hn), leVal_le 8 _ (by simpa using ht), leVal_le 4 _ (by simpa using hc)]
  rw [if_neg (by omega)]
  by_cases hz : fmt = .v2 ∧ n = 0
  · rw [if_pos hz, if_pos hz]
  · rw [if_neg hz, if_neg hz]
    by_cases h : body.length < n
    · rw [if_pos (by omega), if_pos h]
    · rw [if_neg (by omega), if_neg h]

/-- an entry as `from_delta` makes them: fits the field widths, carries the checksum of what
    the format covers, and (v2) is not empty -/
def Entry.Good (fmt : Format) (crc : Bytes → Nat) (e : Entry) : Prop :=
  e.Fits ∧ e.Valid fmt crc ∧ (fmt = .v2 → e.data.length ≠ 0)

instance (fmt : Format) (crc : Bytes → Nat) : DecidablePred (Entry.Good fmt crc) := fun e => by
  unfold Entry.Good; infer_instance

theorem decode_encode (fmt : Format) (crc : Bytes → Nat) (e : Entry) (rest : Bytes)
    (hg : e.Good fmt crc) :
    decode fmt crc (e.encode ++ rest) = some (e, e.size) := by
  obtain ⟨⟨hl, ht, hc⟩, hv, hne⟩ := hg
  have heq : e.encode ++ rest = le 4 e.data.length ++ (le 8 e.ts ++ (le 4 e.crc ++ (e.data ++ rest))) := by
    simp [Entry.encode]
  rw [heq, decode_hdr fmt crc _ _ _ _ hl ht hc, if_neg (fun h => hne h.1 h.2), if_neg (by simp),
    List.take_left' rfl]
  unfold Entry.Valid at hv
  rw [if_pos hv]; rfl

/-- a torn entry (any proper prefix of an encoding) never decodes -/
theorem decode_torn (fmt : Format) (crc : Bytes → Nat) (e : Entry) (k : Nat) (hf : e.Fits)
    (hk : k < e.encode.length) : decode fmt crc (e.encode.take k) = none := by
  obtain ⟨hl, ht, hc⟩ := hf
  by_cases h16 : k < 16
  · unfold decode
    rw [if_pos (by simp [overhead]; omega)]
  · have hk' : k < 16 + e.data.length := by rw [encode_length] at hk; simpa [overhead] using hk
    have : e.encode.take k = le 4 e.data.length ++ (le 8 e.ts ++ (le 4 e.crc ++ e.data.take (k - 16))) := by
      unfold Entry.encode
      rw [List.take_append, List.take_of_length_le (by rw [le_length]; omega), le_length]
      rw [List.take_append, List.take_of_length_le (by rw [le_length]; omega), le_length]
      rw [List.take_append, List.take_of_length_le (by rw [le_length]; omega), le_length]
      congr 4
    rw [this, decode_hdr fmt crc _ _ _ _ hl ht hc]
    split
    · rfl
    · rw [if_pos (by rw [List.length_take]; omega)]

/-! ## the reader loop -/

def AllOk (fmt : Format) (crc : Bytes → Nat) (es : List Entry) : Prop := ∀ e ∈ es, e.Good fmt crc

instance (fmt : Format) (crc : Bytes → Nat) (es : List Entry) : Decidable (AllOk fmt crc es) := by
  unfold AllOk; infer_instance

theorem encs_nil : encs [] = [] := rfl
theorem encs_cons (e : Entry) (es : List Entry) : encs (e :: es) = e.encode ++ encs es := rfl
theorem encs_append (a b : List Entry) : encs (a ++ b) = encs a ++ encs b := by
  simp [encs]

theorem decode_size_pos {fmt : Format} {crc : Bytes → Nat} {bs : Bytes} {e : Entry} {n : Nat}
    (h : decode fmt crc bs = some (e, n)) : overhead ≤ n ∧ n ≤ bs.length := by
  unfold decode at h
  split at h
  · cases h
  · simp only at h
    split at h
    · cases h
    · split at h
      · cases h
      · split at h
        · cases h; constructor <;> omega
        · cases h

/-- enough fuel = any amount ≥ the number of bytes -/
theorem entriesAux_fuel (fmt : Format) (crc : Bytes → Nat) (f : Nat) (bs : Bytes) (h : bs.length ≤ f) :
    entriesAux fmt crc f bs = entriesAux fmt crc bs.length bs := by
  induction f using Nat.strongRecOn generalizing bs with
  | _ f ih =>
    cases f with
    | zero =>
      have : bs.length = 0 := by omega
      rw [this]
    | succ f =>
      cases hb : bs.length with
      | zero =>
        have hnil : bs = [] := List.length_eq_zero_iff.mp hb
        subst hnil
        simp [entriesAux, decode, overhead]
      | succ m =>
        simp only [entriesAux]
        cases hd : decode fmt crc bs with
        | none => rfl
        | some p =>
          obtain ⟨e, n⟩ := p
          have ⟨h1, h2⟩ := decode_size_pos hd
          simp only
          have hl : (bs.drop n).length ≤ m := by rw [List.length_drop]; unfold overhead at h1; omega
          rw [ih f (by omega) _ (by omega), ih m (by omega) _ hl]

theorem entries_step (fmt : Format) (crc : Bytes → Nat) (bs : Bytes) :
    entries fmt crc bs =
      match decode fmt crc bs with
      | none => []
      | some (e, n) => e :: entries fmt crc (bs.drop n) := by
  unfold entries
  cases hb : bs.length with
  | zero =>
    have hnil : bs = [] := List.length_eq_zero_iff.mp hb
    subst hnil
    simp [entriesAux, decode, overhead]
  | succ m =>
    simp only [entriesAux]
    cases hd : decode fmt crc bs with
    | none => rfl
    | some p =>
      obtain ⟨e, n⟩ := p
      have ⟨h1, h2⟩ := decode_size_pos hd
      simp only
      rw [entriesAux_fuel fmt crc m _ (by rw [List.length_drop]; unfold overhead at h1; omega)]

/-- intact entries are all read; reading then continues on what follows -/
theorem entries_encs_append (fmt : Format) (crc : Bytes → Nat) (es : List Entry) (tail : Bytes)
    (hok : AllOk fmt crc es) : entries fmt crc (encs es ++ tail) = es ++ entries fmt crc tail := by
  induction es with
  | nil => simp [encs]
  | cons e es ih =>
    have he := hok e (by simp)
    rw [encs_cons, List.append_assoc, entries_step, decode_encode fmt crc e _ he]
    simp only
    rw [Entry.size, ← encode_length, List.drop_left' rfl, ih (fun x hx => hok x (by simp [hx]))]
    rfl

theorem entries_of_decode_none (fmt : Format) (crc : Bytes → Nat) (bs : Bytes) (h : decode fmt crc bs = none) :
    entries fmt crc bs = [] := by
  rw [entries_step, h]

theorem entries_encs (fmt : Format) (crc : Bytes → Nat) (es : List Entry) (hok : AllOk fmt crc es) :
    entries fmt crc (encs es) = es := by
  have := entries_encs_append fmt crc es [] hok
  simpa [entries_of_decode_none fmt crc [] (by simp [decode, overhead])] using this


/-- every prefix of a sequence of intact entries reads as a prefix of the entries -/
theorem entries_take_encs (fmt : Format) (crc : Bytes → Nat) (es : List Entry) (hok : AllOk fmt crc es) (n : Nat) :
    ∃ k, entries fmt crc ((encs es).take n) = es.take k := by
  induction es generalizing n with
  | nil => exact ⟨0, by simp [encs, entries_of_decode_none fmt crc [] (by simp [decode, overhead])]⟩
  | cons e es ih =>
    have he := hok e (by simp)
    rw [encs_cons, List.take_append]
    by_cases hn : n < e.encode.length
    · refine ⟨0, ?_⟩
      have h0 : n - e.encode.length = 0 := by omega
      rw [h0, List.take_zero, List.append_nil,
        entries_of_decode_none fmt crc _ (decode_torn fmt crc e n he.1 hn)]
      rfl
    · obtain ⟨k, hk⟩ := ih (fun x hx => hok x (by simp [hx])) (n - e.encode.length)
      refine ⟨k + 1, ?_⟩
      rw [List.take_of_length_le (by omega), entries_step, decode_encode fmt crc e _ he]
      simp only
      rw [Entry.size, ← encode_length, List.drop_left' rfl, hk]
      rfl

/-! ## file header -/

theorem header_length (fmt : Format) (seq : Nat) : (header fmt seq).length = overhead := by
  simp [header, magic, le_length, overhead]

theorem openFile_header (fmt : Format) (seq : Nat) (rest : Bytes) (hs : seq < 2 ^ 64) :
    openFile fmt (header fmt seq ++ rest) = some seq := by
  unfold openFile
  have hl : (header fmt seq ++ rest).length = 16 + rest.length := by
    rw [List.length_append, header_length, overhead]
  rw [if_neg (by rw [hl]; unfold overhead; omega)]
  have h1 : (header fmt seq ++ rest).take 4 = magic := by
    unfold header; rw [List.append_assoc]; exact List.take_left' rfl
  have h2 : ((header fmt seq ++ rest).drop 4).head? = some fmt.version := by
    unfold header; rw [List.append_assoc, List.drop_left' (by rfl)]; rfl
  have h3 : ((header fmt seq ++ rest).drop 8).take 8 = le 8 seq := by
    have : header fmt seq ++ rest = (magic ++ [fmt.version, 0, 0, 0]) ++ (le 8 seq ++ rest) := by
      simp [header]
    rw [this, List.drop_left' (by rfl)]
    exact List.take_left' (le_length _ _)
  rw [if_neg (by rw [h1]; simp), if_neg (by rw [h2]; simp), h3, leVal_le 8 _ (by simpa using hs)]

theorem openFile_short (fmt : Format) (bs : Bytes) (h : bs.length < overhead) : openFile fmt bs = none := by
  unfold openFile; rw [if_pos h]

theorem fileEntries_image (fmt : Format) (crc : Bytes → Nat) (seq : Nat) (tail : Bytes)
    (hs : seq < 2 ^ 64) :
    fileEntries fmt crc (header fmt seq ++ tail) = entries fmt crc tail := by
  unfold fileEntries readFile
  rw [openFile_header fmt seq _ hs]
  simp only
  rw [← header_length fmt seq, List.drop_left' rfl]

theorem fileEntries_fileImage (fmt : Format) (crc : Bytes → Nat) (seq : Nat) (es : List Entry)
    (hs : seq < 2 ^ 64) (hok : AllOk fmt crc es) : fileEntries fmt crc (fileImage fmt seq es) = es := by
  unfold fileImage
  rw [fileEntries_image fmt crc seq _ hs, entries_encs fmt crc es hok]

theorem fileEntries_take (fmt : Format) (crc : Bytes → Nat) (seq : Nat) (es : List Entry)
    (hs : seq < 2 ^ 64) (hok : AllOk fmt crc es) (n : Nat) :
    ∃ k, fileEntries fmt crc ((fileImage fmt seq es).take n) = es.take k := by
  by_cases hn : n < overhead
  · refine ⟨0, ?_⟩
    unfold fileEntries readFile
    rw [openFile_short fmt _ (by rw [List.length_take]; omega)]
    rfl
  · unfold fileImage
    rw [List.take_append, List.take_of_length_le (by rw [header_length]; omega),
      fileEntries_image fmt crc seq _ hs, header_length]
    exact entries_take_encs fmt crc es hok _

/-! ## truncation -/

theorem le_maxTs {es : List Entry} {e : Entry} (h : e ∈ es) : e.ts ≤ maxTs es := by
  induction es with
  | nil => cases h
  | cons x xs ih =>
    simp only [maxTs, List.foldr_cons]
    rcases List.mem_cons.mp h with rfl | h'
    · exact Nat.le_max_left _ _
    · exact Nat.le_trans (ih h') (Nat.le_max_right _ _)

/-- a file that `truncate_before(T)` may delete contributes no entry stamped later than `T` -/
theorem deletable_filter (fmt : Format) (crc : Bytes → Nat) (T : Nat) (bs : Bytes)
    (h : deletable fmt crc T bs = true) :
    (fileEntries fmt crc bs).filter (fun e => decide (T < e.ts)) = [] := by
  unfold deletable at h
  unfold fileEntries
  cases hr : readFile fmt crc bs with
  | none => rfl
  | some es =>
    rw [hr] at h
    simp only [Bool.or_eq_true, List.isEmpty_iff, decide_eq_true_eq] at h
    rcases h with h | h
    · subst h; rfl
    · simp only
      rw [List.filter_eq_nil_iff]
      intro e he
      have := le_maxTs he
      simp only [decide_eq_true_eq]
      omega

theorem recoverAll_cons (fmt : Format) (crc : Bytes → Nat) (p : Nat × Bytes) (img : Image) :
    recoverAll fmt crc (p :: img) = fileEntries fmt crc p.2 ++ recoverAll fmt crc img := rfl

theorem recoverAll_append (fmt : Format) (crc : Bytes → Nat) (a b : Image) :
    recoverAll fmt crc (a ++ b) = recoverAll fmt crc a ++ recoverAll fmt crc b := by
  simp [recoverAll]

/-! ## names: listing order vs sequence order -/

theorem hexChar_lt {a b : Nat} (ha : a < 16) (hb : b < 16) : (hexChar a < hexChar b ↔ a < b) ∧ (hexChar a = hexChar b ↔ a = b) := by
  unfold hexChar
  constructor <;> constructor <;> intro h <;> split at * <;> split at * <;> omega

theorem nameLt_irrefl (s : Name) : nameLt s s = false := by
  induction s with
  | nil => rfl
  | cons a s ih => simp [nameLt, ih]

theorem lt_iff_div_mod (a b m : Nat) (hm : 0 < m) :
    a < b ↔ a / m < b / m ∨ (a / m = b / m ∧ a % m < b % m) := by
  have ha := Nat.div_add_mod a m
  have hb := Nat.div_add_mod b m
  have hra := Nat.mod_lt a hm
  have hrb := Nat.mod_lt b hm
  constructor
  · intro h
    by_cases hq : a / m < b / m
    · exact Or.inl hq
    · right
      have hqe : a / m = b / m := by
        apply Nat.le_antisymm
        · exact Nat.div_le_div_right (Nat.le_of_lt h)
        · omega
      refine ⟨hqe, ?_⟩
      rw [hqe] at ha
      omega
  · rintro (h | ⟨h1, h2⟩)
    · have := Nat.mul_le_mul_left m (Nat.succ_le_of_lt h)
      rw [Nat.mul_succ] at this
      omega
    · rw [h1] at ha; omega

theorem nameLt_hexW (w a b : Nat) (ha : a < 16 ^ w) (hb : b < 16 ^ w) :
    nameLt (hexW w a) (hexW w b) = decide (a < b) := by
  induction w generalizing a b with
  | zero => simp at ha hb; subst ha; subst hb; rfl
  | succ w ih =>
    have hm : 0 < 16 ^ w := Nat.pow_pos (by decide)
    have hqa : a / 16 ^ w < 16 := by
      rw [Nat.div_lt_iff_lt_mul hm]; rw [Nat.pow_succ] at ha; omega
    have hqb : b / 16 ^ w < 16 := by
      rw [Nat.div_lt_iff_lt_mul hm]; rw [Nat.pow_succ] at hb; omega
    simp only [hexW, nameLt, Nat.mod_eq_of_lt hqa, Nat.mod_eq_of_lt hqb]
    rw [ih _ _ (Nat.mod_lt a hm) (Nat.mod_lt b hm)]
    have hc := hexChar_lt hqa hqb
    have key := lt_iff_div_mod a b (16 ^ w) hm
    by_cases h1 : a / 16 ^ w < b / 16 ^ w
    · have : a < b := key.mpr (Or.inl h1)
      simp [hc.1.mpr h1, this]
    · by_cases h2 : a / 16 ^ w = b / 16 ^ w
      · have heq : hexChar (a / 16 ^ w) = hexChar (b / 16 ^ w) := hc.2.mpr h2
        simp only [heq, Nat.lt_irrefl, decide_false, Bool.false_or, beq_self_eq_true, Bool.true_and]
        by_cases h3 : a % 16 ^ w < b % 16 ^ w
        · simp [h3, key.mpr (Or.inr ⟨h2, h3⟩)]
        · have : ¬ a < b := fun h => by
            rcases key.mp h with h | h
            · exact h1 h
            · exact h3 h.2
          simp [h3, this]
      · have hne : ¬ hexChar (a / 16 ^ w) < hexChar (b / 16 ^ w) := fun h => h1 (hc.1.mp h)
        have hne2 : ¬ hexChar (a / 16 ^ w) = hexChar (b / 16 ^ w) := fun h => h2 (hc.2.mp h)
        have : ¬ a < b := fun h => by
          rcases key.mp h with h | h
          · exact h1 h
          · exact h2 h.1
        simp [hne, hne2, this]

theorem nameLt_append_left (p x y : Name) : nameLt (p ++ x) (p ++ y) = nameLt x y := by
  induction p with
  | nil => rfl
  | cons a p ih => simp [nameLt, ih]

theorem nameLt_append_right (x y s : Name) (hl : x.length = y.length) :
    nameLt (x ++ s) (y ++ s) = nameLt x y := by
  induction x generalizing y with
  | nil =>
    cases y with
    | nil => simp [nameLt_irrefl, nameLt]
    | cons b y => simp at hl
  | cons a x ih =>
    cases y with
    | nil => simp at hl
    | cons b y =>
      simp only [List.length_cons, Nat.add_right_cancel_iff] at hl
      simp only [List.cons_append, nameLt, ih y hl]

theorem hexW_length (w n : Nat) : (hexW w n).length = w := by
  induction w generalizing n with
  | zero => rfl
  | succ w ih => simp [hexW, ih]

/-- below 2^32 every name has exactly 8 digits -/
theorem walName_small (a : Nat) (ha : a < 2 ^ 32) : walName a = walPrefix ++ (hexW 8 a ++ walSuffix) := by
  unfold walName
  have : Nat.max 8 (hexDigits a) = 8 := by
    unfold hexDigits
    split
    · rfl
    · rename_i h0
      have := (Nat.log2_lt h0 (k := 32)).mpr ha
      apply Nat.max_eq_left
      omega
  rw [this]

/-! ## directories -/

theorem mem_insertBySeq (x y : Nat × Bytes) (l : List (Nat × Bytes)) :
    y ∈ insertBySeq x l ↔ y = x ∨ y ∈ l := by
  induction l with
  | nil => simp [insertBySeq]
  | cons z zs ih =>
    simp only [insertBySeq]
    split
    · simp
    · simp only [List.mem_cons, ih]
      constructor
      · rintro (h | h | h)
        · exact Or.inr (Or.inl h)
        · exact Or.inl h
        · exact Or.inr (Or.inr h)
      · rintro (h | h | h)
        · exact Or.inr (Or.inl h)
        · exact Or.inl h
        · exact Or.inr (Or.inr h)

theorem mem_sortBySeq (y : Nat × Bytes) (l : List (Nat × Bytes)) : y ∈ sortBySeq l ↔ y ∈ l := by
  unfold sortBySeq
  induction l with
  | nil => simp
  | cons x xs ih => simp only [List.foldr_cons, mem_insertBySeq, ih, List.mem_cons]

/-- what recovery returns from a directory: the entries of the files whose name parses -/
theorem mem_recoverAllD (fmt : Format) (crc : Bytes → Nat) (dir : Dir) (e : Entry) :
    e ∈ recoverAllD fmt crc dir ↔
      ∃ p ∈ dir, (parseSeq p.1).isSome ∧ e ∈ fileEntries fmt crc p.2 := by
  unfold recoverAllD recoverAll
  rw [List.mem_flatMap]
  constructor
  · rintro ⟨q, hq, he⟩
    rw [mem_sortBySeq] at hq
    unfold walFiles at hq
    rw [List.mem_filterMap] at hq
    obtain ⟨p, hp, hpq⟩ := hq
    cases hs : parseSeq p.1 with
    | none => rw [hs] at hpq; cases hpq
    | some s =>
      rw [hs] at hpq
      simp only [Option.map_some, Option.some.injEq] at hpq
      subst hpq
      exact ⟨p, hp, by rw [hs]; rfl, he⟩
  · rintro ⟨p, hp, hs, he⟩
    cases hs' : parseSeq p.1 with
    | none => rw [hs'] at hs; cases hs
    | some s =>
      refine ⟨(s, p.2), ?_, he⟩
      rw [mem_sortBySeq]
      unfold walFiles
      rw [List.mem_filterMap]
      exact ⟨p, hp, by rw [hs']; rfl⟩

end RedisVerif.Wal
