import RedisVerif.Lemmas.RegsUnique
import RedisVerif.Props.C08

/-!
An OUTER stamp identifies one CRDT kind per key anywhere in a cluster.

`RegsUnique` proves that a (key, slot, stamp) triple identifies one LWW register; what
`C07.TieConsistent` needs on top of that for values of DIFFERENT kinds (`SET k` on one replica,
`HSET k` on another) is that two values of one key with different kinds never carry the same outer
stamp.  That is an invariant of every execution of the cluster whose hash writes obey the code's
own precondition (`record_hash_write`: `debug_assert!(!fields.is_empty())`): an empty field list
would re-label the stored value as a hash under its old outer stamp
(`C07.empty_hwrite_breaks_tie`).

The invariant talks about (outer stamp, kind) PAIRS of the deltas issued for a key; every stored
value carries the pair of some issued delta (a merge never invents a pair: `merge_pair`).
-/
namespace RedisVerif

/-- the precondition of `record_hash_write` (`debug_assert!(!fields.is_empty())`; the command
    layer rejects `HSET key` without a field/value pair before it gets there) -/
def LOp.Valid : LOp → Bool
  | .hwrite _ fs => !fs.isEmpty
  | _ => true

def Ev.Valid : Ev → Bool
  | .loc _ op => op.Valid
  | .deliver _ _ => true

/-- the (outer stamp, kind) pair of a merge is the pair of one of its operands -/
theorem RV.merge_pair (a b : RV) :
    ((RV.merge a b).ts, (RV.merge a b).crdt.kind) = (a.ts, a.crdt.kind) ∨
    ((RV.merge a b).ts, (RV.merge a b).crdt.kind) = (b.ts, b.crdt.kind) := by
  simp only [RV.merge, RV.mergeWith, RV.stampMerge, Stamp.max, Crdt.mergeWithTimestamps]
  cases hlt : a.ts.lt b.ts
  · left
    cases hm : Crdt.tryMerge a.crdt b.crdt with
    | none => simp
    | some m => simp [(kind_tryMerge hm).2]
  · right
    cases hm : Crdt.tryMerge a.crdt b.crdt with
    | none => simp
    | some m =>
      have := kind_tryMerge hm
      simp [this.2, this.1]

namespace Shard

/-- what a local step does to the outer stamp of the value it stores and emits -/
theorem local_outer (s : Shard) (op : LOp) (d : RV) (hv : op.Valid = true)
    (hd : (step s op.toOp).2 = some d) :
    (NMap.get s.keys op.key = some d ∧ (step s op.toOp).1.clock = s.clock) ∨
    (d.ts = (step s op.toOp).1.clock ∧ s.clock.time < d.ts.time) ∨
    (d.ts = s.clock ∧ (step s op.toOp).1.clock = s.clock ∧
      ∃ old, NMap.get s.keys op.key = some old ∧ old.crdt.kind = d.crdt.kind) := by
  cases op with
  | write k v e =>
    simp only [LOp.toOp, step] at hd
    have hd' := Option.some.inj hd
    subst hd'
    right; left
    simp [LOp.toOp, step, recordWrite]
  | delete k =>
    simp only [LOp.toOp, step, LOp.key] at hd ⊢
    cases hg : NMap.get s.keys k with
    | none => rw [recordDelete_none hg] at hd; simp at hd
    | some rv =>
      by_cases hc0 : rv.crdt.kind = 0
      · obtain ⟨r, hr⟩ := kind_lww hc0
        rw [recordDelete_lww hg hr] at hd ⊢
        have hd' := Option.some.inj hd
        subst hd'
        right; left
        simp
      · by_cases hc5 : rv.crdt.kind = 5
        · obtain ⟨m, hm⟩ := kind_hash hc5
          rw [recordDelete_hash hg hm] at hd ⊢
          have hd' := Option.some.inj hd
          subst hd'
          right; left
          simp [delHashValue]
        · rw [recordDelete_other hg hc0 hc5] at hd ⊢
          have hd' := Option.some.inj hd
          subst hd'
          left
          exact ⟨rfl, rfl⟩
  | hwrite k fs =>
    simp only [LOp.toOp, step, LOp.key] at hd ⊢
    have hd' := Option.some.inj hd
    subst hd'
    have hne : fs.isEmpty = false := by simpa [LOp.Valid] using hv
    have hc := C08.hwrite_clock s k fs
    have hlen : 0 < fs.length := by
      cases fs with
      | nil => simp at hne
      | cons _ _ => simp
    right; left
    refine ⟨hc.2.2 hne, ?_⟩
    rw [hc.2.2 hne]
    omega
  | hdelete k fs =>
    simp only [LOp.toOp, step, LOp.key] at hd ⊢
    cases hg : NMap.get s.keys k with
    | none => rw [recordHashDelete_none hg] at hd; simp at hd
    | some rv =>
      by_cases hc5 : rv.crdt.kind = 5
      · obtain ⟨m, hm⟩ := kind_hash hc5
        rw [recordHashDelete_hash hg hm] at hd ⊢
        have hd' := Option.some.inj hd
        subst hd'
        cases hfs : fs.isEmpty
        · -- at least one field named: the outer stamp is the (possibly unticked) clock
          have hfc := hashDel_fold_clock fs s.clock m
          by_cases hlt : s.clock.time < (fs.foldl hashDelStep (s.clock, m)).1.time
          · right; left
            simp only [hdelValue, hfs]
            exact ⟨by simp, by simpa using hlt⟩
          · right; right
            have heq : (fs.foldl hashDelStep (s.clock, m)).1 = s.clock := by
              have h1 : (fs.foldl hashDelStep (s.clock, m)).1.time = s.clock.time := by omega
              have h2 := hfc.2.2
              cases hx : (fs.foldl hashDelStep (s.clock, m)).1
              cases hy : s.clock
              rw [hx, hy] at h1 h2
              simp at h1 h2
              rw [h1, h2]
            simp only [hdelValue, hfs]
            refine ⟨by simpa using heq, heq, rv, rfl, ?_⟩
            simp only [Crdt.kind]
            exact hc5
        · -- no field named: the stored value is emitted unchanged
          left
          have hnil : fs = [] := by cases fs <;> simp_all
          subst hnil
          refine ⟨?_, by simp⟩
          simp only [hdelValue, List.foldl_nil, List.isEmpty_nil, if_true]
          congr 1
          cases rv
          simp_all
      · rw [recordHashDelete_other hg hc5] at hd; simp at hd

end Shard

namespace Cluster

/-- `p` is the (outer stamp, kind) pair of a delta issued for key `k` -/
def SentPair (c : Cluster) (k : Nat) (p : Stamp × Nat) : Prop :=
  ∃ m ∈ c.sent, m.key = k ∧ (m.val.ts, m.val.crdt.kind) = p

structure OInv (c : Cluster) : Prop where
  /-- every stored value carries the pair of an issued delta of its key -/
  stored : ∀ (i : Nat) (s : Shard), c.nodes[i]? = some s → ∀ k v, NMap.get s.keys k = some v →
    SentPair c k (v.ts, v.crdt.kind)
  /-- per key, an outer stamp identifies one kind -/
  func : ∀ k p q, SentPair c k p → SentPair c k q → p.1 = q.1 → p.2 = q.2
  /-- no outer stamp of a node lies in that node's future -/
  own : ∀ (i : Nat) (s : Shard), c.nodes[i]? = some s → ∀ k p, SentPair c k p →
    p.1.rid = s.rid → p.1.time ≤ s.clock.time
  /-- a delta stamped with a node's CURRENT clock value has the kind that node stores -/
  cur : ∀ (i : Nat) (s : Shard), c.nodes[i]? = some s → ∀ k p, SentPair c k p →
    p.1 = s.clock → ∃ w, NMap.get s.keys k = some w ∧ w.crdt.kind = p.2

theorem OInv_init (n : Nat) (causal : Bool) : OInv (init n causal) where
  stored := by
    intro i s hs k v hg
    simp only [init, List.getElem?_map] at hs
    cases hr : (List.range n)[i]? with
    | none => simp [hr] at hs
    | some x =>
      simp [hr] at hs
      subst hs
      simp [Shard.init] at hg
  func := by intro k p q hp; obtain ⟨m, hm, _⟩ := hp; simp [init] at hm
  own := by intro i s _ k p hp; obtain ⟨m, hm, _⟩ := hp; simp [init] at hm
  cur := by intro i s _ k p hp; obtain ⟨m, hm, _⟩ := hp; simp [init] at hm

theorem OInv_step_deliver {c : Cluster} (hr : RInv c) (h : OInv c) (j idx : Nat) :
    OInv (c.step (.deliver j idx)) := by
  cases hs : c.nodes[j]? with
  | none => simp only [step, hs]; exact h
  | some s =>
    cases hm : c.sent[idx]? with
    | none => simp only [step, hs, hm]; exact h
    | some m =>
      have hstep : c.step (.deliver j idx) =
          { c with
            nodes := c.nodes.set j (Shard.applyRemote s m.key m.val)
            log := c.log ++ [⟨j, m.key, m.val⟩] } := by
        simp only [step, hs, hm]
      rw [hstep]
      have hmmem : m ∈ c.sent := List.mem_of_getElem? hm
      have hjlt : j < c.nodes.length := (List.getElem?_eq_some_iff.mp hs).1
      -- the sent list is unchanged, so `SentPair` is
      have hsp : ∀ k p, SentPair ({ c with
            nodes := c.nodes.set j (Shard.applyRemote s m.key m.val)
            log := c.log ++ [⟨j, m.key, m.val⟩] } : Cluster) k p ↔ SentPair c k p := by
        intro k p; exact Iff.rfl
      refine ⟨?_, ?_, ?_, ?_⟩
      · intro i s' hs' k v hg
        rw [hsp]
        by_cases hij : i = j
        · subst hij
          rw [List.getElem?_set_self hjlt] at hs'
          cases hs'
          simp only [Shard.applyRemote] at hg
          rw [NMap.get_insert] at hg
          by_cases hk : k = m.key
          · simp only [hk, if_true] at hg
            have hv := Option.some.inj hg
            subst hv
            rw [hk]
            cases hl : NMap.get s.keys m.key with
            | none => exact ⟨m, hmmem, rfl, rfl⟩
            | some l =>
              simp only
              rcases RV.merge_pair l m.val with h1 | h1
              · rw [h1]; exact h.stored i s hs m.key l hl
              · rw [h1]; exact ⟨m, hmmem, rfl, rfl⟩
          · simp only [hk, if_false] at hg
            exact h.stored i s hs k v hg
        · rw [List.getElem?_set_ne (Ne.symm hij)] at hs'
          exact h.stored i s' hs' k v hg
      · intro k p q hp hq
        exact h.func k p q hp hq
      · intro i s' hs' k p hp hrid
        by_cases hij : i = j
        · subst hij
          rw [List.getElem?_set_self hjlt] at hs'
          cases hs'
          have := h.own i s hs k p hp (by simpa [Shard.applyRemote] using hrid)
          simp only [Shard.applyRemote, Stamp.update_time]
          have := Nat.le_max_left s.clock.time m.val.ts.time
          omega
        · rw [List.getElem?_set_ne (Ne.symm hij)] at hs'
          exact h.own i s' hs' k p hp hrid
      · intro i s' hs' k p hp hclk
        by_cases hij : i = j
        · subst hij
          rw [List.getElem?_set_self hjlt] at hs'
          cases hs'
          exfalso
          have hrid : p.1.rid = s.rid := by
            rw [hclk]; simp [Shard.applyRemote, (hr.rids i s hs).2]
          have h1 := h.own i s hs k p hp hrid
          have h2 : p.1.time = (Shard.applyRemote s m.key m.val).clock.time := by rw [hclk]
          simp only [Shard.applyRemote, Stamp.update_time] at h2
          have := Nat.le_max_left s.clock.time m.val.ts.time
          omega
        · rw [List.getElem?_set_ne (Ne.symm hij)] at hs'
          exact h.cur i s' hs' k p hp hclk

theorem OInv_step_loc {c : Cluster} (hr : RInv c) (h : OInv c) (i : Nat) (op : LOp)
    (hv : op.Valid = true) : OInv (c.step (.loc i op)) := by
  cases hs : c.nodes[i]? with
  | none => simp only [step, hs]; exact h
  | some s =>
    have hilt : i < c.nodes.length := (List.getElem?_eq_some_iff.mp hs).1
    have hrid := hr.rids i s hs
    have hmono := C08.clock_monotone s op.toOp
    cases hd : (Shard.step s op.toOp).2 with
    | none =>
      have hstep : c.step (.loc i op) =
          Cluster.mk (c.nodes.set i (Shard.step s op.toOp).1) c.sent c.log := by
        simp only [step, hs, hd]
      rw [hstep, Shard.local_none s op hd]
      have : c.nodes.set i s = c.nodes := by
        apply List.ext_getElem?
        intro n
        by_cases hn : n = i
        · subst hn; rw [List.getElem?_set_self hilt, hs]
        · rw [List.getElem?_set_ne (Ne.symm hn)]
      rw [this]
      exact h
    | some d =>
      have hstep : c.step (.loc i op) =
          Cluster.mk (c.nodes.set i (Shard.step s op.toOp).1) (c.sent ++ [⟨i, op.key, d⟩])
            (c.log ++ [⟨i, op.key, d⟩]) := by
        simp only [step, hs, hd]
      rw [hstep]
      have hget := Shard.local_get s op d hd
      have hout := Shard.local_outer s op d hv hd
      -- classification of the pairs of the new cluster
      have hcls : ∀ k p, SentPair (Cluster.mk (c.nodes.set i (Shard.step s op.toOp).1)
            (c.sent ++ [⟨i, op.key, d⟩]) (c.log ++ [⟨i, op.key, d⟩])) k p →
          SentPair c k p ∨ (k = op.key ∧ p = (d.ts, d.crdt.kind)) := by
        intro k p hp
        obtain ⟨m, hm, hk, hpm⟩ := hp
        rcases List.mem_append.mp hm with h1 | h1
        · exact Or.inl ⟨m, h1, hk, hpm⟩
        · simp only [List.mem_singleton] at h1
          subst h1
          exact Or.inr ⟨hk.symm, hpm.symm⟩
      have hold : ∀ k p, SentPair c k p → SentPair (Cluster.mk (c.nodes.set i (Shard.step s op.toOp).1)
            (c.sent ++ [⟨i, op.key, d⟩]) (c.log ++ [⟨i, op.key, d⟩])) k p := by
        intro k p hp
        obtain ⟨m, hm, hk, hpm⟩ := hp
        exact ⟨m, List.mem_append_left _ hm, hk, hpm⟩
      have hnew : SentPair (Cluster.mk (c.nodes.set i (Shard.step s op.toOp).1)
            (c.sent ++ [⟨i, op.key, d⟩]) (c.log ++ [⟨i, op.key, d⟩])) op.key (d.ts, d.crdt.kind) :=
        ⟨⟨i, op.key, d⟩, List.mem_append_right _ (List.mem_singleton.mpr rfl), rfl, rfl⟩
      -- the new pair against an old pair with the same stamp
      have hfresh : ∀ q, SentPair c op.key q → q.1 = d.ts → q.2 = d.crdt.kind := by
        intro q hq hts
        rcases hout with ⟨hA, _⟩ | ⟨hB1, hB2⟩ | ⟨hC1, _, old, hC3, hC4⟩
        · exact h.func op.key q (d.ts, d.crdt.kind) hq (h.stored i s hs op.key d hA) hts
        · exfalso
          have hq1 : q.1.rid = s.rid := by rw [hts, hB1, hmono.2, hrid.2]
          have := h.own i s hs op.key q hq hq1
          rw [hts] at this
          omega
        · obtain ⟨w, hw1, hw2⟩ := h.cur i s hs op.key q hq (by rw [hts, hC1])
          rw [hC3] at hw1
          cases hw1
          rw [← hw2, hC4]
      refine ⟨?_, ?_, ?_, ?_⟩
      · intro i' s' hs' k v hg
        by_cases hii : i' = i
        · subst hii
          rw [List.getElem?_set_self hilt] at hs'
          cases hs'
          by_cases hk : k = op.key
          · subst hk
            rw [hget] at hg
            cases hg
            exact hnew
          · rw [Shard.keys_step_other s op k hk] at hg
            exact hold k _ (h.stored i' s hs k v hg)
        · rw [List.getElem?_set_ne (Ne.symm hii)] at hs'
          exact hold k _ (h.stored i' s' hs' k v hg)
      · intro k p q hp hq hts
        rcases hcls k p hp with hp1 | ⟨hk1, hp1⟩ <;> rcases hcls k q hq with hq1 | ⟨hk2, hq1⟩
        · exact h.func k p q hp1 hq1 hts
        · subst hk2
          rw [hq1] at hts ⊢
          exact hfresh p hp1 hts
        · subst hk1
          rw [hp1] at hts ⊢
          exact (hfresh q hq1 hts.symm).symm
        · rw [hp1, hq1]
      · intro i' s' hs' k p hp hridp
        by_cases hii : i' = i
        · subst hii
          rw [List.getElem?_set_self hilt] at hs'
          cases hs'
          rcases hcls k p hp with hp1 | ⟨_, hp1⟩
          · have := h.own i' s hs k p hp1 (by rw [hridp, Shard.rid_step])
            omega
          · rw [hp1]
            simp only
            rcases hout with ⟨hA, hA2⟩ | ⟨hB1, _⟩ | ⟨hC1, hC2, _⟩
            · have hsp := h.stored i' s hs op.key d hA
              have := h.own i' s hs op.key _ hsp (by
                rw [hp1] at hridp; simpa [Shard.rid_step] using hridp)
              simp only at this
              omega
            · rw [hB1]; exact Nat.le_refl _
            · rw [hC1, hC2]; exact Nat.le_refl _
        · rw [List.getElem?_set_ne (Ne.symm hii)] at hs'
          rcases hcls k p hp with hp1 | ⟨_, hp1⟩
          · exact h.own i' s' hs' k p hp1 hridp
          · -- the new pair is stamped by node i (or is an old pair)
            rcases hout with ⟨hA, _⟩ | ⟨hB1, _⟩ | ⟨hC1, _, _⟩
            · have hsp := h.stored i s hs op.key d hA
              rw [hp1] at hridp ⊢
              exact h.own i' s' hs' op.key _ hsp hridp
            · exfalso
              have r1 := (hr.rids i' s' hs').1
              have : p.1.rid = i + 1 := by rw [hp1]; simp only; rw [hB1, hmono.2, hrid.2, hrid.1]
              rw [hridp, r1] at this
              omega
            · exfalso
              have r1 := (hr.rids i' s' hs').1
              have : p.1.rid = i + 1 := by rw [hp1]; simp only; rw [hC1, hrid.2, hrid.1]
              rw [hridp, r1] at this
              omega
      · intro i' s' hs' k p hp hclk
        by_cases hii : i' = i
        · subst hii
          rw [List.getElem?_set_self hilt] at hs'
          cases hs'
          rcases hcls k p hp with hp1 | ⟨hk1, hp1⟩
          · -- an old pair stamped with the new clock value: the clock did not move
            have hq1 : p.1.rid = s.rid := by rw [hclk, hmono.2, hrid.2]
            have hle := h.own i' s hs k p hp1 hq1
            have heq : (Shard.step s op.toOp).1.clock = s.clock := by
              have h1 : (Shard.step s op.toOp).1.clock.time = s.clock.time := by
                have : p.1.time = (Shard.step s op.toOp).1.clock.time := by rw [hclk]
                omega
              have h2 := hmono.2
              cases hx : (Shard.step s op.toOp).1.clock
              cases hy : s.clock
              rw [hx, hy] at h1 h2
              simp at h1 h2
              rw [h1, h2]
            obtain ⟨w, hw1, hw2⟩ := h.cur i' s hs k p hp1 (by rw [hclk, heq])
            by_cases hk : k = op.key
            · subst hk
              refine ⟨d, hget, ?_⟩
              rcases hout with ⟨hA, _⟩ | ⟨hB1, hB2⟩ | ⟨_, _, old, hC3, hC4⟩
              · rw [hA] at hw1; cases hw1; exact hw2
              · exfalso
                rw [hB1, heq] at hB2
                omega
              · rw [hC3] at hw1; cases hw1; rw [← hC4]; exact hw2
            · rw [Shard.keys_step_other s op k hk]
              exact ⟨w, hw1, hw2⟩
          · subst hk1
            exact ⟨d, hget, by rw [hp1]⟩
        · rw [List.getElem?_set_ne (Ne.symm hii)] at hs'
          rcases hcls k p hp with hp1 | ⟨hk1, hp1⟩
          · exact h.cur i' s' hs' k p hp1 hclk
          · rcases hout with ⟨hA, _⟩ | ⟨hB1, _⟩ | ⟨hC1, _, _⟩
            · have hsp := h.stored i s hs op.key d hA
              rw [hk1, hp1]
              rw [hp1] at hclk
              exact h.cur i' s' hs' op.key _ hsp hclk
            · exfalso
              have r1 := hr.rids i' s' hs'
              have : p.1.rid = i + 1 := by rw [hp1]; simp only; rw [hB1, hmono.2, hrid.2, hrid.1]
              rw [hclk, r1.2, r1.1] at this
              omega
            · exfalso
              have r1 := hr.rids i' s' hs'
              have : p.1.rid = i + 1 := by rw [hp1]; simp only; rw [hC1, hrid.2, hrid.1]
              rw [hclk, r1.2, r1.1] at this
              omega

theorem ROInv_run (c : Cluster) (evs : List Ev) (hr : RInv c) (h : OInv c)
    (hv : ∀ e ∈ evs, e.Valid = true) : RInv (c.run evs) ∧ OInv (c.run evs) := by
  induction evs generalizing c with
  | nil => exact ⟨hr, h⟩
  | cons e evs ih =>
    have hv' : ∀ e' ∈ evs, e'.Valid = true := fun e' he' => hv e' (List.mem_cons_of_mem _ he')
    have he := hv e List.mem_cons_self
    cases e with
    | loc i op =>
      exact ih (c.step (.loc i op)) (RInv_step_loc hr i op) (OInv_step_loc hr h i op he) hv'
    | deliver j idx =>
      exact ih (c.step (.deliver j idx)) (RInv_step_deliver hr j idx)
        (OInv_step_deliver hr h j idx) hv'

end Cluster
end RedisVerif
