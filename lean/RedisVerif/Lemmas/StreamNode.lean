import RedisVerif.Model.StreamNode
import RedisVerif.Lemmas.StreamActor
import RedisVerif.Props.C13Hist

/-
  Lemmas about M4c (`Model/StreamNode.lean`): what an event adds to `sent`, the list-level
  relation between accepted, confirmed and buffered updates, and the history invariant of a life
  (pipeline events + compaction passes) on top of `C13.HInv`.
-/
namespace RedisVerif
namespace StreamNode

open _root_.RedisVerif.Stream _root_.RedisVerif.StreamActor FoldACI

/-! ## `sent` only grows by the update of the event -/

theorem trySend_sent (cap : Nat) (a : A) (m : Msg) : (trySend cap a m).1.sent = a.sent := by
  unfold trySend; split <;> rfl

theorem sendBatch_sent (cap : Nat) (a : A) (ds : List SDelta) : (sendBatch cap a ds).sent = a.sent := by
  unfold sendBatch
  split
  · rfl
  · have := trySend_sent cap a (.pushDeltas ds)
    split <;> rename_i heq <;> rw [heq] at this <;> exact this

theorem handle_sent (F : Oracle) (cfg : WbCfg) (sz : Nat) (a : A) (m : Msg) :
    (handle F cfg sz a m).sent = a.sent := by
  cases m with
  | pushDelta e =>
    simp only [handle]
    split <;> rw [(maybeFlush_spec F cfg sz _).2.2.2.1]
  | pushDeltas ds => simp only [handle]; rw [(maybeFlush_spec F cfg sz _).2.2.2.1]
  | flush => simp only [handle]; rw [(doFlush_spec F sz a).2.2.2.1]
  | tick => simp only [handle]; rw [(maybeFlush_spec F cfg sz a).2.2.2.1]
  | shutdown => simp only [handle]; rw [(doFlush_spec F sz a).2.2.2.1]

/-- the update a pipeline event hands in -/
def evDelta : Ev → List Delta
  | .send d => [d.1]
  | .reqPush d => [d.1]
  | _ => []

theorem sent_step (F : Oracle) (cfg : WbCfg) (cap : Nat) (a : A) (ev : Ev) :
    (StreamActor.step F cfg cap a ev).sent = a.sent ++ evDelta ev := by
  cases ev with
  | send e => simp only [StreamActor.step, evDelta]; split <;> rfl
  | drain =>
    simp only [StreamActor.step, evDelta, List.append_nil]
    split
    · rw [sendBatch_sent]
    · rfl
  | bridgeTick =>
    simp only [StreamActor.step, evDelta, List.append_nil]
    split
    · rw [trySend_sent]
    · rfl
  | stopBridge =>
    simp only [StreamActor.step, evDelta, List.append_nil]
    split
    · show (sendBatch cap { a with sink := [] } a.sink).sent = a.sent
      rw [sendBatch_sent]
    · rfl
  | reqPush e =>
    simp only [StreamActor.step, evDelta]
    have := trySend_sent cap { a with sent := a.sent ++ [e.1] } (.pushDelta e)
    split <;> rename_i heq <;> rw [heq] at this <;> exact this
  | reqFlush => simp only [StreamActor.step, evDelta, List.append_nil]; rw [trySend_sent]
  | reqShutdown => simp only [StreamActor.step, evDelta, List.append_nil]; rw [trySend_sent]
  | actor sz =>
    simp only [StreamActor.step, evDelta, List.append_nil]
    split
    · cases hm : a.mailbox with
      | nil => rfl
      | cons m rest => simp only; rw [handle_sent]
    · rfl
  | advance ms => simp [StreamActor.step, evDelta]

/-! ## accepted = confirmed ++ buffered, as lists (acceptance order) -/

/-- one operation of the current tree: the confirmed updates followed by the buffered ones grow
    exactly by the pushed update — a flush moves the whole buffer behind the confirmed ones or
    leaves both alone -/
theorem acked_buffer_step (F : Oracle) (s : Sys) (op : Op) :
    (stepWith current F s op).acked ++ (stepWith current F s op).p.buffer =
      s.acked ++ s.p.buffer ++ (match op.pushed? with | some d => [d] | none => []) := by
  cases op with
  | push d => simp [stepWith, push, Op.pushed?]
  | compact cfg sz => simp [stepWith, Op.pushed?]
  | flush sz =>
    have hb := (flushWith_true_buffer F sz s.w s.p).2
    simp only [stepWith, Op.pushed?, List.append_nil, current_restores]
    split
    · rename_i w' p' i n heq
      rw [heq] at hb
      simp only at hb
      simp [hb]
    · rename_i w' p' out hne heq
      rw [heq] at hb
      cases out with
      | flushed i n => exact absurd rfl (hne i n)
      | empty => simp only at hb; simp [hb.1]
      | error => simp only at hb; simp [hb]

theorem acked_buffer_run (F : Oracle) (s : Sys) (ops : List Op) :
    (Stream.run F s ops).acked ++ (Stream.run F s ops).p.buffer = s.acked ++ s.p.buffer ++ pushes ops := by
  induction ops generalizing s with
  | nil => simp [Stream.run, runWith, pushes]
  | cons o ops ih =>
    show (Stream.run F (stepWith current F s o) ops).acked ++ (Stream.run F (stepWith current F s o) ops).p.buffer = _
    rw [ih, acked_buffer_step]
    cases o <;> simp [pushes, Op.pushed?, List.filterMap_cons]

/-! ## the history invariant with a base: what earlier lives confirmed -/

/-- `C13.HInv` relative to the updates `base` confirmed by earlier processes -/
def HInvB (c : Carrier) (base : List Delta) (s : Sys) : Prop :=
  C13.HInv c { s with acked := base ++ s.acked }

theorem stepWith_acked_prefix (fl : Flags) (F : Oracle) (base : List Delta) (s : Sys) (op : Op) :
    stepWith fl F { s with acked := base ++ s.acked } op =
      { stepWith fl F s op with acked := base ++ (stepWith fl F s op).acked } := by
  cases op with
  | push d => rfl
  | compact cfg sz => rfl
  | flush sz =>
    simp only [stepWith]
    split <;> simp [List.append_assoc]

theorem hinvB_step (c : Carrier) (base : List Delta) (F : Oracle) (s : Sys) (op : Op)
    (hop : op.gcFree = true ∧ ∀ d, op.pushed? = some d → RVCarrier.Car (c.U d.1) (c.kd d.1) d.2)
    (h : HInvB c base s) : HInvB c base (stepWith current F s op) := by
  unfold HInvB at h ⊢
  rw [← stepWith_acked_prefix]
  exact C13.hinv_step c F _ op hop h

theorem hinvB_run (c : Carrier) (base : List Delta) (F : Oracle) (s : Sys) (ops : List Op)
    (hops : ∀ op ∈ ops, op.gcFree = true ∧ ∀ d, op.pushed? = some d → RVCarrier.Car (c.U d.1) (c.kd d.1) d.2)
    (h : HInvB c base s) : HInvB c base (Stream.run F s ops) :=
  TraceInv.run_inv_of (stepWith current F) (HInvB c base)
    (fun op => op.gcFree = true ∧ ∀ d, op.pushed? = some d → RVCarrier.Car (c.U d.1) (c.kd d.1) d.2)
    (fun s o ho hs => hinvB_step c base F s o ho hs) s h ops hops

/-- a `compact_if_needed` of the compaction worker keeps the invariant (no tombstone GC) -/
theorem hinvB_compactIfNeeded (c : Carrier) (base : List Delta) (F : Oracle) (cfg : CompactCfg) (maxSegs sz : Nat)
    (s : Sys) (hgc : cfg.cutoff = 0) (h : HInvB c base s) :
    HInvB c base { s with w := (compactIfNeeded F cfg maxSegs sz s.w).1 } := by
  unfold compactIfNeeded compactIfNeededWith
  have hs := C13.needsCompaction_store F maxSegs s.w
  cases hn : needsCompaction F maxSegs s.w with
  | mk w1 ob =>
    rw [hn] at hs
    simp only at hs
    have h1 : HInvB c base { s with w := w1 } := by
      unfold HInvB C13.HInv at h ⊢
      simpa [hs] using h
    cases ob with
    | none => exact h1
    | some b =>
      cases b with
      | false => exact h1
      | true =>
        have := hinvB_step c base F { s with w := w1 } (.compact cfg sz)
          ⟨by simp [Op.gcFree, hgc], by intro d hd; simp [Op.pushed?] at hd⟩ h1
        simpa [stepWith] using this

/-! ## the invariant of a life -/

/-- everything a process ever handed to its pipeline lives in the carrier; the books balance; the
    listed content folds to what earlier lives and this one confirmed; accepted = confirmed ++
    buffered in acceptance order -/
def J (c : Carrier) (base : List Delta) (a : A) : Prop :=
  Inv a ∧ HInvB c base (core a) ∧ (∀ d ∈ a.sent, RVCarrier.Car (c.U d.1) (c.kd d.1) d.2) ∧
  a.accepted = a.acked ++ a.x.p.buffer

theorem accepted_sub_sent {a : A} (h : Inv a) {d : Delta} (hd : d ∈ a.accepted) : d ∈ a.sent := by
  have h1 := h.1 d
  have h2 := h.2 d
  have : 0 < a.accepted.count d := List.count_pos_iff.mpr hd
  apply List.count_pos_iff.mp
  unfold ledger at h1
  omega

theorem j_pipe (c : Carrier) (base : List Delta) (F : Oracle) (cfg : WbCfg) (cap : Nat) (a : A) (ev : Ev)
    (hev : ∀ d ∈ evDelta ev, RVCarrier.Car (c.U d.1) (c.kd d.1) d.2) (h : J c base a) :
    J c base (StreamActor.step F cfg cap a ev) := by
  obtain ⟨hinv, hh, hsent, hacc⟩ := h
  have hinv' := inv_step F cfg cap a ev hinv
  have hsent' : ∀ d ∈ (StreamActor.step F cfg cap a ev).sent, RVCarrier.Car (c.U d.1) (c.kd d.1) d.2 := by
    intro d hd
    rw [sent_step] at hd
    rcases List.mem_append.mp hd with hd | hd
    · exact hsent d hd
    · exact hev d hd
  obtain ⟨ops, hno, hcore, hpush⟩ := core_step F cfg cap a ev
  refine ⟨hinv', ?_, hsent', ?_⟩
  · rw [hcore]
    apply hinvB_run c base F (core a) ops _ hh
    intro op hop
    refine ⟨?_, ?_⟩
    · have := hno op hop
      cases op with
      | compact cfg sz => simp [Op.isCompact] at this
      | push d => rfl
      | flush sz => rfl
    · intro d hd
      apply hsent' d
      apply accepted_sub_sent hinv'
      rw [hpush]
      exact List.mem_append.mpr (Or.inr (List.mem_filterMap.mpr ⟨op, hop, hd⟩))
  · have := acked_buffer_run F (core a) ops
    rw [← hcore] at this
    simp only [core] at this
    rw [hpush, this, hacc]

theorem j_step (c : Carrier) (base : List Delta) (F : Oracle) (cfg : WbCfg) (cap : Nat) (a : A) (ev : NEv)
    (hgc : ev.gcFree = true)
    (hev : ∀ d, ev.delta? = some d → RVCarrier.Car (c.U d.1) (c.kd d.1) d.2) (h : J c base a) :
    J c base (step F cfg cap a ev) := by
  cases ev with
  | pipe e =>
    apply j_pipe c base F cfg cap a e _ h
    intro d hd
    apply hev d
    cases e <;> simp [evDelta] at hd <;> simp [NEv.delta?, hd]
  | compactPass ccfg maxSegs sz =>
    obtain ⟨hinv, hh, hsent, hacc⟩ := h
    have hgc' : ccfg.cutoff = 0 := by simpa [NEv.gcFree] using hgc
    refine ⟨?_, ?_, hsent, hacc⟩
    · exact hinv
    · exact hinvB_compactIfNeeded c base F ccfg maxSegs sz (core a) hgc' hh

theorem j_run (c : Carrier) (base : List Delta) (F : Oracle) (cfg : WbCfg) (cap : Nat) (a : A) (evs : List NEv)
    (hevs : ∀ ev ∈ evs, ev.gcFree = true ∧ ∀ d, ev.delta? = some d → RVCarrier.Car (c.U d.1) (c.kd d.1) d.2)
    (h : J c base a) : J c base (run F cfg cap a evs) :=
  TraceInv.run_inv_of (step F cfg cap) (J c base)
    (fun ev => ev.gcFree = true ∧ ∀ d, ev.delta? = some d → RVCarrier.Car (c.U d.1) (c.kd d.1) d.2)
    (fun s e he hs => j_step c base F cfg cap s e he.1 he.2 hs) a h evs hevs

end StreamNode
end RedisVerif
