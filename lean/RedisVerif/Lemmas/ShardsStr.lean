import RedisVerif.Model.ShardsStr
import RedisVerif.Lemmas.Shards

/-! The small concrete executor satisfies the locality laws (`Exec.Local`). -/
namespace RedisVerif
namespace Shards
namespace Str

open NMap

theorem wf_put (s : St) (k : Key) (o : Option SVal) (h : WF s) : WF (put s k o) := by
  cases o with
  | none => exact wf_erase h
  | some v => exact wf_insert h

theorem get_put (s : St) (k : Key) (o : Option SVal) (h : WF s) (k' : Nat) :
    get (put s k o) k' = if k' = k then o else get s k' := by
  cases o with
  | none => exact get_erase h k'
  | some v => exact get_insert k'

theorem frame1 (s : St) (k : Key) (op : Op1) (k' : Nat) (h : WF s) (hk : k' ≠ k) :
    get (exec1 s k op).1 k' = get s k' := by
  show get (put s k _) k' = _
  rw [get_put s k _ h, if_neg hk]

theorem local1 (s s' : St) (k : Key) (op : Op1) (h : WF s) (h' : WF s') (he : get s k = get s' k) :
    (exec1 s k op).2 = (exec1 s' k op).2 ∧ get (exec1 s k op).1 k = get (exec1 s' k op).1 k := by
  show (slot1 op (get s k)).2 = (slot1 op (get s' k)).2 ∧
    get (put s k (slot1 op (get s k)).1) k = get (put s' k (slot1 op (get s' k)).1) k
  rw [get_put s k _ h, get_put s' k _ h', he]
  exact ⟨rfl, rfl⟩

theorem frame2 (s : St) (a b : Key) (op : Op2) (k' : Nat) (h : WF s) (ha : k' ≠ a) (hb : k' ≠ b) :
    get (exec2 s a b op).1 k' = get s k' := by
  show get (put (put s a _) b _) k' = _
  rw [get_put _ b _ (wf_put s a _ h), get_put s a _ h, if_neg hb, if_neg ha]

theorem local2 (s s' : St) (a b : Key) (op : Op2) (h : WF s) (h' : WF s')
    (hea : get s a = get s' a) (heb : get s b = get s' b) :
    (exec2 s a b op).2 = (exec2 s' a b op).2 ∧
    get (exec2 s a b op).1 a = get (exec2 s' a b op).1 a ∧
    get (exec2 s a b op).1 b = get (exec2 s' a b op).1 b := by
  unfold exec2
  simp only []
  rw [get_put _ b _ (wf_put s a _ h), get_put _ b _ (wf_put s' a _ h'),
    get_put _ b _ (wf_put s a _ h), get_put _ b _ (wf_put s' a _ h'),
    get_put s a _ h, get_put s' a _ h', hea, heb]
  exact ⟨rfl, rfl, by simp⟩

theorem exec_local : Str.exec.Local where
  wf1 := fun s k _ h => wf_put s k _ h
  frame1 := frame1
  local1 := local1
  wf2 := fun s a b _ h => wf_put _ b _ (wf_put s a _ h)
  frame2 := frame2
  local2 := local2

/-! ## the small executor's glob matcher IS the reference model's (`RedisX.globMatch`) -/

theorem classScanF_eq (c : Nat) (p : List Nat) : classScanF c p = RedisX.classScan c p := rfl

theorem globFuelF_eq (n : Nat) (p s : List Nat) : globFuelF n p s = RedisX.globFuel n p s := rfl

/-- `globB` (evaluated with every recursive call bound once) = `RedisX.globMatch` -/
theorem globB_eq (p k : List Nat) : globB p k = RedisX.globMatch p k := globFuelF_eq _ p k

end Str
end Shards
end RedisVerif
