import RedisVerif.Model.Txn
import RedisVerif.Lemmas.NMap

/-
  The concrete store of C05 (`KV`) command by command: every single-key command reads and writes
  only its key (frame + locality), and every command keeps the store canonical.  Used by
  `Props/C05Ext.lean` to discharge the independence hypothesis of
  `exec_serializable_of_independent` for clients that work on other keys.
-/
namespace RedisVerif
namespace KV

/-- the key of a single-key command; `none` for the key-less ones (PING, UNWATCH, unknown,
    connection-level) and for the fan-out commands (MSET / MGET / multi-key DEL: see `single`) -/
def keyOf : Cmd → Option Nat
  | .get k | .set k _ | .incr k | .append k _ | .del k | .rpush k _ | .lrange k | .llen k
  | .lset0 k _ | .lpop k | .hset k _ _ | .hdel k _ | .sadd k _ | .srem k _ | .zadd k _ _
  | .zrem k _ | .expire k | .persist k _ | .evict k => some k
  | _ => none

/-- not a fan-out command -/
def single : Cmd → Bool
  | .mset _ | .mget _ | .delm _ => false
  | _ => true

/-- frame: a single-key command leaves every other key alone -/
theorem exec_frame (s : Store) (hwf : NMap.WF s) (c : Cmd) (k k' : Nat) (hk : keyOf c = some k)
    (hne : k' ≠ k) : NMap.get (exec s c).1 k' = NMap.get s k' := by
  cases c <;> simp [keyOf] at hk <;> subst hk <;> simp only [exec, execWith] <;>
    (repeat' split) <;> simp [NMap.get_insert, NMap.get_erase hwf, hne]

/-- locality: what a single-key command answers, and what it leaves at its key, depends only on
    what was at its key -/
theorem exec_local (s s' : Store) (hwf : NMap.WF s) (hwf' : NMap.WF s') (c : Cmd) (k : Nat)
    (hk : keyOf c = some k) (hg : NMap.get s k = NMap.get s' k) :
    (exec s c).2 = (exec s' c).2 ∧ NMap.get (exec s c).1 k = NMap.get (exec s' c).1 k := by
  cases c <;> simp [keyOf] at hk <;> subst hk <;> simp only [exec, execWith] <;> (try rw [hg]) <;>
    (repeat' split) <;> simp_all [NMap.get_insert, NMap.get_erase hwf, NMap.get_erase hwf']

/-- a key-less single command does not touch the store and answers the same everywhere -/
theorem exec_keyless (s s' : Store) (c : Cmd) (hs : single c = true) (hk : keyOf c = none) :
    (exec s c).1 = s ∧ (exec s c).2 = (exec s' c).2 := by
  cases c <;> simp [keyOf, single] at hk hs <;> simp only [exec, execWith] <;>
    (repeat' split) <;> simp

theorem foldl_insert_wf (ps : List (Nat × Bytes)) : ∀ s : Store, NMap.WF s →
    NMap.WF (ps.foldl (fun s p => NMap.insert p.1 (.str p.2) s) s) := by
  induction ps with
  | nil => intro s h; exact h
  | cons p r ih => intro s h; exact ih _ (NMap.wf_insert h)

theorem foldl_erase_wf (ks : List Nat) : ∀ (a : Store × Int), NMap.WF a.1 →
    NMap.WF (ks.foldl (fun (a : Store × Int) k =>
      match NMap.get a.1 k with
      | some _ => (NMap.erase k a.1, a.2 + 1)
      | none => a) a).1 := by
  induction ks with
  | nil => intro a h; exact h
  | cons k r ih =>
    intro a h
    simp only [List.foldl_cons]
    apply ih
    split
    · exact NMap.wf_erase h
    · exact h

/-- every command keeps the store canonical -/
theorem exec_wf (s : Store) (hwf : NMap.WF s) (c : Cmd) : NMap.WF (exec s c).1 := by
  cases c
  case mset ps => exact foldl_insert_wf ps s hwf
  case delm ks => exact foldl_erase_wf ks (s, 0) hwf
  all_goals
    simp only [exec, execWith]
    (repeat' split) <;> simp_all [NMap.wf_insert, NMap.wf_erase]

end KV
end RedisVerif
