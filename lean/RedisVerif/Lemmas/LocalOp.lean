import RedisVerif.Lemmas.Absorb
import RedisVerif.Model.Cluster

/-! Facts about one local operation of a shard, as used by the cluster invariant (C06). -/
namespace RedisVerif
namespace Shard

/-- the value `record_hash_write` stores and emits -/
def hwriteValue (s : Shard) (k : Nat) (fs : List (Nat × Bytes)) : RV :=
  (recordHashWrite s k fs).2

theorem recordHashWrite_fst (s : Shard) (k : Nat) (fs : List (Nat × Bytes)) :
    (recordHashWrite s k fs).1 =
      { s with
        clock := (fs.foldl hashSetStep (s.clock,
          ((NMap.get s.keys k).getD { RV.new s.rid with crdt := .hash [] }).crdt.hashOf)).1
        keys := NMap.insert k (recordHashWrite s k fs).2 s.keys } := rfl

theorem recordWrite_fst (s : Shard) (k : Nat) (v : Bytes) (e : Option Nat) :
    (recordWrite s k v e).1 =
      { s with
        clock := s.clock.tick
        vclock := if s.causal then vcIncrement s.vclock s.rid else s.vclock
        keys := NMap.insert k (recordWrite s k v e).2 s.keys } := rfl

/-! ### shape of one local step -/

theorem local_none (s : Shard) (op : LOp) (h : (step s op.toOp).2 = none) :
    (step s op.toOp).1 = s := by
  cases op with
  | write k v e => simp [LOp.toOp, step] at h
  | hwrite k fs => simp [LOp.toOp, step] at h
  | delete k =>
    simp only [LOp.toOp, step] at h ⊢
    cases hg : NMap.get s.keys k with
    | none => rw [recordDelete_none hg]
    | some rv =>
      by_cases hc : rv.crdt.kind = 0
      · obtain ⟨r, hr⟩ := kind_lww hc
        rw [recordDelete_lww hg hr] at h; simp at h
      · by_cases hc5 : rv.crdt.kind = 5
        · obtain ⟨m, hm⟩ := kind_hash hc5
          rw [recordDelete_hash hg hm] at h; simp at h
        · rw [recordDelete_other hg hc hc5]
  | hdelete k fs =>
    simp only [LOp.toOp, step] at h ⊢
    cases hg : NMap.get s.keys k with
    | none => rw [recordHashDelete_none hg]
    | some rv =>
      by_cases hc : rv.crdt.kind = 5
      · obtain ⟨m, hm⟩ := kind_hash hc
        rw [recordHashDelete_hash hg hm] at h; simp at h
      · rw [recordHashDelete_other hg hc]

theorem local_get (s : Shard) (op : LOp) (d : RV) (h : (step s op.toOp).2 = some d) :
    NMap.get (step s op.toOp).1.keys op.key = some d := by
  cases op with
  | write k v e =>
    simp only [LOp.toOp, step, LOp.key] at h ⊢
    have hd := Option.some.inj h
    rw [recordWrite_fst, hd]
    simp only
    rw [NMap.get_insert]; simp
  | hwrite k fs =>
    simp only [LOp.toOp, step, LOp.key] at h ⊢
    have hd := Option.some.inj h
    rw [recordHashWrite_fst, hd]
    simp only
    rw [NMap.get_insert]; simp
  | delete k =>
    simp only [LOp.toOp, step, LOp.key] at h ⊢
    cases hg : NMap.get s.keys k with
    | none => rw [recordDelete_none hg] at h; simp at h
    | some rv =>
      by_cases hc : rv.crdt.kind = 0
      · obtain ⟨r, hr⟩ := kind_lww hc
        rw [recordDelete_lww hg hr] at h ⊢
        have hd := Option.some.inj h
        simp only
        rw [NMap.get_insert, hd]; simp
      · by_cases hc5 : rv.crdt.kind = 5
        · obtain ⟨m, hm⟩ := kind_hash hc5
          rw [recordDelete_hash hg hm] at h ⊢
          have hd := Option.some.inj h
          simp only
          rw [NMap.get_insert, hd]; simp
        · rw [recordDelete_other hg hc hc5] at h ⊢
          have hd := Option.some.inj h
          simp only
          rw [hg, hd]
  | hdelete k fs =>
    simp only [LOp.toOp, step, LOp.key] at h ⊢
    cases hg : NMap.get s.keys k with
    | none => rw [recordHashDelete_none hg] at h; simp at h
    | some rv =>
      by_cases hc : rv.crdt.kind = 5
      · obtain ⟨m, hm⟩ := kind_hash hc
        rw [recordHashDelete_hash hg hm] at h ⊢
        have hd := Option.some.inj h
        simp only
        rw [NMap.get_insert, hd]; simp
      · rw [recordHashDelete_other hg hc] at h; simp at h

theorem keys_step_other (s : Shard) (op : LOp) (k' : Nat) (hk : k' ≠ op.key) :
    NMap.get (step s op.toOp).1.keys k' = NMap.get s.keys k' := by
  cases op with
  | write k v e =>
    simp only [LOp.toOp, step, LOp.key] at hk ⊢
    rw [recordWrite_fst]; simp only
    rw [NMap.get_insert]; simp [hk]
  | hwrite k fs =>
    simp only [LOp.toOp, step, LOp.key] at hk ⊢
    rw [recordHashWrite_fst]; simp only
    rw [NMap.get_insert]; simp [hk]
  | delete k =>
    simp only [LOp.toOp, step, LOp.key] at hk ⊢
    cases hg : NMap.get s.keys k with
    | none => rw [recordDelete_none hg]
    | some rv =>
      by_cases hc : rv.crdt.kind = 0
      · obtain ⟨r, hr⟩ := kind_lww hc
        rw [recordDelete_lww hg hr]; simp only
        rw [NMap.get_insert]; simp [hk]
      · by_cases hc5 : rv.crdt.kind = 5
        · obtain ⟨m, hm⟩ := kind_hash hc5
          rw [recordDelete_hash hg hm]; simp only
          rw [NMap.get_insert]; simp [hk]
        · rw [recordDelete_other hg hc hc5]
  | hdelete k fs =>
    simp only [LOp.toOp, step, LOp.key] at hk ⊢
    cases hg : NMap.get s.keys k with
    | none => rw [recordHashDelete_none hg]
    | some rv =>
      by_cases hc : rv.crdt.kind = 5
      · obtain ⟨m, hm⟩ := kind_hash hc
        rw [recordHashDelete_hash hg hm]; simp only
        rw [NMap.get_insert]; simp [hk]
      · rw [recordHashDelete_other hg hc]

/-! ### a local write absorbs what was there (same kind) -/

theorem old_facts {s : Shard} (hinv : s.Inv) {k : Nat} {old : RV}
    (hg : NMap.get s.keys k = some old) :
    old.ts.time ≤ s.clock.time ∧ old.Dominated :=
  hinv.2 (k, old) (NMap.mem_of_get hg)

theorem hash_regs_le {s : Shard} (hinv : s.Inv) {k : Nat} {old : RV} {h0 : NMap Lww}
    (hg : NMap.get s.keys k = some old) (hc : old.crdt = .hash h0) :
    ∀ p ∈ h0, p.2.ts.time ≤ s.clock.time := by
  have ⟨hot, hod⟩ := old_facts hinv hg
  intro p hp
  have := hod p.2.ts (by
    simp only [RV.innerStamps, hc, Crdt.innerStamps]
    exact List.mem_map.mpr ⟨p, hp, rfl⟩)
  omega

theorem local_below (s : Shard) (op : LOp) (old d : RV) (hinv : s.Inv) (h2 : s.Inv2)
    (hwf : ∀ p ∈ s.keys, p.2.WF) (hg : NMap.get s.keys op.key = some old)
    (hd : (step s op.toOp).2 = some d) (hk : old.crdt.kind = d.crdt.kind) : Below old d := by
  have ⟨hot, hod⟩ := old_facts hinv hg
  have hmem := NMap.mem_of_get hg
  have holdwf : old.WF := hwf _ hmem
  cases op with
  | write k v e =>
    simp only [LOp.toOp, step, LOp.key] at hd hg
    have hd' := Option.some.inj hd
    subst hd'
    have hk' : old.crdt.kind = 0 := by rw [hk]; rfl
    obtain ⟨r, hc⟩ := kind_lww hk'
    apply lww_absorb old _ r (Lww.set v s.clock.tick) hc rfl
    · apply Stamp.lt_of_time_lt
      have := hod r.ts (by simp [RV.innerStamps, hc, Crdt.innerStamps])
      simp [Lww.set]; omega
    · apply Stamp.lt_asymm
      apply Stamp.lt_of_time_lt
      simp [recordWrite]; omega
  | delete k =>
    simp only [LOp.toOp, step, LOp.key] at hd hg
    by_cases hc0 : old.crdt.kind = 0
    · obtain ⟨r, hc⟩ := kind_lww hc0
      rw [recordDelete_lww hg hc] at hd
      have hd' := Option.some.inj hd
      subst hd'
      apply lww_absorb old _ r (Lww.delete s.clock.tick) hc rfl
      · apply Stamp.lt_of_time_lt
        have := hod r.ts (by simp [RV.innerStamps, hc, Crdt.innerStamps])
        simp [Lww.delete]; omega
      · apply Stamp.lt_asymm
        apply Stamp.lt_of_time_lt
        simp; omega
    · by_cases hc5 : old.crdt.kind = 5
      · obtain ⟨h0, hc⟩ := kind_hash hc5
        rw [recordDelete_hash hg hc] at hd
        have hd' := Option.some.inj hd
        subst hd'
        have hw0 : NMap.WF h0 := by
          have := holdwf.1; rw [hc] at this; exact this
        have hT := hash_regs_le hinv hg hc
        apply hash_absorb old _ h0 (NMap.mapVal (fun _ => Lww.delete s.clock.tick) h0)
          s.clock.time hc rfl hw0
        · refine ⟨NMap.wf_mapVal _ hw0, ?_⟩
          intro f
          rw [NMap.get_mapVal]
          cases hgf : NMap.get h0 f with
          | none => left; rfl
          | some r => right; exact ⟨_, rfl, by simp [Lww.delete]⟩
        · exact hT
        · apply Stamp.lt_asymm
          apply Stamp.lt_of_time_lt
          simp [delHashValue]; omega
      · rw [recordDelete_other hg hc0 hc5] at hd
        have hd' := Option.some.inj hd
        subst hd'
        exact below_self old holdwf
  | hwrite k fs =>
    simp only [LOp.toOp, step, LOp.key] at hd hg
    have hd' := Option.some.inj hd
    subst hd'
    have hk' : old.crdt.kind = 5 := by rw [hk]; rfl
    obtain ⟨h0, hc⟩ := kind_hash hk'
    have hw0 : NMap.WF h0 := by
      have := holdwf.1; rw [hc] at this; exact this
    have hT := hash_regs_le hinv hg hc
    have hhash : ((NMap.get s.keys k).getD { RV.new s.rid with crdt := .hash [] }).crdt.hashOf
        = h0 := by simp [hg, hc, Crdt.hashOf]
    apply hash_absorb old _ h0 (fs.foldl hashSetStep (s.clock, h0)).2 s.clock.time hc
      (by simp only [recordHashWrite]; rw [hhash]) hw0
    · exact hashSet_fold_newer fs s.clock.time s.clock h0 h0 (Nat.le_refl _) (newer_refl hw0)
    · exact hT
    · simp only [recordHashWrite]
      rw [hhash]
      split
      · simp [hg]; exact Stamp.lt_irrefl _
      · rename_i hne
        have hc2 := hashSet_fold_clock fs s.clock h0
        have hlen : 0 < fs.length := by
          cases fs with
          | nil => simp at hne
          | cons _ _ => simp
        apply Stamp.lt_asymm
        apply Stamp.lt_of_time_lt
        omega
  | hdelete k fs =>
    simp only [LOp.toOp, step, LOp.key] at hd hg
    by_cases hc5 : old.crdt.kind = 5
    · obtain ⟨h0, hc⟩ := kind_hash hc5
      rw [recordHashDelete_hash hg hc] at hd
      have hd' := Option.some.inj hd
      subst hd'
      have hw0 : NMap.WF h0 := by
        have := holdwf.1; rw [hc] at this; exact this
      have hT := hash_regs_le hinv hg hc
      apply hash_absorb old _ h0 (fs.foldl hashDelStep (s.clock, h0)).2 s.clock.time hc rfl hw0
      · exact hashDel_fold_newer fs s.clock.time s.clock h0 h0 (Nat.le_refl _) (newer_refl hw0)
      · exact hT
      · simp only [hdelValue]
        split
        · exact Stamp.lt_irrefl _
        · have hc2 := hashDel_fold_clock fs s.clock h0
          have hold2 := h2 _ hmem
          by_cases hlt : s.clock.time < (fs.foldl hashDelStep (s.clock, h0)).1.time
          · apply Stamp.lt_asymm
            apply Stamp.lt_of_time_lt
            omega
          · have heq : (fs.foldl hashDelStep (s.clock, h0)).1 = s.clock := by
              have h1 : (fs.foldl hashDelStep (s.clock, h0)).1.time = s.clock.time := by omega
              have h3 := hc2.2.2
              generalize (fs.foldl hashDelStep (s.clock, h0)).1 = c at h1 h3
              cases c; cases hs : s.clock
              rw [hs] at h1 h3
              simp at h1 h3
              simp [h1, h3]
            rw [heq]; exact hold2
    · rw [recordHashDelete_other hg hc5] at hd; simp at hd

/-! ### the other node-level invariants are preserved -/

theorem vcIncrement_wf {vc : NMap Nat} (rid : Nat) (h : NMap.WF vc) :
    NMap.WF (vcIncrement vc rid) := NMap.wf_insert h

theorem hashSet_fold_wf (fs : List (Nat × Bytes)) (c : Stamp) (h : NMap Lww) (hw : NMap.WF h) :
    NMap.WF (fs.foldl hashSetStep (c, h)).2 :=
  (hashSet_fold_newer fs 0 c h h (Nat.zero_le _) (newer_refl hw)).1

theorem hashDel_fold_wf (fs : List Nat) (c : Stamp) (h : NMap Lww) (hw : NMap.WF h) :
    NMap.WF (fs.foldl hashDelStep (c, h)).2 :=
  (hashDel_fold_newer fs 0 c h h (Nat.zero_le _) (newer_refl hw)).1

/-- node-level well-formedness: canonical vector clock, canonical values -/
def NodeWF (s : Shard) : Prop := NMap.WF s.vclock ∧ ∀ p ∈ s.keys, p.2.WF

theorem hashOf_wf {c : Crdt} (h : c.WF) : NMap.WF c.hashOf := by
  cases c <;> simp only [Crdt.hashOf] <;> first | exact h | exact NMap.wf_nil

theorem nodewf_step (s : Shard) (op : LOp) (h : s.NodeWF) : (step s op.toOp).1.NodeWF := by
  have hget : ∀ k rv, NMap.get s.keys k = some rv → rv.WF :=
    fun k rv hg => h.2 _ (NMap.mem_of_get hg)
  cases op with
  | write k v e =>
    simp only [LOp.toOp, step, recordWrite]
    refine ⟨?_, ?_⟩
    · simp only; split
      · exact vcIncrement_wf _ h.1
      · exact h.1
    · intro p hp
      rcases NMap.mem_insert hp with hp | hp
      · subst hp
        refine ⟨trivial, ?_⟩
        simp only
        split
        · exact vcIncrement_wf _ h.1
        · cases hg : NMap.get s.keys k with
          | none => simp [RV.new, RV.vcWF]
          | some rv => simp; exact (hget k rv hg).2
      · exact h.2 p hp
  | delete k =>
    simp only [LOp.toOp, step]
    cases hg : NMap.get s.keys k with
    | none => rw [recordDelete_none hg]; exact h
    | some rv =>
      by_cases hc0 : rv.crdt.kind = 0
      · obtain ⟨r, hr⟩ := kind_lww hc0
        rw [recordDelete_lww hg hr]
        refine ⟨h.1, ?_⟩
        intro p hp
        rcases NMap.mem_insert hp with hp | hp
        · subst hp; exact ⟨trivial, (hget k rv hg).2⟩
        · exact h.2 p hp
      · by_cases hc5 : rv.crdt.kind = 5
        · obtain ⟨m, hm⟩ := kind_hash hc5
          rw [recordDelete_hash hg hm]
          refine ⟨h.1, ?_⟩
          intro p hp
          rcases NMap.mem_insert hp with hp | hp
          · subst hp
            have := hget k rv hg
            refine ⟨?_, this.2⟩
            simp only [delHashValue, Crdt.WF]
            apply NMap.wf_mapVal
            have h1 := this.1; rw [hm] at h1; exact h1
          · exact h.2 p hp
        · rw [recordDelete_other hg hc0 hc5]; exact h
  | hwrite k fs =>
    simp only [LOp.toOp, step, recordHashWrite]
    refine ⟨h.1, ?_⟩
    intro p hp
    rcases NMap.mem_insert hp with hp | hp
    · subst hp
      have hrv0 : ((NMap.get s.keys k).getD { RV.new s.rid with crdt := .hash [] }).WF := by
        cases hg : NMap.get s.keys k with
        | none => exact ⟨NMap.wf_nil, by simp [RV.new, RV.vcWF]⟩
        | some rv => simpa using hget k rv hg
      exact ⟨hashSet_fold_wf fs _ _ (hashOf_wf hrv0.1), hrv0.2⟩
    · exact h.2 p hp
  | hdelete k fs =>
    simp only [LOp.toOp, step, recordHashDelete]
    split
    · exact h
    · rename_i rv hg
      split
      · rename_i hm hc
        refine ⟨h.1, ?_⟩
        intro p hp
        rcases NMap.mem_insert hp with hp | hp
        · subst hp
          have := hget k rv hg
          refine ⟨hashDel_fold_wf fs _ _ (by have := this.1; rw [hc] at this; exact this), this.2⟩
        · exact h.2 p hp
      · exact h

theorem nodewf_remote (s : Shard) (k : Nat) (d : RV) (h : s.NodeWF) (hd : d.WF) :
    (applyRemote s k d).NodeWF := by
  refine ⟨h.1, ?_⟩
  intro p hp
  simp only [applyRemote] at hp
  rcases NMap.mem_insert hp with hp | hp
  · subst hp
    simp only
    split
    · rename_i l hg
      exact C07.rv_merge_wf (h.2 _ (NMap.mem_of_get hg)) hd
    · exact hd
  · exact h.2 p hp

/-- inserting a value stamped at most the (new) clock, when the clock only moved forward -/
theorem inv2_insert {s : Shard} {k : Nat} {rv : RV} {c : Stamp} {vc : NMap Nat}
    (hinv : s.Inv) (h2 : s.Inv2) (hrid : c.rid = s.clock.rid) (hc : s.clock.time ≤ c.time)
    (h1 : c.lt rv.ts = false) :
    ({ s with clock := c, vclock := vc, keys := NMap.insert k rv s.keys } : Shard).Inv2 := by
  intro p hp
  rcases NMap.mem_insert hp with hp | hp
  · subst hp; exact h1
  · have ht := (hinv.2 p hp).1
    have hold := h2 p hp
    by_cases hlt : s.clock.time < c.time
    · apply Stamp.lt_asymm
      apply Stamp.lt_of_time_lt
      simp only; omega
    · have : c = s.clock := by
        cases c; cases hs : s.clock
        rw [hs] at hrid hc hlt
        simp at hrid hc hlt ⊢
        exact ⟨by omega, hrid⟩
      simp only [this]; exact hold

theorem inv2_step (s : Shard) (op : LOp) (hinv : s.Inv) (h2 : s.Inv2)
    (hrid : s.clock.rid = s.rid) : (step s op.toOp).1.Inv2 := by
  cases op with
  | write k v e =>
    simp only [LOp.toOp, step, recordWrite]
    apply inv2_insert hinv h2 (by simp) (by simp)
    exact Stamp.lt_irrefl _
  | delete k =>
    simp only [LOp.toOp, step]
    cases hg : NMap.get s.keys k with
    | none => rw [recordDelete_none hg]; exact h2
    | some rv =>
      by_cases hc0 : rv.crdt.kind = 0
      · obtain ⟨r, hr⟩ := kind_lww hc0
        rw [recordDelete_lww hg hr]
        apply inv2_insert (vc := s.vclock) hinv h2 (by simp) (by simp)
        exact Stamp.lt_irrefl _
      · by_cases hc5 : rv.crdt.kind = 5
        · obtain ⟨m, hm⟩ := kind_hash hc5
          rw [recordDelete_hash hg hm]
          apply inv2_insert (vc := s.vclock) hinv h2 (by simp) (by simp)
          exact Stamp.lt_irrefl _
        · rw [recordDelete_other hg hc0 hc5]; exact h2
  | hwrite k fs =>
    simp only [LOp.toOp, step, recordHashWrite]
    have hc2 := hashSet_fold_clock fs s.clock
      ((NMap.get s.keys k).getD { RV.new s.rid with crdt := .hash [] }).crdt.hashOf
    apply inv2_insert (vc := s.vclock) hinv h2 hc2.2 (by omega)
    simp only
    split
    · rename_i hfe
      have hnil : fs = [] := by cases fs <;> simp_all
      subst hnil
      simp only [List.foldl_nil]
      cases hg : NMap.get s.keys k with
      | none =>
        simp only [Option.getD_none, RV.new]
        have : ¬ (s.clock.lt ⟨0, s.rid⟩ = true) := by
          rw [Stamp.lt_iff]; simp; omega
        simpa using this
      | some rv => simpa using h2 _ (NMap.mem_of_get hg)
    · exact Stamp.lt_irrefl _
  | hdelete k fs =>
    simp only [LOp.toOp, step, recordHashDelete]
    split
    · exact h2
    · rename_i rv hg
      split
      · rename_i hm hc
        have hc2 := hashDel_fold_clock fs s.clock hm
        apply inv2_insert (vc := s.vclock) hinv h2 hc2.2.2 hc2.1
        simp only
        split
        · rename_i hfe
          have hnil : fs = [] := by cases fs <;> simp_all
          subst hnil
          simp only [List.foldl_nil]
          exact h2 _ (NMap.mem_of_get hg)
        · exact Stamp.lt_irrefl _
      · exact h2

theorem inv2_remote (s : Shard) (k : Nat) (d : RV) (hinv : s.Inv) :
    (applyRemote s k d).Inv2 := by
  intro p hp
  simp only [applyRemote] at hp ⊢
  apply Stamp.lt_asymm
  apply Stamp.lt_of_time_lt
  simp only [Stamp.update_time]
  rcases NMap.mem_insert hp with hp | hp
  · subst hp
    simp only
    split
    · rename_i l hg
      rw [merge_ts_time]
      have := (hinv.2 _ (NMap.mem_of_get hg)).1
      simp only at this
      omega
    · omega
  · have := (hinv.2 p hp).1
    omega

theorem rid_step (s : Shard) (op : Op) : (step s op).1.rid = s.rid := by
  cases op with
  | write k v e => rfl
  | hwrite k fs => rfl
  | delete k =>
    simp only [step, recordDelete]
    split
    · rfl
    · split <;> rfl
  | hdelete k fs =>
    simp only [step, recordHashDelete]
    split
    · rfl
    · split <;> rfl
  | remote k d => rfl
  | recovered k v => rfl

end Shard
end RedisVerif
