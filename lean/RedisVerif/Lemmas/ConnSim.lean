import RedisVerif.Model.ConnSim
import RedisVerif.Lemmas.ConnWrite

/-
  The mirror (`SimulatedConnection::process`) against the C15 buffer loop and the production loop.
-/
namespace RedisVerif.ConnSim
open RedisVerif.Resp RedisVerif.Conn

def valsOf : List Frame → List Val
  | [] => []
  | .val v :: r => v :: valsOf r
  | _ :: r => valsOf r

theorem valsOf_append (a b : List Frame) : valsOf (a ++ b) = valsOf a ++ valsOf b := by
  induction a with
  | nil => rfl
  | cons x xs ih => cases x <;> simp [valsOf, ih]

/-- every frame is a value the command parser accepts -/
def AllVal (cmdErr : Val → Bool) (fs : List Frame) : Prop := ∀ fr ∈ fs, ∃ v, fr = .val v ∧ cmdErr v = false

theorem AllVal.append_left {cmdErr : Val → Bool} {a b : List Frame} (h : AllVal cmdErr (a ++ b)) : AllVal cmdErr a :=
  fun fr hf => h fr (by simp [hf])

theorem AllVal.append_right {cmdErr : Val → Bool} {a b : List Frame} (h : AllVal cmdErr (a ++ b)) : AllVal cmdErr b :=
  fun fr hf => h fr (by simp [hf])

/-- where the C15 buffer loop yields only accepted values and stays alive, the mirror's inner loop
    executes exactly those values and keeps the same rest -/
theorem simLoop_drain (env : Env) (cmdErr : Val → Bool) : ∀ (f : Nat) (buf : Bytes),
    (drain (fun b => (parse1 env b).out) f buf).2.2 = false →
    AllVal cmdErr (drain (fun b => (parse1 env b).out) f buf).1 →
    simLoop env cmdErr f buf =
      (valsOf (drain (fun b => (parse1 env b).out) f buf).1, (drain (fun b => (parse1 env b).out) f buf).2.1, false) := by
  intro f
  induction f with
  | zero => intro buf _ _; simp [simLoop, drain, valsOf]
  | succ f ih =>
    intro buf hd ha
    unfold simLoop
    unfold drain at hd ha ⊢
    cases hout : (parse1 env buf).out with
    | ok v k =>
      simp only [hout] at hd ha ⊢
      obtain ⟨v', hv, hce⟩ := ha (.val v) (by simp)
      cases hv
      simp only [hce, Bool.false_eq_true, if_false]
      have := ih (buf.drop k) hd (fun fr hf => ha fr (by simp [hf]))
      rw [this]
      simp [valsOf]
    | incomplete i => simp [valsOf]
    | error e => simp [hout] at hd
    | crash e => simp [hout] at hd

theorem feed_dead (p : Bytes → Outcome) (st : FeedSt) (c : Bytes) (h : st.dead = true) : feed p st c = st := by
  simp [feed, h]

theorem feedAll_dead (p : Bytes → Outcome) : ∀ (cs : List Bytes) (st : FeedSt), st.dead = true → feedAll p st cs = st := by
  intro cs
  induction cs with
  | nil => intro st _; rfl
  | cons c cs ih =>
    intro st h
    simp only [feedAll, List.foldl_cons]
    rw [feed_dead p st c h]
    exact ih st h

theorem feed_frames (p : Bytes → Outcome) (st : FeedSt) (c : Bytes) : ∃ more, (feed p st c).frames = st.frames ++ more := by
  unfold feed
  split
  · exact ⟨[], by simp⟩
  · exact ⟨_, rfl⟩

theorem feedAll_frames (p : Bytes → Outcome) : ∀ (cs : List Bytes) (st : FeedSt),
    ∃ more, (feedAll p st cs).frames = st.frames ++ more := by
  intro cs
  induction cs with
  | nil => intro st; exact ⟨[], by simp [feedAll]⟩
  | cons c cs ih =>
    intro st
    simp only [feedAll, List.foldl_cons]
    obtain ⟨m1, h1⟩ := feed_frames p st c
    obtain ⟨m2, h2⟩ := ih (feed p st c)
    simp only [feedAll] at h2
    exact ⟨m1 ++ m2, by rw [h2, h1, List.append_assoc]⟩

/-- read by read: the mirror against the C15 buffer loop -/
theorem simFold_feedAll (env : Env) (cmdErr : Val → Bool) : ∀ (chunks : List Bytes) (st : FeedSt),
    st.dead = false →
    (feedAll (fun b => (parse1 env b).out) st chunks).dead = false →
    AllVal cmdErr (feedAll (fun b => (parse1 env b).out) st chunks).frames →
    chunks.foldl (simRead env cmdErr) ⟨valsOf st.frames, st.buf, false⟩ =
      ⟨valsOf (feedAll (fun b => (parse1 env b).out) st chunks).frames,
       (feedAll (fun b => (parse1 env b).out) st chunks).buf, false⟩ := by
  intro chunks
  induction chunks with
  | nil => intro st _ _ _; rfl
  | cons c cs ih =>
    intro st hst hfin hall
    simp only [feedAll, List.foldl_cons] at hfin hall ⊢
    -- the state after this read
    have hstep : feed (fun b => (parse1 env b).out) st c =
        ⟨st.frames ++ (drain (fun b => (parse1 env b).out) ((st.buf ++ c).length + 1) (st.buf ++ c)).1,
         (drain (fun b => (parse1 env b).out) ((st.buf ++ c).length + 1) (st.buf ++ c)).2.1,
         (drain (fun b => (parse1 env b).out) ((st.buf ++ c).length + 1) (st.buf ++ c)).2.2⟩ := by
      simp [feed, hst]
    have hd1 : (feed (fun b => (parse1 env b).out) st c).dead = false := by
      cases hdd : (feed (fun b => (parse1 env b).out) st c).dead with
      | false => rfl
      | true =>
        have := feedAll_dead (fun b => (parse1 env b).out) cs _ hdd
        simp only [feedAll] at this
        rw [this, hdd] at hfin
        exact absurd hfin (by decide)
    obtain ⟨more, hmore⟩ := feedAll_frames (fun b => (parse1 env b).out) cs (feed (fun b => (parse1 env b).out) st c)
    simp only [feedAll] at hmore
    have hall1 : AllVal cmdErr (feed (fun b => (parse1 env b).out) st c).frames := by
      rw [hmore] at hall
      exact hall.append_left
    rw [hstep] at hd1 hall1
    simp only at hd1 hall1
    have hsl := simLoop_drain env cmdErr ((st.buf ++ c).length + 1) (st.buf ++ c) hd1 hall1.append_right
    have hsr : simRead env cmdErr ⟨valsOf st.frames, st.buf, false⟩ c =
        ⟨valsOf (feed (fun b => (parse1 env b).out) st c).frames, (feed (fun b => (parse1 env b).out) st c).buf, false⟩ := by
      rw [hstep]
      simp only [simRead, Bool.false_eq_true, if_false, hsl, valsOf_append]
    rw [hsr]
    have := ih (feed (fun b => (parse1 env b).out) st c) (by rw [hstep]; exact hd1) hfin hall
    simp only [feedAll] at this
    exact this

theorem execFrames_execAll (cmds : List Cmd) : execFrames (execAll cmds) = cmds.map cmdFrame := by
  induction cmds with
  | nil => rfl
  | cons c cs ih =>
    simp only [execAll, List.map_cons, execFrames] at ih ⊢
    rw [ih]

theorem san_cmdFrame (c : Cmd) : (cmdFrame c).san = cmdFrame c := by simp [cmdFrame, Val.san, sanList_bulk]

theorem stream_eq_flatten (cmds : List Cmd) : stream cmds = ((cmds.map cmdFrame).map encode2).flatten := by
  simp only [stream, List.map_map]
  rfl

/-- THE MIRROR ON WELL-FORMED PIPELINES: it executes every command exactly once, in order, however the
    bytes are cut into reads (its `read()` returns the pending data or a random prefix of it) -/
theorem simRun_wf (env : Env) (cmdErr : Val → Bool) (hd : 2 ≤ env.depth) (cmds : List Cmd) (chunks : List Bytes)
    (h : chunks.flatten = stream cmds) (hs : Small (stream cmds))
    (hce : ∀ c ∈ cmds, cmdErr (cmdFrame c) = false) :
    simRun env cmdErr chunks = ⟨cmds.map cmdFrame, [], false⟩ := by
  have hok : ∀ v ∈ cmds.map cmdFrame, ConnW.ValOK codec1 env v := by
    intro v hv
    obtain ⟨c, _, rfl⟩ := List.mem_map.1 hv
    refine ⟨by simp [cmdFrame, Val.wf, wfList_bulk], ?_, by simp [cmdFrame, Val.arr, arrList_bulk, maxNesting]⟩
    have := depthList_bulk c
    simp only [cmdFrame, Val.depth]
    omega
  have hfe := ConnW.feedAll_encoded codec1 (Or.inl rfl) env (by omega) (cmds.map cmdFrame) hok chunks
    (by rw [h, stream_eq_flatten]) (by rw [← stream_eq_flatten]; exact hs)
  have hfe' : feedAll (fun b => (parse1 env b).out) FeedSt.init chunks =
      ⟨(cmds.map cmdFrame).map (fun v => Frame.val v.san), [], false⟩ := hfe
  have hall : AllVal cmdErr (feedAll (fun b => (parse1 env b).out) FeedSt.init chunks).frames := by
    rw [hfe']
    intro fr hf
    simp only [List.mem_map] at hf
    obtain ⟨v, ⟨c, hc, rfl⟩, rfl⟩ := hf
    exact ⟨cmdFrame c, by rw [san_cmdFrame], hce c hc⟩
  have := simFold_feedAll env cmdErr chunks FeedSt.init rfl (by rw [hfe']) hall
  unfold simRun SimSt.init
  rw [hfe'] at this
  simp only [FeedSt.init, valsOf] at this
  rw [this]
  simp only [SimSt.mk.injEq, and_true]
  have hv : ∀ (l : List Cmd), valsOf ((l.map cmdFrame).map (fun v => Frame.val v.san)) = l.map cmdFrame := by
    intro l
    induction l with
    | nil => rfl
    | cons c cs ih => simp only [List.map_cons, valsOf, san_cmdFrame, ih]
  exact hv cmds

end RedisVerif.ConnSim
