import RedisVerif.Driver.Bincode
import RedisVerif.Model.Json

/-
  Gossip frames: the REAL bytes of `GossipMessage::serialize` (serde_json) decoded by the model's canonical
  JSON decoder (`Model/Json.lean`) and printed in the text the harness prints for the real decoded message
  (`harness/src/c14.rs: show_gossip`).
    JG <hex>                → `ok <message>` | `err`   (strict: pristine frames and their truncations)
    JX <hex> <impl answer…> → `checked` when the document is not canonical (no claim: serde_json accepts more
                              spellings than the encoder produces) or when the model's decoding equals the
                              implementation's answer carried by the op line; the model's answer otherwise
-/
namespace RedisVerif.Driver.Js
open RedisVerif RedisVerif.Driver RedisVerif.Bincode RedisVerif.Json

def insertStr (s : String) : List String → List String
  | [] => [s]
  | t :: ts => if s ≤ t then s :: t :: ts else t :: insertStr s ts

def sortStrs (l : List String) : List String := l.foldr insertStr []

/-- later entries win, like `HashMap::insert` while deserialising -/
def dedupLast (l : List (Bytes × Nat)) : List (Bytes × Nat) :=
  l.foldl (fun acc p => (acc.filter (fun q => q.1 != p.1)) ++ [p]) []

def showDeltas (ds : List WDelta) : String := " | ".intercalate (ds.map Bin.showDelta)

def showMsg : WMsg → String
  | .deltaBatch s ds e => s!"DeltaBatch {s} {e} [{showDeltas ds}]"
  | .targeted s t ds e => s!"TargetedDelta {s} {t} {e} [{showDeltas ds}]"
  | .syncRequest s k =>
    let kv := sortStrs ((dedupLast k).map (fun p => s!"{hexOfBytes p.1}={p.2}"))
    s!"SyncRequest {s} {",".intercalate kv} []"
  | .syncResponse s ds => s!"SyncResponse {s} [{showDeltas ds}]"
  | .heartbeat s e => s!"Heartbeat {s} {e} []"

def step? (toks : List String) : Option String :=
  match toks with
  | ["JG", h] =>
    (match bytesTok.run [h] with
    | some (b, _) => some (match deMsg b with | some m => s!"ok {showMsg m}" | none => "err")
    | none => some "bad-op")
  | "JX" :: h :: impl =>
    (match bytesTok.run [h] with
    | some (b, _) =>
      some (match deMsg b with
        | none => "checked"
        | some m => if s!"ok {showMsg m}" == " ".intercalate impl then "checked" else s!"model: ok {showMsg m}")
    | none => some "bad-op")
  | _ => none

end RedisVerif.Driver.Js
