import RedisVerif.Driver.Codec
import RedisVerif.Driver.Crc32
import RedisVerif.Model.Wal

/-
  C10 sub-driver (stateful: `I` sets the base image, later ops refer to it).
    V <1|2>                                   → set the WAL format the code under test speaks (default 2)
    K <hex>                                   → CRC-32 of the bytes (differential test of Driver.crc32)
    B <max> <n> {<ts> <crc> <hex>}*           → files written by the model rotator (no faults)
    I <k> {<seq> <hex>}*                      → set base image
    R                                         → recoverAll base
    t <seq> <len>                             → recoverAll (base with file seq cut to len)
    x <seq> <pos> <val>                       → recoverAll (base with one byte replaced)
    a <seq> <hex>                             → recoverAll (base with bytes appended to file seq)
    w <seq> <pos> <hex>                       → recoverAll (base with the bytes written over position pos.., clipped to the file)
    ta <seq> <len> <hex>                      → recoverAll (base with file seq cut to len, then bytes appended)
    T <T> <active|->                          → truncateBefore on base: deleted count + remaining seqs
    F <t> <nbad> {<hex>}*                     → recoverAfter t on base; payloads listed do not deserialise
    Fa <seq> <hex> <t> <nbad> {<hex>}*        → same on (base with bytes appended to file seq)
-/
namespace RedisVerif.Driver.C10
open RedisVerif RedisVerif.Driver RedisVerif.Wal

def crc : Bytes → Nat := crc32

def showEntry (e : Entry) : String := s!"{e.ts} {e.crc} {hexOfBytes e.data}"

def showEntries (es : List Entry) : String :=
  " ".intercalate (toString es.length :: es.map showEntry)

def showImage (img : Image) : String :=
  " ".intercalate (toString img.length :: img.map (fun p => s!"{p.1} {hexOfBytes p.2}"))

def entryP : P Entry := do
  let ts ← nat
  let c ← nat
  let d ← bytesTok
  pure ⟨d, ts, c⟩

def imageP : P Image := do
  let k ← nat
  let l ← repeatP k (do let s ← nat; let b ← bytesTok; pure (s, b))
  pure (NMap.ofList l)

def allOk : Nat → Outcome := fun _ => .ok

/-- run the model rotator (no faults: both rotator variants write the same bytes) over the entries -/
def build (fmt : Format) (maxSize : Nat) (es : List Entry) : Rot :=
  es.foldl (fun r e => (Rot.append false fmt allOk r e).1) (Rot.init maxSize)

structure St where
  fmt : Format := .v2
  base : Image := []

def modFile (img : Image) (seq : Nat) (f : Bytes → Bytes) : Image :=
  img.map (fun p => if p.1 = seq then (p.1, f p.2) else p)

/-- bincode of a `ReplicationDelta` starts with the key: u64 length, bytes (driver-side glue,
    only used to print which deltas came back) -/
def keyOf (d : Bytes) : Bytes := (d.drop 8).take (leVal (d.take 8))

/-- write `v` over `b` starting at `pos`, clipped to the length of `b` -/
def overwrite (b : Bytes) (pos : Nat) (v : Bytes) : Bytes :=
  b.take pos ++ (v.take (b.length - pos) ++ b.drop (pos + v.length))

def showOptDeltas : Option (List Bytes) → String
  | none => "err"
  | some ds => " ".intercalate (toString ds.length :: ds.map (fun d => hexOfBytes (keyOf d)))

def deOf (bad : List Bytes) (d : Bytes) : Option Bytes := if bad.contains d then none else some d

inductive Op where
  | setFmt (v : Nat)
  | crcOf (b : Bytes)
  | build (max : Nat) (es : List Entry)
  | setImage (img : Image)
  | recover
  | cut (seq len : Nat)
  | setByte (seq pos val : Nat)
  | appendBytes (seq : Nat) (b : Bytes)
  | overwrite (seq pos : Nat) (b : Bytes)
  | cutAppend (seq len : Nat) (b : Bytes)
  | trunc (T : Nat) (active : Option Nat)
  | after (app : Option (Nat × Bytes)) (t : Nat) (bad : List Bytes)

def opP : P Op := do
  let t ← tok
  match t with
  | "V" => do let v ← nat; pure (.setFmt v)
  | "K" => do let b ← bytesTok; pure (.crcOf b)
  | "B" => do
    let m ← nat
    let n ← nat
    let es ← repeatP n entryP
    pure (.build m es)
  | "I" => do let i ← imageP; pure (.setImage i)
  | "R" => pure .recover
  | "t" => do let s ← nat; let l ← nat; pure (.cut s l)
  | "x" => do let s ← nat; let p ← nat; let v ← nat; pure (.setByte s p v)
  | "a" => do let s ← nat; let b ← bytesTok; pure (.appendBytes s b)
  | "w" => do let s ← nat; let p ← nat; let b ← bytesTok; pure (.overwrite s p b)
  | "ta" => do let s ← nat; let l ← nat; let b ← bytesTok; pure (.cutAppend s l b)
  | "T" => do let T ← nat; let a ← optNat; pure (.trunc T a)
  | "F" => do
    let t ← nat
    let n ← nat
    let bad ← repeatP n bytesTok
    pure (.after none t bad)
  | "Fa" => do
    let s ← nat
    let b ← bytesTok
    let t ← nat
    let n ← nat
    let bad ← repeatP n bytesTok
    pure (.after (some (s, b)) t bad)
  | _ => failure

def step (st : St) (line : String) : St × String :=
  let fmt := st.fmt
  let base := st.base
  match runP opP line with
  | none => (st, "bad-op")
  | some op =>
    match op with
    | .setFmt v => ({ st with fmt := if v = 1 then .v1 else .v2 }, s!"format {if v = 1 then 1 else 2}")
    | .crcOf b => (st, toString (crc b))
    | .build m es =>
      let r := build fmt m es
      (st, s!"{showImage (fullImage r.w.store)} cur={showOptNat r.cur} seq={r.seq}")
    | .setImage i => ({ st with base := i }, s!"ok {i.length}")
    | .recover => (st, showEntries (recoverAll fmt crc base))
    | .cut s l => (st, showEntries (recoverAll fmt crc (modFile base s (fun b => b.take l))))
    | .setByte s p v => (st, showEntries (recoverAll fmt crc (modFile base s (fun b => b.set p v))))
    | .appendBytes s b => (st, showEntries (recoverAll fmt crc (modFile base s (fun x => x ++ b))))
    | .overwrite s p b => (st, showEntries (recoverAll fmt crc (modFile base s (fun x => overwrite x p b))))
    | .cutAppend s l b => (st, showEntries (recoverAll fmt crc (modFile base s (fun x => x.take l ++ b))))
    | .trunc T a =>
      let r := truncateBefore fmt crc T a base
      (st, s!"deleted={base.length - r.length} remain {" ".intercalate (r.map (fun p => toString p.1))}")
    | .after app t bad =>
      let img := match app with
        | none => base
        | some (s, b) => modFile base s (fun x => x ++ b)
      (st, showOptDeltas (recoverAfter fmt crc (deOf bad) t img))

end RedisVerif.Driver.C10
