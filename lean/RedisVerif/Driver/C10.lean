import RedisVerif.Driver.Codec
import RedisVerif.Driver.Crc32
import RedisVerif.Model.Wal
import RedisVerif.Model.Bincode

/-
  C10 sub-driver (stateful: `I` sets the base DIRECTORY — every name of the listing with its
  contents, WAL files and foreign files alike, in listing order; later ops refer to it, files are
  addressed by their index in the listing).
    V <1|2>                                   → set the WAL format the code under test speaks (default 2)
    K <hex>                                   → CRC-32 of the bytes (differential test of Driver.crc32)
    I <k> {<hexname> <hex>}*                  → set base directory
    NA <max> <n> {<ts> <crc> <hex>}*          → a NEW rotator over the base directory (`WalRotator::new`), then
                                                the appends: resulting directory + open file, or `crash`
    R                                         → recover_all_entries of the base directory
    t <idx> <len>                             → … with file idx cut to len
    x <idx> <pos> <val>                       → … with one byte replaced
    a <idx> <hex>                             → … with bytes appended
    w <idx> <pos> <hex>                       → … with the bytes written over position pos.. (clipped to the file)
    ta <idx> <len> <hex>                      → … cut to len, then bytes appended
    T <T> <active hexname|->                  → truncate_before on the base directory: deleted count + remaining names
    F <t> <nbad> {<hex>}*                     → recover_entries_after(t); payloads listed do not deserialise
    Fa <idx> <hex> <t> <nbad> {<hex>}*        → same on (base with bytes appended to file idx)
                                                (which payloads deserialise is decided by the MODEL's bincode
                                                decoder `Bincode.deDelta`; the list the harness sends is what the
                                                real `to_delta` rejects and is only cross-checked: `de-mismatch`)
    FMT                                       → the on-disk constants of the model: magic, version, header size, entry overhead
    VE <ts> <crc> <hex>                       → `WalEntry::validate` and `disk_size` of an entry with these public fields
    RS <hex file> <after>                     → `WalReader::open` + `sequence()` + `entries_after(after)` on a file image
    WW <n> {<ts> <crc> <hex>}*                → `WalWriter` after these appends: entry_count, max_timestamp, size
-/
namespace RedisVerif.Driver.C10
open RedisVerif RedisVerif.Driver RedisVerif.Wal

def crc : Bytes → Nat := crc32

def showEntry (e : Entry) : String := s!"{e.ts} {e.crc} {hexOfBytes e.data}"

def showEntries (es : List Entry) : String :=
  " ".intercalate (toString es.length :: es.map showEntry)

def showDir (d : Dir) : String :=
  " ".intercalate (toString d.length :: d.map (fun p => s!"{hexOfBytes p.1} {hexOfBytes p.2}"))

def entryP : P Entry := do
  let ts ← nat
  let c ← nat
  let d ← bytesTok
  pure ⟨d, ts, c⟩

def dirP : P Dir := do
  let k ← nat
  repeatP k (do let n ← bytesTok; let b ← bytesTok; pure (n, b))

def allOk : Nat → Outcome := fun _ => .ok

/-- run the model rotator (no faults: both rotator variants write the same bytes) over the entries -/
def build (fmt : Format) (maxSize : Nat) (es : List Entry) : Rot :=
  es.foldl (fun r e => (Rot.append false fmt allOk r e).1) (Rot.init maxSize)

structure St where
  fmt : Format := .v2
  base : Dir := []

/-- apply `f` to the contents of the file at listing index `idx` -/
def modFile (d : Dir) (idx : Nat) (f : Bytes → Bytes) : Dir :=
  d.zipIdx.map (fun (p, i) => if i = idx then (p.1, f p.2) else p)

/-- the directory as recovery sees it -/
def recImage (d : Dir) : Image := sortBySeq (walFiles d)

/-- bincode of a `ReplicationDelta` starts with the key: u64 length, bytes (driver-side glue,
    only used to print which deltas came back) -/
def keyOf (d : Bytes) : Bytes := (d.drop 8).take (leVal (d.take 8))

/-- write `v` over `b` starting at `pos`, clipped to the length of `b` -/
def overwrite (b : Bytes) (pos : Nat) (v : Bytes) : Bytes :=
  b.take pos ++ (v.take (b.length - pos) ++ b.drop (pos + v.length))

def showOptDeltas : Option (List Bytes) → String
  | none => "err"
  | some ds => " ".intercalate (toString ds.length :: ds.map (fun d => hexOfBytes (keyOf d)))

def deOf (bad : List Bytes) (d : Bytes) : Option Bytes := if bad.contains d then none else some d

/-- the model's own deserialiser (`WalEntry::to_delta` = `bincode::deserialize`) -/
def deModel (d : Bytes) : Option Bytes := (Bincode.deDelta d).map (fun _ => d)

/-- ops that need no state -/
def pureStep? (fmt : Format) : List String → Option String
  | ["FMT"] => some s!"magic {hexOfBytes magic} version {fmt.version} header {overhead} overhead {overhead}"
  | ["VE", t, c, h] =>
    (match t.toNat?, c.toNat?, bytesTok.run [h] with
    | some t, some c, some (d, _) =>
      let e : Entry := ⟨d, t, c⟩
      some s!"valid={if decide (e.Valid fmt crc) then 1 else 0} size={e.size}"
    | _, _, _ => some "bad-op")
  | ["RS", h, a] =>
    (match bytesTok.run [h], a.toNat? with
    | some (b, _), some a =>
      some (match openFile fmt b with
        | none => "err"
        | some q => s!"seq {q} | {showEntries ((entries fmt crc (b.drop overhead)).filter (fun e => a ≤ e.ts))}")
    | _, _ => some "bad-op")
  | "WW" :: rest =>
    (match (do let n ← nat; repeatP n entryP : P (List Entry)).run rest with
    | some (es, []) =>
      some s!"count {es.length} max_ts {maxTs es} size {overhead + (encs es).length}"
    | _ => some "bad-op")
  | _ => none

inductive Op where
  | setFmt (v : Nat)
  | crcOf (b : Bytes)
  | build (max : Nat) (es : List Entry)
  | setImage (img : Dir)
  | recover
  | cut (seq len : Nat)
  | setByte (seq pos val : Nat)
  | appendBytes (seq : Nat) (b : Bytes)
  | overwrite (seq pos : Nat) (b : Bytes)
  | cutAppend (seq len : Nat) (b : Bytes)
  | trunc (T : Nat) (active : Option Name)
  | after (app : Option (Nat × Bytes)) (t : Nat) (bad : List Bytes)

def opP : P Op := do
  let t ← tok
  match t with
  | "V" => do let v ← nat; pure (.setFmt v)
  | "K" => do let b ← bytesTok; pure (.crcOf b)
  | "NA" => do
    let m ← nat
    let n ← nat
    let es ← repeatP n entryP
    pure (.build m es)
  | "I" => do let i ← dirP; pure (.setImage i)
  | "R" => pure .recover
  | "t" => do let s ← nat; let l ← nat; pure (.cut s l)
  | "x" => do let s ← nat; let p ← nat; let v ← nat; pure (.setByte s p v)
  | "a" => do let s ← nat; let b ← bytesTok; pure (.appendBytes s b)
  | "w" => do let s ← nat; let p ← nat; let b ← bytesTok; pure (.overwrite s p b)
  | "ta" => do let s ← nat; let l ← nat; let b ← bytesTok; pure (.cutAppend s l b)
  | "T" => do
    let T ← nat
    let t ← tok
    if t == "-" then pure (.trunc T none) else
    match t.toList with
    | 'x' :: cs => match parseHexBytes cs with
      | some b => pure (.trunc T (some b))
      | none => failure
    | _ => failure
  | "F" => do
    let t ← nat
    let n ← nat
    let bad ← repeatP n bytesTok
    pure (.after none t bad)
  | "Fa" => do
    let s ← nat
    let b ← bytesTok
    let t ← nat
    let n ← nat
    let bad ← repeatP n bytesTok
    pure (.after (some (s, b)) t bad)
  | _ => failure

def step (st : St) (line : String) : St × String :=
  let fmt := st.fmt
  let base := st.base
  match pureStep? fmt (tokens line) with
  | some o => (st, o)
  | none =>
  match runP opP line with
  | none => (st, "bad-op")
  | some op =>
    match op with
    | .setFmt v => ({ st with fmt := if v = 1 then .v1 else .v2 }, s!"format {if v = 1 then 1 else 2}")
    | .crcOf b => (st, toString (crc b))
    | .build m es =>
      (st, match DRot.appendAll fmt m (DRot.new base) es with
           | none => "crash"
           | some r => s!"{showDir r.dir} cur={match r.cur with | none => "-" | some c => hexOfBytes (walName c)}")
    | .setImage i => ({ st with base := i }, s!"ok {i.length}")
    | .recover => (st, showEntries (recoverAllD fmt crc base))
    | .cut s l => (st, showEntries (recoverAllD fmt crc (modFile base s (fun b => b.take l))))
    | .setByte s p v => (st, showEntries (recoverAllD fmt crc (modFile base s (fun b => b.set p v))))
    | .appendBytes s b => (st, showEntries (recoverAllD fmt crc (modFile base s (fun x => x ++ b))))
    | .overwrite s p b => (st, showEntries (recoverAllD fmt crc (modFile base s (fun x => overwrite x p b))))
    | .cutAppend s l b => (st, showEntries (recoverAllD fmt crc (modFile base s (fun x => x.take l ++ b))))
    | .trunc T a =>
      let r := truncateBeforeD fmt crc T a base
      (st, s!"deleted={base.length - r.length} remain {" ".intercalate (r.map (fun p => hexOfBytes p.1))}")
    | .after app t bad =>
      let img := match app with
        | none => base
        | some (s, b) => modFile base s (fun x => x ++ b)
      let cands := (recoverAll fmt crc (recImage img)).map (·.data)
      if cands.any (fun d => (deModel d).isSome == bad.contains d) then (st, "de-mismatch")
      else (st, showOptDeltas (recoverAfter fmt crc deModel t (recImage img)))

end RedisVerif.Driver.C10
