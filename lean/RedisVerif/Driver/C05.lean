import RedisVerif.Driver.Codec
import RedisVerif.Driver.C01
import RedisVerif.Props.C05
import RedisVerif.Model.Txn7

/-
  C05 sub-driver (stateful): the connection-level transaction machine `Txn.step` and the
  executor-level machine `Txn.xstep`, both over the tiny concrete store `KV`.

    G proto-flags <0|1>         → ok          which tree the model follows (harness/src/c05.rs
                                              CODE_PROTO_ERROR_FLAGS): 1 = a protocol error inside
                                              MULTI flags the transaction (`Txn.stepFixed`)
    NEW                         → ok          fresh connection + empty store
    RECONNECT                   → ok          the connection is dropped, a new one opened (store kept)
    C MULTI | DISCARD | UNWATCH → reply       input of the modelled connection
    C WATCH <n> <key>*          → reply
    C EXEC <slots> (<m> <cmd>{m}){slots}      EXEC with the other clients' commands per await slot
    C CMD <cmd>                 → reply       parsed data command
    C UNK | C PERR              → reply       unknown command / `from_resp_zero_copy` error
    C PROTO                     → reply       bytes `RespCodec::parse` rejects (protocol error)
    C CHAN                      → reply       PUBLISH stub
    C LOCAL <id>                → reply       0 AUTH x, 1 ACL WHOAMI, 2 RESET, 3 CLIENT SETNAME a
    F <cmd>                     → reply       a command of another client, between two inputs
    DUMP                        → <n> (<key> S <val> | <key> L <m> <val>*)*
    XNEW / X <input> / XDUMP    the same for the executor-level machine (inputs: MULTI EXEC
                                DISCARD UNWATCH, WATCH <n> <key>*, CMD <cmd>)
    SNEW / S <client> <input> / SDUMP   ONE executor-level machine shared by several clients
                                (`SimulationHarness::execute(client_id, …)`): the client id is ignored
    RNEW / R <input> / RDUMP    the replicated front end (`ReplicatedShardedState::execute`)
    TBL <inTxn> <errors> <w:0 none|1 same|2 changed> <qlen> <input class>
                                → <reply class> <inTxn'> <errors'> <qlen' | -> <old watch armed 01 | -> <new key armed 01 | ->
                                one cell of the connection-level decision table (`tableReply` …)
    M …                         the same machines over the M7 REFERENCE executor (`Model/Txn7.lean`: the whole
                                command set of `Model/Redis.lean`, deadlines, the clock):
      M NEW <now> | M RECONNECT | M T <now> (the clock reads <now>) | M DUMP
      M C MULTI | DISCARD | UNWATCH | WATCH <n> <key>* | CMD <op in the C01 line syntax> | PING | UNK | PERR
          | PROTO | CHAN | LOCAL <id> | EXEC <slots> (<m> <fcmd>{m}){slots}      <fcmd> ::= D <op> | T <now>
      M F <op>                  a command of another client between two inputs
      M X NEW <now> | M X T <now> | M X DUMP | M X MULTI | EXEC | DISCARD | UNWATCH | WATCH <n> <key>* | CMD <op>
                                the executor-level machine over M7
      replies: data replies in the C01 reply syntax; EXEC → `*<n> | <reply> | …`; M DUMP → keys with a
      deadline FLAG (`+` / `-1`), M X DUMP → keys with their remaining TTL
    <cmd> ::= GET k | SET k v | INCR k | APPEND k v | DEL k | RPUSH k <n> v* | LRANGE k | LLEN k
            | LSET k v (index 0) | LPOP k | HSET k f v | HDEL k f | SADD k m | SREM k m
            | ZADD k <int> m | ZREM k m | EXPIRE k | PERSIST k <had01> | EVICT k
            | MSET <n> (k v){n} | MGET <n> k{n} | DELM <n> k{n}
            | PING | UNWATCH | UNK | LOCAL <id>
-/
namespace RedisVerif.Driver.C05
open RedisVerif RedisVerif.Driver RedisVerif.Txn

def localOf : Nat → Option KV.Local
  | 0 => some .auth
  | 1 => some .aclWhoami
  | 2 => some .reset
  | 3 => some .clientSetname
  | 4 => some .publish
  | _ => none

def cmdP : P KV.Cmd := do
  let t ← tok
  match t with
  | "GET" => do let k ← strKey; pure (.get k)
  | "SET" => do let k ← strKey; let v ← bytesTok; pure (.set k v)
  | "INCR" => do let k ← strKey; pure (.incr k)
  | "APPEND" => do let k ← strKey; let v ← bytesTok; pure (.append k v)
  | "DEL" => do let k ← strKey; pure (.del k)
  | "RPUSH" => do let k ← strKey; let n ← nat; let vs ← repeatP n bytesTok; pure (.rpush k vs)
  | "LRANGE" => do let k ← strKey; pure (.lrange k)
  | "LLEN" => do let k ← strKey; pure (.llen k)
  | "LSET" => do let k ← strKey; let v ← bytesTok; pure (.lset0 k v)
  | "LPOP" => do let k ← strKey; pure (.lpop k)
  | "HSET" => do let k ← strKey; let f ← strKey; let v ← bytesTok; pure (.hset k f v)
  | "HDEL" => do let k ← strKey; let f ← strKey; pure (.hdel k f)
  | "SADD" => do let k ← strKey; let m ← strKey; pure (.sadd k m)
  | "SREM" => do let k ← strKey; let m ← strKey; pure (.srem k m)
  | "ZADD" => do
    let k ← strKey
    let t ← tok
    let m ← strKey
    match t.toInt? with
    | some sc => pure (.zadd k sc m)
    | none => failure
  | "ZREM" => do let k ← strKey; let m ← strKey; pure (.zrem k m)
  | "EXPIRE" => do let k ← strKey; pure (.expire k)
  | "PERSIST" => do let k ← strKey; let h ← nat; pure (.persist k (h != 0))
  | "EVICT" => do let k ← strKey; pure (.evict k)
  | "MSET" => do
    let n ← nat
    let ps ← repeatP n (do let k ← strKey; let v ← bytesTok; pure (k, v))
    pure (.mset ps)
  | "MGET" => do let n ← nat; let ks ← repeatP n strKey; pure (.mget ks)
  | "DELM" => do let n ← nat; let ks ← repeatP n strKey; pure (.delm ks)
  | "PING" => pure .ping
  | "UNWATCH" => pure .unwatch
  | "UNK" => pure .unknown
  | "LOCAL" => do
    let n ← nat
    match localOf n with
    | some l => pure (.loc l)
    | none => failure
  | _ => failure

def schedP : P (List (List KV.Cmd)) := do
  let n ← nat
  repeatP n (do let m ← nat; repeatP m cmdP)

def inputP : P (Input Nat KV.Cmd × List (List KV.Cmd)) := do
  let t ← tok
  match t with
  | "MULTI" => pure (.multi, [])
  | "DISCARD" => pure (.discard, [])
  | "UNWATCH" => pure (.unwatch, [])
  | "EXEC" => do let sc ← schedP; pure (.exec, sc)
  | "WATCH" => do let n ← nat; let ks ← repeatP n strKey; pure (.watch ks, [])
  | "CMD" => do let c ← cmdP; pure (.cmd c, [])
  | "UNK" => pure (.unknown .unknown, [])
  | "PERR" => pure (.parseErr, [])
  | "PROTO" => pure (.protoErr, [])
  | "CHAN" => pure (.chanStub (.loc .publish), [])
  | "LOCAL" => do
    let n ← nat
    match localOf n with
    | some l => pure (.connLocal (.loc l), [])
    | none => failure
  | _ => failure

def xinputP : P (XInput Nat KV.Cmd) := do
  let t ← tok
  match t with
  | "MULTI" => pure .multi
  | "DISCARD" => pure .discard
  | "UNWATCH" => pure .unwatch
  | "EXEC" => pure .exec
  | "WATCH" => do let n ← nat; let ks ← repeatP n strKey; pure (.watch ks)
  | "CMD" => do let c ← cmdP; pure (.cmd c)
  | _ => failure

def showRep : KV.Rep → String
  | .simple .ok => "+OK"
  | .simple .pong => "+PONG"
  | .simple .reset => "+RESET"
  | .int i => s!":{i}"
  | .bulk none => "$-"
  | .bulk (some b) => "$" ++ hexOfBytes b
  | .arr l => " ".intercalate (s!"*{l.length}" :: l.map (fun b => "$" ++ hexOfBytes b))
  | .marr l => " ".intercalate (s!"*{l.length}" :: l.map (fun
      | some b => "$" ++ hexOfBytes b
      | none => "$-"))
  | .err .wrongType => "-wrongtype"
  | .err .notInt => "-notint"
  | .err .overflow => "-overflow"
  | .err .unknownCmd => "-unknown"
  | .err .connLevel => "-connlevel"
  | .err .noSuchKey => "-nosuchkey"

def showConnErr : ConnErr → String
  | .execAbort => "-execabort"
  | .nestedMulti => "-nested-multi"
  | .watchInMulti => "-watch-in-multi"
  | .execWithoutMulti => "-exec-without-multi"
  | .discardWithoutMulti => "-discard-without-multi"
  | .unknownInMulti => "-unknown-args"
  | .noperm => "-noperm"
  | .parse => "-parse"
  | .protocol => "-protocol"

def showReply : Reply KV.Rep → String
  | .ok => "+OK"
  | .queued => "+QUEUED"
  | .err e => showConnErr e
  | .nil => "*-"
  | .results rs => " ".intercalate (s!"*{rs.length}" :: rs.map showRep)
  | .plain r => showRep r

def showXReply : XReply KV.Rep → String
  | .ok => "+OK"
  | .queued => "+QUEUED"
  | .err .nestedMulti => "-nested-multi"
  | .err .watchInMulti => "-watch-in-multi"
  | .err .execWithoutMulti => "-exec-without-multi"
  | .err .discardWithoutMulti => "-discard-without-multi"
  | .nil => "$-"
  | .results rs => " ".intercalate (s!"*{rs.length}" :: rs.map showRep)
  | .plain r => showRep r

def showStore (s : KV.Store) : String :=
  " ".intercalate (toString s.length :: s.map (fun p =>
    match p.2 with
    | .str b => s!"{showKey p.1} S {hexOfBytes b}"
    | .list l => " ".intercalate ([showKey p.1, "L", toString l.length] ++ l.map hexOfBytes)
    | .hash h => " ".intercalate ([showKey p.1, "H", toString h.length] ++
        h.map (fun q => s!"{showKey q.1} {hexOfBytes q.2}"))
    | .set m => " ".intercalate ([showKey p.1, "T", toString m.length] ++ m.map showKey)
    | .zset z => " ".intercalate ([showKey p.1, "Z", toString z.length] ++
        z.map (fun q => s!"{showKey q.1} {q.2}"))))

structure St where
  conn : ConnTxn Nat KV.Cmd KV.Rep
  store : KV.Store
  xt : ExTxn Nat KV.Cmd KV.Val
  xstore : KV.Store
  sht : ExTxn Nat KV.Cmd KV.Val
  shstore : KV.Store
  rstore : KV.Store
  /-- which tree the connection-level machine follows: false = the pinned commit, true = the
      current tree (fix 6b9d6a7: a protocol error between MULTI and EXEC flags the transaction) -/
  protoFlags : Bool
  /-- the machines over the M7 reference executor -/
  mconn : ConnTxn Nat Txn7.Cmd7 Txn7.Rep7
  mnode : Txn7.Node
  mxt : ExTxn Nat Txn7.Cmd7 Redis.Value
  mxnode : Txn7.Node

def St.init : St :=
  { conn := ConnTxn.idle, store := [], xt := ExTxn.idle, xstore := [], sht := ExTxn.idle,
    shstore := [], rstore := [], protoFlags := false,
    mconn := ConnTxn.idle, mnode := Txn7.Node.init 0, mxt := ExTxn.idle, mxnode := Txn7.Node.init 0 }

/-! ### the M7 instance -/

open Txn7 in
def fcmd7P : P Cmd7 := do
  let t ← tok
  match t with
  | "D" => do let c ← C01.cmd; pure (.data c)
  | "T" => do let n ← nat; pure (.tick n)
  | _ => failure

open Txn7 in
def sched7P : P (List (List Cmd7)) := do
  let n ← nat
  repeatP n (do let m ← nat; repeatP m fcmd7P)

open Txn7 in
def input7P : P (Input Nat Cmd7 × List (List Cmd7)) := do
  let t ← tok
  match t with
  | "MULTI" => pure (.multi, [])
  | "DISCARD" => pure (.discard, [])
  | "UNWATCH" => pure (.unwatch, [])
  | "EXEC" => do let sc ← sched7P; pure (.exec, sc)
  | "WATCH" => do let n ← nat; let ks ← repeatP n strKey; pure (.watch ks, [])
  | "CMD" => do let c ← C01.cmd; pure (.cmd (.data c), [])
  | "PING" => pure (.cmd .ping, [])
  | "UNK" => pure (.unknown .unknown, [])
  | "PERR" => pure (.parseErr, [])
  | "PROTO" => pure (.protoErr, [])
  | "CHAN" => pure (.chanStub (.loc .publish), [])
  | "LOCAL" => do
    let n ← nat
    match localOf n with
    | some l => pure (.connLocal (.loc l), [])
    | none => failure
  | _ => failure

open Txn7 in
def xinput7P : P (XInput Nat Cmd7) := do
  let t ← tok
  match t with
  | "MULTI" => pure .multi
  | "DISCARD" => pure .discard
  | "UNWATCH" => pure .unwatch
  | "EXEC" => pure .exec
  | "WATCH" => do let n ← nat; let ks ← repeatP n strKey; pure (.watch ks)
  | "CMD" => do let c ← C01.cmd; pure (.cmd (.data c))
  | _ => failure

/-- a reply of the M7 instance; `c` = the command it answers (unordered replies are canonicalised
    as in the C01 driver) -/
def showRep7 (c : Option Txn7.Cmd7) : Txn7.Rep7 → String
  | .other r => showRep r
  | .data r =>
    match c with
    | some (.data d) => C01.showReply (C01.canonReply d r)
    | _ => C01.showReply r

def showResults7 (q : List Txn7.Cmd7) (rs : List Txn7.Rep7) : String :=
  " | ".intercalate (s!"*{rs.length}" :: (q.zip rs).map (fun p => showRep7 (some p.1) p.2))

def showReply7 (q : List Txn7.Cmd7) (c : Option Txn7.Cmd7) : Reply Txn7.Rep7 → String
  | .ok => "+OK"
  | .queued => "+QUEUED"
  | .err e => showConnErr e
  | .nil => "*-"
  | .results rs => showResults7 q rs
  | .plain r => showRep7 c r

def xqCmd : XQ Txn7.Cmd7 → Txn7.Cmd7
  | .cmd c => c
  | .unwatch => .unwatch

def showXReply7 (q : List Txn7.Cmd7) (c : Option Txn7.Cmd7) : XReply Txn7.Rep7 → String
  | .ok => "+OK"
  | .queued => "+QUEUED"
  | .err .nestedMulti => "-nested-multi"
  | .err .watchInMulti => "-watch-in-multi"
  | .err .execWithoutMulti => "-exec-without-multi"
  | .err .discardWithoutMulti => "-discard-without-multi"
  | .nil => "$-"
  | .results rs => showResults7 q rs
  | .plain r => showRep7 c r

/-- the visible keyspace with a deadline FLAG instead of the remaining TTL (the connection-level
    runs are on the wall clock) -/
def showDumpFlags (n : Txn7.Node) : String :=
  let v := Redis.view n.s n.now
  " ".intercalate (toString v.length :: v.map (fun p =>
    let ttl := match p.2.ttl with | none => "-1" | some _ => "+"
    s!"{showKey p.1} {ttl} {C01.showValue p.2.val}"))

def inputCmd7 : Input Nat Txn7.Cmd7 → Option Txn7.Cmd7
  | .cmd c => some c
  | _ => none

def step7 (st : St) : List String → St × String
  | ["NEW", now] =>
    match now.toNat? with
    | some t => ({ st with mconn := ConnTxn.idle, mnode := Txn7.Node.init t }, "ok")
    | none => (st, "bad-op")
  | ["RECONNECT"] => ({ st with mconn := ConnTxn.idle }, "ok")
  | ["T", now] =>
    match now.toNat? with
    | some t => ({ st with mnode := (Txn7.exec7 st.mnode (.tick t)).1 }, "ok")
    | none => (st, "bad-op")
  | ["DUMP"] => (st, showDumpFlags st.mnode)
  | "C" :: rest =>
    match (input7P.run rest) with
    | some ((inp, sc), []) =>
      let r := Txn.stepWith st.protoFlags Txn7.backend7 sc st.mconn st.mnode inp
      ({ st with mconn := r.1, mnode := r.2.1 }, showReply7 st.mconn.queue (inputCmd7 inp) r.2.2)
    | _ => (st, "bad-op")
  | "F" :: rest =>
    match (C01.cmd.run rest) with
    | some (c, []) =>
      let r := Txn7.exec7 st.mnode (.data c)
      ({ st with mnode := r.1 }, showRep7 (some (.data c)) r.2)
    | _ => (st, "bad-op")
  | ["X", "NEW", now] =>
    match now.toNat? with
    | some t => ({ st with mxt := ExTxn.idle, mxnode := Txn7.Node.init t }, "ok")
    | none => (st, "bad-op")
  | ["X", "T", now] =>
    match now.toNat? with
    | some t => ({ st with mxnode := (Txn7.exec7 st.mxnode (.tick t)).1 }, "ok")
    | none => (st, "bad-op")
  | ["X", "DUMP"] => (st, C01.showDump st.mxnode.s st.mxnode.now)
  | "X" :: rest =>
    match (xinput7P.run rest) with
    | some (inp, []) =>
      let r := Txn.xstep Txn7.xbackend7 (.other (.simple .ok)) st.mxt st.mxnode inp
      let c := match inp with | .cmd c => some c | _ => none
      ({ st with mxt := r.1, mxnode := r.2.1 }, showXReply7 (st.mxt.queue.map xqCmd) c r.2.2)
    | _ => (st, "bad-op")
  | _ => (st, "bad-op")

def showRReply : RReply KV.Rep → String
  | .ok => "+OK"
  | .errUnknown => "-unknown-global"
  | .plain r => showRep r

def iclsOf : String → Option ICls
  | "MULTI" => some .multi | "EXEC" => some .exec | "DISCARD" => some .discard
  | "UNWATCH" => some .unwatch | "WATCH" => some .watch | "CMD" => some .cmd
  | "UNK" => some .unknown | "CHAN" => some .chanStub | "LOCAL" => some .connLocal
  | "PERR" => some .parseErr | "PROTO" => some .protoErr
  | _ => none

def showRCls : RCls → String
  | .ok => "ok" | .queued => "queued" | .err e => showConnErr e | .nil => "nil"
  | .results n => s!"results:{n}" | .plain => "plain"

def showWAct : WAct → String
  | .keep => "keep" | .clear => "clear" | .extend => "extend"

def b01 (b : Bool) : String := if b then "1" else "0"

/-- one cell, in the form the harness can OBSERVE on the real handler: the queue length only
    when a probe EXEC would show it, the fate of the watched key only when a probe can tell -/
def tblCell (inTxn errors : Bool) (w q : Nat) (c : ICls) : String :=
  let nx := tableNext inTxn errors c
  let wa := tableWatch inTxn c
  let q' := if nx.1 && !nx.2 && w != 2 then toString (tableQueue inTxn q c) else "-"
  let armed := if nx.1 && nx.2 then "-" else b01 (w != 0 && wa != .clear)
  let newArmed := if c != .watch || w == 2 || (nx.1 && nx.2) then "-" else b01 (wa == .extend)
  " ".intercalate [showRCls (tableReply inTxn errors (w == 2) q c), b01 nx.1, b01 nx.2, q', armed,
    newArmed]

def step (st : St) (line : String) : St × String :=
  match tokens line with
  | "M" :: rest => step7 st rest
  | ["NEW"] => ({ st with conn := ConnTxn.idle, store := [] }, "ok")
  | ["XNEW"] => ({ st with xt := ExTxn.idle, xstore := [] }, "ok")
  | ["G", "proto-flags", v] => ({ st with protoFlags := v == "1" }, "ok")
  -- the modelled client's connection is closed and a new one opened: the connection-level state
  -- goes away with it, the store stays (`abandoned_txn_has_no_effect`)
  | ["RECONNECT"] => ({ st with conn := ConnTxn.idle }, "ok")
  | ["DUMP"] => (st, showStore st.store)
  | ["XDUMP"] => (st, showStore st.xstore)
  | ["XEVICT", k] =>
    -- the deadline of a key passed: the executor's `set_time` evicted it (not an input of xstep)
    match (strKey.run [k]) with
    | some (kc, []) => ({ st with xstore := NMap.erase kc st.xstore }, "ok")
    | _ => (st, "bad-op")
  | "C" :: rest =>
    match (inputP.run rest) with
    | some ((inp, sc), []) =>
      let r := Txn.stepWith st.protoFlags KV.backend sc st.conn st.store inp
      ({ st with conn := r.1, store := r.2.1 }, showReply r.2.2)
    | _ => (st, "bad-op")
  | "F" :: rest =>
    match (cmdP.run rest) with
    | some (c, []) =>
      let r := KV.exec st.store c
      ({ st with store := r.1 }, showRep r.2)
    | _ => (st, "bad-op")
  | ["SNEW"] => ({ st with sht := ExTxn.idle, shstore := [] }, "ok")
  | ["SDUMP"] => (st, showStore st.shstore)
  | ["RNEW"] => ({ st with rstore := [] }, "ok")
  | ["RDUMP"] => (st, showStore st.rstore)
  | "S" :: _client :: rest =>
    match (xinputP.run rest) with
    | some (inp, []) =>
      let r := Txn.xsharedRun KV.xbackend (.simple .ok) st.sht st.shstore [(0, inp)]
      match r.2.2 with
      | [(_, rep)] => ({ st with sht := r.1, shstore := r.2.1 }, showXReply rep)
      | _ => (st, "bad-op")
    | _ => (st, "bad-op")
  | "R" :: rest =>
    match (xinputP.run rest) with
    | some (inp, []) =>
      let r := Txn.rstep KV.exec st.rstore inp
      ({ st with rstore := r.1 }, showRReply r.2)
    | _ => (st, "bad-op")
  | ["TBL", a, e, w, q, c] =>
    match a.toNat?, e.toNat?, w.toNat?, q.toNat?, iclsOf c with
    | some a, some e, some w, some q, some c =>
      -- with the proposed fix the row (inside MULTI, protocol error) is the row of an arity error
      -- up to the error text
      if st.protoFlags && a != 0 && c == .protoErr then
        (st, (tblCell true (e != 0) w q .parseErr).replace "-parse" "-protocol")
      else (st, tblCell (a != 0) (e != 0) w q c)
    | _, _, _, _, _ => (st, "bad-op")
  | "X" :: rest =>
    match (xinputP.run rest) with
    | some (inp, []) =>
      let r := Txn.xstep KV.xbackend (.simple .ok) st.xt st.xstore inp
      ({ st with xt := r.1, xstore := r.2.1 }, showXReply r.2.2)
    | _ => (st, "bad-op")
  | _ => (st, "bad-op")

end RedisVerif.Driver.C05
