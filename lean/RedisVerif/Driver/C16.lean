import RedisVerif.Driver.Codec
import RedisVerif.Model.GrammarTable
import RedisVerif.Model.LuaConv
import RedisVerif.Model.LuaScript
import RedisVerif.Model.LuaNum
import RedisVerif.Model.GrammarGen
import RedisVerif.Model.GrammarElem
import RedisVerif.Lemmas.GrammarErrs
import RedisVerif.Props.C16

/-
  C16 sub-driver (pure).  One line in, one line out:
    P  <hex-arg>*     → canonical rendering of `parseCmd` (from_resp):           OK <Ctor> <tok>* | ERR <hex text> | crash
    Z  <hex-arg>*     → the same for the zero-copy parser (`parseCmdZc`)
    PE <elem>*        → both RESP parsers on an array of arbitrary elements (`parseE`): elem = x<hex> (bulk string) |
                        :<int> (integer) | ~ (nil bulk, simple string, error, nested array)
    LP <hex-arg>*     → the redis.call translator (`parseLua`):                  OK | ERR <hex text> | crash
    UP <hex>          → `String::from_utf8_lossy(b).to_uppercase()` as hex
    LO <hex>          → `.to_lowercase()` of the upper-cased lossy string
    F  <hex>          → `str::parse::<f64>`: f<16 hex digits> | fnan | none
    I  <hex>          → `str::parse::<i64>`: i<value> | none
    U64 <hex> / U32 <hex> → `str::parse::<u64 / u32>`: n<value> | empty | invalid | overflow
    R2L <resp>        → `resp_to_lua_value`, rendered as a Lua value
    L2R <lua>         → `lua_to_resp`, rendered as a RESP value
    RT <resp>         → `lua_to_resp (resp_to_lua_value r)`
    N2I <16 hex digits> → `lua_to_resp` of a Lua float with this bit pattern (`n as i64`): :<int>
    LF <16 hex digits> → the bytes a Lua float with this bit pattern becomes as a redis.call argument (`f64::to_string`): $<hex>
    LA <lua>          → the bytes a redis.call argument becomes (`parse_multivalue_to_bytes`): $<hex> | refused
    TN                → the command names of `table`, sorted (compared with the match arms of the source)
    LT <i>            → row i of the translator's error alphabet `C16.luaErrTable` (name, arity text,
                        error literals, prefixes of formatted errors) | end
    SC <n> <hex-arg>*n <k> {c|p} <m> <aexpr>*m … R <ret> D <d>*k
                      → `execute_lua_script` on a script of k call statements: the EVAL frame (its KEYS / ARGV reach
                        the script through `parseCmd` + `envOfEval`), the statements (c = redis.call, p = redis.pcall;
                        aexpr = K<i> | A<i> | R<i> (the result of statement i) | <lua>), the return expression (r<i> | T<n> e1 … en | L <lua>) and, per
                        statement, the reply the CLIENT path gave for the same words (`-` = none): the executor is a
                        parameter of the model, here it replays these replies.
                        completed=<statements completed> reply=<resp> | crash
    SH {R|L} <i>      → row i of the shape table of `table` (R: both RESP parsers) / `luaTable` (L): name, arity rule,
                        arity text, constructors, slot kinds, optional slots, tail, option table, unknown-word
                        policy, literals of the finishing function | end
    FA <i>            → family i of `table`: name and the text of a missing sub-command | end
    HL <i>            → extract helper i of the RESP parsers as the slot kinds model it: name, parsed type, the text of
                        a parse failure (`std` = the text of Rust's ParseIntError) | end
    DF                → what a command name without a table entry answers: RESP parsers / translator
  RESP values (prefix notation):  +<hex>  -<hex>  :<int>  $<hex>  $-  *-  *<n> v1 … vn
  Lua values:                     nil true false i<int> n<int> s<hex> ok<hex> err<hex> t<n> v1 … vn
-/
namespace RedisVerif.Driver.C16
open RedisVerif RedisVerif.Driver RedisVerif.Grammar RedisVerif.LuaConv RedisVerif.LuaScript

def strOf (b : List Nat) : String := String.ofList (b.map Char.ofNat)

def hex16 (n : Nat) : String :=
  String.ofList ((List.range 16).reverse.map (fun i => hexDigit ((n / 16 ^ i) % 16)))

def showTok : Tok → String
  | .s b => "s" ++ hexOfBytes b
  | .d b => "d" ++ hexOfBytes b
  | .i n => s!"i{n}"
  | .n n => s!"n{n}"
  | .f bits => if f64IsNan bits then "fnan" else "f" ++ hex16 bits
  | .b v => if v then "b1" else "b0"
  | .none => "-"
  | .len k => s!"#{k}"

def showErr (e : Err) : String :=
  match e.text with
  | none => "crash"
  | some t => "ERR " ++ hexOfBytes t

def showRes : Res → String
  | .ok c => " ".intercalate ("OK" :: strOf c.ctor :: c.toks.map showTok)
  | .error e => showErr e

def showAccept : Res → String
  | .ok _ => "OK"
  | .error e => showErr e

def hexArgs (ts : List String) : Option (List (List Nat)) :=
  ts.mapM (fun t => match t.toList with
    | 'x' :: cs => parseHexBytes cs
    | _ => none)

def hexTail (t : String) (skip : Nat) : Option (List Nat) :=
  match t.toList.drop skip with
  | 'x' :: cs => parseHexBytes cs
  | _ => none

/-- parse one RESP value from the token stream (fuel = number of tokens) -/
def respP : Nat → P Resp
  | 0 => failure
  | fuel + 1 => do
    let t ← tok
    match t.toList with
    | '+' :: _ => match hexTail t 1 with | some b => pure (.simple b) | none => failure
    | '-' :: _ => match hexTail t 1 with | some b => pure (.error b) | none => failure
    | ':' :: cs => match (String.ofList cs).toInt? with | some i => pure (.int i) | none => failure
    | ['$', '-'] => pure (.bulk none)
    | '$' :: _ => match hexTail t 1 with | some b => pure (.bulk (some b)) | none => failure
    | ['*', '-'] => pure (.array none)
    | '*' :: cs => match (String.ofList cs).toNat? with
      | some n => do
        let xs ← repeatP n (respP fuel)
        pure (.array (some xs))
      | none => failure
    | _ => failure

def luaP : Nat → P LuaVal
  | 0 => failure
  | fuel + 1 => do
    let t ← tok
    match t.toList with
    | ['n', 'i', 'l'] => pure .nil
    | ['o', 't', 'h', 'e', 'r'] => pure .other
    | ['t', 'r', 'u', 'e'] => pure (.bool true)
    | ['f', 'a', 'l', 's', 'e'] => pure (.bool false)
    | 'i' :: cs => match (String.ofList cs).toInt? with | some i => pure (.int i) | none => failure
    | 'n' :: cs => match (String.ofList cs).toInt? with | some i => pure (.num i) | none => failure
    | 's' :: _ => match hexTail t 1 with | some b => pure (.str b) | none => failure
    | 'o' :: 'k' :: _ => match hexTail t 2 with | some b => pure (.okT b) | none => failure
    | 'e' :: 'r' :: 'r' :: _ => match hexTail t 3 with | some b => pure (.errT b) | none => failure
    | 't' :: cs => match (String.ofList cs).toNat? with
      | some n => do
        let xs ← repeatP n (luaP fuel)
        pure (.arr xs)
      | none => failure
    | _ => failure

mutual
partial def showResp : Resp → String
  | .simple s => "+" ++ hexOfBytes s
  | .error s => "-" ++ hexOfBytes s
  | .int i => s!":{i}"
  | .bulk none => "$-"
  | .bulk (some b) => "$" ++ hexOfBytes b
  | .array none => "*-"
  | .array (some xs) => " ".intercalate (s!"*{xs.length}" :: xs.map showResp)
end

mutual
partial def showLua : LuaVal → String
  | .nil => "nil"
  | .bool b => if b then "true" else "false"
  | .int i => s!"i{i}"
  | .num i => s!"n{i}"
  | .str b => "s" ++ hexOfBytes b
  | .okT s => "ok" ++ hexOfBytes s
  | .errT s => "err" ++ hexOfBytes s
  | .arr xs => " ".intercalate (s!"t{xs.length}" :: xs.map showLua)
  | .other => "other"
end

/-! ### shape rows -/

def showKind : ArgKind → String
  | .str => "str" | .sds => "sds" | .int => "int" | .u64 => "u64" | .flt => "flt" | .usz => "usz" | .kw => "kw" | .u32 => "u32" | .pos => "pos"

def showArg (a : Arg) : String :=
  match a.onErr with
  | none => showKind a.kind
  | some l => showKind a.kind ++ "!" ++ hexOfBytes l.text

def showArgs (l : List Arg) : String := if l.isEmpty then "-" else ",".intercalate (l.map showArg)

def showArity : Arity → String
  | .any => "any"
  | .exact n => s!"eq{n}"
  | .atLeast n => s!"ge{n}"
  | .between lo hi => s!"in{lo}-{hi}"
  | .evenAtLeast n => s!"even-ge{n}"
  | .oddAtLeast n => s!"odd-ge{n}"

def showMissing : Missing → String
  | .err l => "m=" ++ hexOfBytes l.text
  | .crash => "m=crash"
  | .ignore => "m=ignore"

def showOpt (o : OptSpec) : String :=
  strOf o.kw ++ ":" ++ showArgs o.vals ++ ":" ++ (if o.vals.isEmpty then "m=-" else showMissing o.missing) ++
    (match o.reject with
     | some f => ":r=" ++ hexOfBytes f.pre
     | none => "")

def showUnk : Unk → String
  | .lit l => "lit:" ++ hexOfBytes l.text
  | .fmt f => "fmt:" ++ hexOfBytes f.pre

def sortStrs (l : List String) : List String := (l.toArray.qsort (· < ·)).toList

def showTail : Tail → String
  | .none => "tail=none opts=- unk=-"
  | .ignore => "tail=ignore opts=- unk=-"
  | .many a => s!"tail=many:{showArg a} opts=- unk=-"
  | .pairs a b => s!"tail=pairs:{showArg a}:{showArg b} opts=- unk=-"
  | .scan tbl unk => "tail=scan opts=" ++ "|".intercalate (sortStrs (tbl.map showOpt)) ++ " unk=" ++ showUnk unk
  | .flagsPairs fl odd a b =>
    "tail=flags:" ++ showArg a ++ ":" ++ showArg b ++ ":" ++ hexOfBytes odd.text ++
      " opts=" ++ "|".intercalate (sortStrs (fl.map (fun f => strOf f ++ ":-:m=-"))) ++ " unk=break"
  | .raw => "tail=raw opts=- unk=-"

def showCond (tbl : List OptSpec) : Cond → String
  | .has i => match tbl[i]? with
    | some o => strOf o.kw
    | none => s!"?{i}"
  | .and a b => "(" ++ showCond tbl a ++ "&&" ++ showCond tbl b ++ ")"
  | .or a b => "(" ++ showCond tbl a ++ "||" ++ showCond tbl b ++ ")"
  | .countGt is n => "count(" ++ ",".intercalate (is.map fun i => match tbl[i]? with | some o => strOf o.kw | none => s!"?{i}") ++ s!")>{n}"

def showChecks (d : GenDesc) : String :=
  let tbl := match d.tail with
    | .scan t _ => t
    | _ => []
  if d.checks.isEmpty then "-" else "|".intercalate (d.checks.map fun c => showCond tbl c.1 ++ ":" ++ hexOfBytes c.2.text)

def showRow (r : ShapeRow) : String :=
  s!"name={strOf r.name} arity={showArity r.arity} aerr={hexOfBytes r.arityErr} " ++
  s!"ctor={"|".intercalate (sortStrs (r.gen.ctors.map strOf))} slots={showArgs r.gen.pre} opt={showArgs r.gen.opt} " ++
  showTail r.gen.tail ++
  " flits=" ++ (if r.gen.finLits.isEmpty then "-" else ";".intercalate (sortStrs (r.gen.finLits.map (fun l => hexOfBytes l.text)))) ++
  " checks=" ++ showChecks r.gen

/-! ### scripts -/

def aexprP (fuel : Nat) : P AExpr := do
  match (← get) with
  | [] => failure
  | t :: ts =>
    match t.toList with
    | 'K' :: cs => match (String.ofList cs).toNat? with
      | some i => do set ts; pure (.key i)
      | none => failure
    | 'A' :: cs => match (String.ofList cs).toNat? with
      | some i => do set ts; pure (.argv i)
      | none => failure
    | 'R' :: cs => match (String.ofList cs).toNat? with
      | some i => do set ts; pure (.res i)
      | none => failure
    | _ => do
      let v ← luaP fuel
      pure (.lit v)

def callP (fuel : Nat) : P Call := do
  let f ← tok
  let prot ← (match f with
    | "c" => pure false
    | "p" => pure true
    | _ => failure : P Bool)
  let m ← nat
  let args ← repeatP m (aexprP fuel)
  pure ⟨prot, args⟩

def retP : Nat → P Ret
  | 0 => failure
  | fuel + 1 => do
    let t ← tok
    match t.toList with
    | 'r' :: cs => match (String.ofList cs).toNat? with
      | some i => pure (.res i)
      | none => failure
    | 'T' :: cs => match (String.ofList cs).toNat? with
      | some n => do
        let xs ← repeatP n (retP fuel)
        pure (.tbl xs)
      | none => failure
    | ['L'] => do
      let v ← luaP fuel
      pure (.lit v)
    | _ => failure

def optRespP (fuel : Nat) : P (Option Resp) := do
  match (← get) with
  | "-" :: ts => do set ts; pure none
  | _ => do
    let r ← respP fuel
    pure (some r)

structure ScriptOp where
  frame : List (List Nat)
  script : Script
  direct : List (Option Resp)

def scriptOpP (fuel : Nat) : P ScriptOp := do
  let n ← nat
  let frame ← repeatP n bytesTok
  let k ← nat
  let calls ← repeatP k (callP fuel)
  let r ← tok
  if r != "R" then failure
  let ret ← retP fuel
  let d ← tok
  if d != "D" then failure
  let ds ← repeatP k (optRespP fuel)
  pure ⟨frame, ⟨calls, ret⟩, ds⟩

/-- the executor of the `SC` op: it answers the replies the client path gave, in order -/
def replayExec (ds : List Resp) (_ : Cmd) : List Resp × Resp :=
  match ds with
  | d :: t => (t, d)
  | [] => ([], .error (s2b "missing-direct-reply"))

/-- the replies the model's run will ask for: one per statement whose words (evaluated with the results so far)
    the translator accepts, up to the statement that ends the script -/
def alignReplies (env : Env) : List LuaVal → List Call → List (Option Resp) → List Resp
  | acc, c :: cs, d :: ds =>
    let r := d.getD (.error (s2b "missing-direct-reply"))
    let consumed := match c.words env acc with
      | some (w :: ws) => (parseLua (w :: ws)).isOk
      | _ => false
    let here := if consumed then [r] else []
    match doCall (fun (u : Unit) (_ : Cmd) => (u, r)) () c.prot (c.args.map (AExpr.eval env acc)) with
    | .value _ v => here ++ alignReplies env (acc ++ [v]) cs ds
    | .raise _ _ => here
    | .crash => []
  | _, _, _ => []

def runScriptOp (o : ScriptOp) : String :=
  match parseCmd o.frame with
  | .ok c =>
    match envOfEval c with
    | some env =>
      let ds := alignReplies env [] o.script.calls o.direct
      let r := runCalls replayExec env ds o.script.calls
      match (evalScript replayExec env ds o.script).2 with
      | some reply => s!"completed={r.results.length} reply={showResp reply}"
      | none => "crash"
    | none => "not-an-eval"
  | .error e => "frame-rejected " ++ showErr e

def showUnsigned : Except IntErr Nat → String
  | .ok n => s!"n{n}"
  | .error .empty => "empty"
  | .error .invalid => "invalid"
  | .error .overflow => "overflow"

/-- the extract helpers of the RESP parsers and the slot kind that models each -/
def helperRows : List (String × ArgKind × String) :=
  [ ("extract_string", .str, "-"), ("extract_sds", .sds, "-"), ("extract_integer", .int, "int64"),
    ("extract_float", .flt, "f64"), ("extract_i64", .int, "int64"), ("extract_u64", .u64, "u64") ]

def showHelper (r : String × ArgKind × String) : String :=
  let errs := argErrs ⟨r.2.1, none⟩
  let perr := match errs with
    | [] => "-"
    | [l] => hexOfBytes l.text
    | _ => "std"
  s!"name={r.1} ty={r.2.2} perr={perr}"

def elemArgs (ts : List String) : Option (List Elem) :=
  ts.mapM (fun t => match t.toList with
    | 'x' :: cs => (parseHexBytes cs).map Elem.bulk
    | ':' :: cs => (String.ofList cs).toInt?.map Elem.int
    | ['~'] => some Elem.other
    | _ => none)

def step (line : String) : String :=
  match tokens line with
  | "P" :: ts => match hexArgs ts with
    | some args => showRes (parseCmd args)
    | none => "bad-op"
  | "Z" :: ts => match hexArgs ts with
    | some args => showRes (parseCmdZc args)
    | none => "bad-op"
  | "PE" :: ts => match elemArgs ts with
    | some args => showRes (parseE args)
    | none => "bad-op"
  | "LP" :: ts => match hexArgs ts with
    | some args => showAccept (parseLua args)
    | none => "bad-op"
  | ["UP", t] => match hexArgs [t] with
    | some [b] => hexOfBytes (kw b)
    | _ => "bad-op"
  | ["LO", t] => match hexArgs [t] with
    | some [b] => hexOfBytes (lower (kw b))
    | _ => "bad-op"
  | ["F", t] => match hexArgs [t] with
    | some [b] => match parseF64 b with
      | some bits => showTok (.f bits)
      | none => "none"
    | _ => "bad-op"
  | ["I", t] => match hexArgs [t] with
    | some [b] => match parseI64 b with
      | some v => s!"i{v}"
      | none => "none"
    | _ => "bad-op"
  | ["U64", t] => match hexArgs [t] with
    | some [b] => showUnsigned (parseUnsigned u64Max b)
    | _ => "bad-op"
  | ["U32", t] => match hexArgs [t] with
    | some [b] => showUnsigned (parseUnsigned u32Max b)
    | _ => "bad-op"
  | "R2L" :: ts => match (respP (ts.length + 1)).run ts with
    | some (r, []) => showLua (respToLua r)
    | _ => "bad-op"
  | "L2R" :: ts => match (luaP (ts.length + 1)).run ts with
    | some (v, []) => showResp (luaToResp v)
    | _ => "bad-op"
  | "RT" :: ts => match (respP (ts.length + 1)).run ts with
    | some (r, []) => showResp (luaToResp (respToLua r))
    | _ => "bad-op"
  | "LA" :: ts => match (luaP (ts.length + 1)).run ts with
    | some (v, []) => match luaArgBytes v with
      | some b => "$" ++ hexOfBytes b
      | none => "refused"
    | _ => "bad-op"
  | "SC" :: ts => match (scriptOpP (ts.length + 1)).run ts with
    | some (o, []) => runScriptOp o
    | _ => "bad-op"
  | ["SH", g, i] => match i.toNat? with
    | some n =>
      let rows := if g == "R" then shapeRows table else if g == "L" then shapeRows luaTable else []
      if g != "R" && g != "L" then "bad-op" else
      match rows[n]? with
      | some r => showRow r
      | none => "end"
    | none => "bad-op"
  | ["FA", i] => match i.toNat? with
    | some n => match (familyRows table)[n]? with
      | some (nm, a) =>
        -- what an unknown sub-command `ZZZ` (no further argument) answers
        let probe := match findEntry table nm with
          | some (.family _ _ _ d) => (showRes (d (s2b "ZZZ") [])).replace " " "_"
          | _ => "?"
        s!"name={strOf nm} aerr={hexOfBytes a} probe={probe}"
      | none => "end"
    | none => "bad-op"
  | ["HL", i] => match i.toNat? with
    | some n => match helperRows[n]? with
      | some r => showHelper r
      | none => "end"
    | none => "bad-op"
  | ["DF"] =>
    let r := (showRes (parseCmd [s2b "ZZZ"])).replace " " "_"
    let l := (showAccept (parseLua [s2b "ZZZ"])).replace " " "_"
    s!"resp={r} lua={l}"
  | ["N2I", t] =>
    if t.length != 16 then "bad-op" else
    match t.toList.mapM Driver.hexVal with
    | some ds => s!":{f64ToI64 (ds.foldl (fun a d => a * 16 + d) 0)}"
    | none => "bad-op"
  | ["LF", t] =>
    if t.length != 16 then "bad-op" else
    match t.toList.mapM Driver.hexVal with
    | some ds => "$" ++ hexOfBytes (RedisVerif.LuaNum.fmtF64 (ds.foldl (fun a d => a * 16 + d) 0))
    | none => "bad-op"
  | ["TN"] =>
    let names := (table.map Entry.name).map strOf
    ",".intercalate (names.toArray.qsort (· < ·)).toList
  | ["LT", i] => match i.toNat? with
    | some n => match RedisVerif.C16.luaErrTable[n]? with
      | some r =>
        let j (l : List (List Nat)) : String := ";".intercalate (l.map hexOfBytes)
        s!"name={hexOfBytes r.name} arity={hexOfBytes r.arity} lits={j (r.lits.map Lit.text)} fmts={j (r.fmts.map Fmt.pre)}"
      | none => "end"
    | none => "bad-op"
  | _ => "bad-op"

end RedisVerif.Driver.C16
