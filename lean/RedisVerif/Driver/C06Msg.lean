import RedisVerif.Driver.C06
import RedisVerif.Props.C06Msg

/-
  C06 sub-driver, message level (`Model/Gossip.lean`).  Lines starting with `M`:
    MN <capPending> <capOutbound> <causal01> <n> <cfg>*      → ok
        cfg    = <enabled01> <rid> <collect01> <peerIdFixed01> <npeers> <peer>* <router>
        router = - | R <selective01> <nkeys> (<key> <ntargets> <target>*)*
    ML <i> <lop> O <n> <target>*                             → delta <rv>|none pend=<n> out=<n> lost=<new losses>
    MT <i> O <n> <target>* K <n> <ok01>*                     → epoch=<e> pk=<n> (<to>><msg>)* lost=<new losses>
    MH <i>                                                   → out=<n> lost=<new losses>
    MR <i> <router>                                          → ok
    MV <p> <tooLarge01>                                      → ok lost=<new losses>
    MQ <i>                                                   → pend=<n> [<ids>] out=<n> [<routed>] epoch=<e> sel=<b>
    MS <i>                                                   → <n> (<key> <rv> ;)*
    MK <key> <n> <node>*                                     → delivered=<b> to=<b> kind=<K|-> agree=<b> among=<b>
    MP <fixed01> <rid> <npeers> <peer>*                      → the gossip loop's peer_map: <n> (<id> <addr>)*
  a delta id is <origin>/<key>/<time>.<rid>; queues longer than 8 print their first and last 3.
  Every other line goes to the layer-1 / layer-2 driver (`Driver/C06.lean`).
-/
namespace RedisVerif.Driver.C06Msg
open RedisVerif RedisVerif.Driver RedisVerif.Gossip RedisVerif.Gossip.MCluster

structure MState where
  d : C06.DState
  cp : Caps
  m : MCluster

def MState.init : MState :=
  { d := C06.DState.init, cp := caps, m := MCluster.init false [] }

def parseRouter : P (Option Router) := do
  let t ← tok
  if t == "-" then pure none
  else if t == "R" then do
    let sel ← nat
    let nk ← nat
    let tb ← repeatP nk (do
      let k ← strKey
      let nt ← nat
      let ts ← repeatP nt nat
      pure (k, ts))
    pure (some { selective := sel != 0, targets := NMap.ofList tb })
  else failure

def parseCfg : P NodeCfg := do
  let en ← nat
  let rid ← nat
  let col ← nat
  let fx ← nat
  let np ← nat
  let ps ← repeatP np nat
  let r ← parseRouter
  pure { enabled := en != 0, rid := rid, peers := ps, collect := col != 0, peerIdFixed := fx != 0, router := r }

def parseOrder : P (List Nat) := do
  expect "O"
  let n ← nat
  repeatP n nat

def showId (m : Msg) : String := s!"{m.origin}/{showKey m.key}/{m.val.ts.time}.{m.val.ts.rid}"

def showIds (ds : List Msg) : String := "[" ++ ",".intercalate (ds.map showId) ++ "]"

def showGMsg : GMsg → String
  | .deltaBatch s ds e => s!"B:{s}:{e}:{showIds ds}"
  | .targetedDelta s t ds e => s!"T:{s}:{t}:{e}:{showIds ds}"
  | .syncRequest s => s!"Q:{s}"
  | .syncResponse s ds => s!"P:{s}:{showIds ds}"
  | .heartbeat s e => s!"H:{s}:{e}"

def showRouted (r : Routed) : String :=
  (match r.target with | none => "*" | some t => toString t) ++ "=" ++ showGMsg r.msg

def summary {α : Type} (f : α → String) (l : List α) : String :=
  if l.length ≤ 8 then " ".intercalate (l.map f)
  else " ".intercalate ((l.take 3).map f ++ ["…"] ++ (l.drop (l.length - 3)).map f)

def showLossReason : Loss → String
  | .pendingOverflow => "pending-overflow"
  | .outboundOverflow => "outbound-overflow"
  | .noAddress => "no-address"
  | .sendFailed => "send-failed"
  | .tooLarge => "too-large"

def showLoss (l : Msg × Loss × Option Nat) : String :=
  s!"{showId l.1}:{showLossReason l.2.1}:" ++ (match l.2.2 with | none => "-" | some a => toString a)

def newLosses (before after : MCluster) : String :=
  let l := after.lost.drop before.lost.length
  " ".intercalate (s!"lost={l.length}" :: l.map showLoss)

def agreeAmongB (c : Cluster) (S : List Nat) (k : Nat) : Bool :=
  S.all fun i => S.all fun j =>
    match c.nodes[i]?, c.nodes[j]? with
    | some si, some sj => (NMap.get si.keys k).map RV.strip == (NMap.get sj.keys k).map RV.strip
    | _, _ => true

def mstep (st : MState) (line : String) : MState × String :=
  match tokens line with
  | "MN" :: _ =>
    let p : P (Caps × Bool × List NodeCfg) := do
      expect "MN"
      let cpend ← nat
      let cout ← nat
      let cz ← nat
      let n ← nat
      let cfgs ← repeatP n parseCfg
      pure (⟨cpend, cout⟩, cz != 0, cfgs)
    match runP p line with
    | some (cp, cz, cfgs) => ({ st with cp := cp, m := MCluster.init cz cfgs }, "ok")
    | none => (st, "bad-op")
  | "ML" :: _ =>
    let p : P (Nat × LOp × List Nat) := do
      expect "ML"
      let i ← nat
      let op ← C06.parseLOp
      let o ← parseOrder
      pure (i, op, o)
    match runP p line with
    | some (i, op, o) =>
      let c' := st.m.step st.cp (.loc i op o)
      let d := if c'.issued.length > st.m.issued.length then
          match c'.issued.getLast? with
          | some m => s!"delta {showRV m.val}"
          | none => "none"
        else "none"
      let q := match c'.nodes[i]? with
        | some nd => s!"pend={nd.ps.pending.length} out={nd.g.outbound.length}"
        | none => "no-node"
      ({ st with m := c' }, s!"{d} {q} {newLosses st.m c'}")
    | none => (st, "bad-op")
  | "MT" :: _ =>
    let p : P (Nat × List Nat × List Bool) := do
      expect "MT"
      let i ← nat
      let o ← parseOrder
      expect "K"
      let n ← nat
      let oks ← repeatP n nat
      pure (i, o, oks.map (· != 0))
    match runP p line with
    | some (i, o, oks) =>
      let c' := st.m.step st.cp (.tick i o oks)
      let pk := c'.wire.drop st.m.wire.length
      let ep := match c'.nodes[i]? with | some nd => toString nd.g.epoch | none => "-"
      ({ st with m := c' },
        " ".intercalate ([s!"epoch={ep}", s!"pk={pk.length}"] ++ pk.map (fun p => s!"{p.to}>{showGMsg p.msg}")
          ++ [newLosses st.m c']))
    | none => (st, "bad-op")
  | ["MH", i] =>
    match i.toNat? with
    | some i =>
      let c' := st.m.step st.cp (.heartbeat i)
      let q := match c'.nodes[i]? with | some nd => s!"out={nd.g.outbound.length}" | none => "no-node"
      ({ st with m := c' }, s!"{q} {newLosses st.m c'}")
    | none => (st, "bad-op")
  | "MR" :: _ =>
    match runP (do expect "MR"; let i ← nat; let r ← parseRouter; pure (i, r)) line with
    | some (i, r) => ({ st with m := st.m.step st.cp (.setRouter i r) }, "ok")
    | none => (st, "bad-op")
  | ["MV", p, tl] =>
    match p.toNat?, tl.toNat? with
    | some p, some tl =>
      let c' := st.m.step st.cp (.recv p (tl != 0))
      ({ st with m := c' }, s!"ok {newLosses st.m c'}")
    | _, _ => (st, "bad-op")
  | ["MQ", i] =>
    match i.toNat? with
    | some i =>
      match st.m.nodes[i]? with
      | some nd =>
        (st, s!"pend={nd.ps.pending.length} [{summary showId nd.ps.pending}] out={nd.g.outbound.length} [{summary showRouted nd.g.outbound}] epoch={nd.g.epoch} sel={C06.b01 nd.g.isSelective}")
      | none => (st, "bad-op")
    | none => (st, "bad-op")
  | ["MS", i] =>
    match i.toNat? with
    | some i =>
      match st.m.nodes[i]? with
      | some nd =>
        let s := nd.ps.sh
        (st, " ".intercalate (toString s.keys.length :: s.keys.map (fun p => s!"{showKey p.1} {showRV p.2} ;")))
      | none => (st, "bad-op")
    | none => (st, "bad-op")
  | "MK" :: _ =>
    match runP (do expect "MK"; let k ← strKey; let n ← nat; let s ← repeatP n nat; pure (k, s)) line with
    | some (k, S) =>
      let c := st.m.abs
      let kind := match (List.range 6).find? (fun K => decide (C06.KindStable c k K)) with
        | some K => toString K | none => "-"
      (st, s!"delivered={C06.b01 (decide (C06.Delivered c k))} to={C06.b01 (decide (C06.DeliveredTo c S k))} kind={kind} agree={C06.b01 (C06.agreeB c k)} among={C06.b01 (agreeAmongB c S k)}")
    | none => (st, "bad-op")
  | "MP" :: _ =>
    match runP (do expect "MP"; let fx ← nat; let rid ← nat; let n ← nat; let ps ← repeatP n nat; pure (fx, rid, ps)) line with
    | some (fx, rid, ps) =>
      let pm := peerMap { enabled := true, rid := rid, peers := ps, collect := false, peerIdFixed := fx != 0, router := none }
      (st, " ".intercalate (toString pm.length :: pm.map (fun p => s!"{p.1} {p.2}")))
    | none => (st, "bad-op")
  | _ => (st, "bad-op")

def stepAll (st : MState) (line : String) : MState × String :=
  match tokens line with
  | t :: _ =>
    if t == "MN" || t == "ML" || t == "MT" || t == "MH" || t == "MR" || t == "MV" || t == "MQ" || t == "MS"
        || t == "MK" || t == "MP" then mstep st line
    else
      let r := C06.stepAll st.d line
      ({ st with d := r.1 }, r.2)
  | [] => (st, "bad-op")

end RedisVerif.Driver.C06Msg
