import RedisVerif.Driver.Codec
import RedisVerif.Model.Stream
import RedisVerif.Model.StreamActor
import RedisVerif.Model.StreamNode
import RedisVerif.Driver.ManifestJson

/-
  C12 / C13 sub-driver (stateful): one process (`StreamingPersistence` + `Compactor`) on an
  object store with a fault oracle.
    NEW <rid> <nf> (<call-index> <fail|partial|corrupt>)*      → ok
    PUSH <key> <rv>                                     → ok pending=<n>
    FLUSH <sz>                                          → ok empty calls=<c> | ok seg=<id> n=<k> pending=<n> calls=<c>
                                                          | err pending=<n> calls=<c>
    COMPACT <target> <min> <maxper> <now> <ttlms> <sz>     → nothing|err|cleaned [ids]|emptied [ids] tombs=<n>|
                                                          compacted [ids] -> <id> n=<k> tombs=<n>   (+ calls=<c>)
    CIFNEEDED <target> <min> <maxper> <now> <ttlms> <max_segments> <sz> → Compactor::compact_if_needed: as COMPACT
                                                          (`nothing` = Ok(None): below the threshold or NothingToCompact)
    REC                                                 → recovery of the current store image
    MAN  (AMAN: the actor's store)                      → every field of the stored manifest: man v= rid= next= chk= segs=[id:count:size:min:max,..]
    INTERLEAVE <target> <min> <maxper> <now> <ttlms> <szc> <szf> → a compaction with one whole flush (of the current
                                                          buffer) between its reads and its writes:
                                                          flush=<..> compact=<..> calls=<c>          (C13)
    RESTART <c> <0|1>                                   → a new process on the crash image of call c (then ops as usual)
    CRASH <c> <0|1>                                     → the recorded workload re-run with the process dying at
                                                          store call c (1: inside a put, leaving a torn object):
                                                          recovery of the store image + refs=<0|1>

  The layer above the writer (M4b, `Model/StreamActor.lean`):
    XNEW <rid> <intervalNs> <maxSize> <maxDeltas> <backpressure> <cap> <now> <nf> (<idx> <fault>)*   → ok
    XCAP                                                → PERSISTENCE_CHANNEL_CAPACITY of the model
    XPUSH <key> <rv> <klen>                             → StreamingPersistence::push: ok|err + pending=<n> bytes=<b>
    XSHOULD                                             → should_flush(): 0|1
    XFLUSH <sz>                                         → flush(): as FLUSH, plus bytes=<b>
    XADV <ms>                                           → the clock advances: ok
    XWPUSH <key> <rv> <klen> / XWSHOULD / XWFLUSH       → the stand-alone WriteBuffer (push / should_flush / flush)
    XTICK / XFLUSHQ                                     → one iteration / the final flush of persistence::PersistenceWorker:
                                                          pending=<n> calls=<c> segs=[..]
    XWPUSHQ <key> <rv> <klen> / XWTICK <elapsed>        → WriteBuffer::push without looking at the result / one iteration of
                                                          FlushWorker, DeltaSinkPersistenceWorker: pending=<n> bytes=<b> calls=<c>
    ASEND <key> <rv> <klen>                             → DeltaSinkSender::send: ok | err disconnected
    ADRAIN / ATICK / ASTOPBRIDGE / AREQSHUTDOWN         → one event each: ok
    ARUN                                                → the actor handles messages until its mailbox is empty (or it
                                                          exits): calls=<c> segs=[id:count,..]     (ARUNQ: → ok)
    XFAILALL <0|1>                                      → every store call fails (without effect) while set
    SNEW / SPUT <name> <tag> / SGET <name> / SEXISTS <name> / SHEAD <name> / SDEL <name> / SREN <a> <b> /
    SLIST <all|seg|chk|none>                            → the object store operations themselves (fault-free)
    AMISSING                                            → stored=<n> missing=<n> <keys of the updates handed to the sink
                                                          that are in no confirmed segment, sorted>
    AREC                                                → recovery of the actor's store image
    ALEDGER                                             → sent=<n> accepted=<n> acked=<n> pending=<n> inflight=<n>
                                                          rejected=<n> skipped=<n> dropped=<n>

  A node over several lives (M4c, `Model/StreamNode.lean`): the A-events since the last XNEW / ALIFE are recorded;
    ALIFE <c|-> <0|1> <intervalNs> <maxSize> <maxDeltas> <backpressure> <cap> <now> <nf> (<idx> <fault>)*
                                                        → the process of the current life died at store call c (1: inside a
                                                          put, a torn object stays; `-`: it ran to the end of its events); a NEW
                                                          process with this configuration starts on the store that is left:
                                                          ok replay=<0|1> segs=[..]
    AHIST                                               → fold <per-key merge of every update confirmed in any life so far>
                                                          exact=<0|1> (the instance of `C12.node_history_exact`)
-/
namespace RedisVerif.Driver.C12
open RedisVerif RedisVerif.Driver RedisVerif.Stream

structure St where
  /-- the store the recorded workload started from (empty, or a crash image after `RESTART`) -/
  base : Store
  rid : Nat
  faults : List (Nat × Fault)
  ops : List Op
  sys : Sys
  /-- the workload and faults of the last `NEW` case (what `RESTART` crashes) -/
  rootFaults : List (Nat × Fault)
  rootOps : List Op
  restarted : Bool
  /-- M4b: configuration, mailbox capacity, faults and state of the actor pipeline -/
  acfg : StreamActor.WbCfg := default
  acap : Nat := 0
  afaults : List (Nat × Fault) := []
  afailAll : Bool := false
  act : StreamActor.A := default
  wb : StreamActor.WB := StreamActor.WB.init
  /-- M4c: the events of the current life (newest first), its clock reading at start, what earlier lives left -/
  nevs : List StreamNode.NEv := []
  anow : Nat := 0
  hist : StreamNode.Hist := { store := [], confirmed := [] }
  deriving Inhabited

def init : St := { base := [], rid := 0, faults := [], ops := [], sys := Sys.init [] 0, rootFaults := [], rootOps := [], restarted := false }

def oracleOf (faults : List (Nat × Fault)) : Oracle := fun n =>
  match faults.lookup n with
  | some f => f
  | none => .ok

def b01 (b : Bool) : String := if b then "1" else "0"

/-- insertion sort of strings (canonical multiset rendering) -/
def insStr (x : String) : List String → List String
  | [] => [x]
  | y :: ys => if x ≤ y then x :: y :: ys else y :: insStr x ys

def sortStr (l : List String) : List String := l.foldr insStr []

def showDelta (p : Delta) : String := s!"{showKey p.1} {showRV p.2} ;"

def showDeltasSorted (l : List Delta) : String :=
  " ".intercalate (toString l.length :: sortStr (l.map showDelta))

def showDeltas (l : List Delta) : String :=
  " ".intercalate (toString l.length :: l.map showDelta)

def showRec : Except RecErr Recovered → String
  | .error .manifest => "err manifest"
  | .error .io => "err io"
  | .error .checkpoint => "err checkpoint"
  | .error .segment => "err segment"
  | .ok r =>
    let chk := match r.chk with
      | none => "-"
      | some m => showDeltas m
    s!"ok chk={chk} deltas {showDeltasSorted r.deltas} fold {showDeltas (foldState r.updates)}"

def showIds (l : List Nat) : String := "[" ++ ",".intercalate (l.map toString) ++ "]"

def showCompact : CompactOut → String
  | .nothing => "nothing"
  | .error => "err"
  | .cleaned ids => s!"cleaned {showIds ids}"
  | .emptied ids t => s!"emptied {showIds ids} tombs={t}"
  | .compacted ids id n t => s!"compacted {showIds ids} -> {id} n={n} tombs={t}"

def parseFault : String → Option Fault
  | "fail" => some .fail
  | "partial" => some .failPartial
  | "corrupt" => some .readCorrupt
  | _ => none

def parseFaults : List String → Option (List (Nat × Fault))
  | [] => some []
  | [_] => none
  | i :: f :: rest => do
    let n ← i.toNat?
    let ft ← parseFault f
    let r ← parseFaults rest
    pure ((n, ft) :: r)

def allOkO : Oracle := fun _ => .ok

/-- every field of the manifest object in a store -/
def showManifest (st : Store) : String :=
  match NMap.get st manifestName with
  | some (.manifest m) =>
    let chk := match m.checkpoint with
      | none => "-"
      | some c => s!"{c.name}:{c.last}"
    let segs := ",".intercalate (m.segments.map (fun sg => s!"{sg.id}:{sg.count}:{sg.size}:{sg.minTs}:{sg.maxTs}"))
    s!"man v={m.version} rid={m.rid} next={m.next} chk={chk} segs=[{segs}]"
  | some _ => "man unparsable"
  | none => "man none"

def showSegs (st : Store) : String :=
  match NMap.get st manifestName with
  | some (.manifest m) => "[" ++ ",".intercalate (m.segments.map (fun sg => s!"{sg.id}:{sg.count}")) ++ "]"
  | some _ => "unparsable"
  | none => "[]"

/-- the actor handles messages until its mailbox is empty or it has exited (fuel = mailbox length) -/
def actorDrain (F : Oracle) (cfg : StreamActor.WbCfg) (cap : Nat) : Nat → StreamActor.A → StreamActor.A
  | 0, a => a
  | n + 1, a =>
    if a.alive && !a.mailbox.isEmpty then actorDrain F cfg cap n (StreamActor.step F cfg cap a (.actor 0)) else a

/-- `actorDrain` together with the number of messages it handled -/
def actorDrainC (F : Oracle) (cfg : StreamActor.WbCfg) (cap : Nat) : Nat → StreamActor.A → Nat → StreamActor.A × Nat
  | 0, a, k => (a, k)
  | n + 1, a, k =>
    if a.alive && !a.mailbox.isEmpty then actorDrainC F cfg cap n (StreamActor.step F cfg cap a (.actor 0)) (k + 1) else (a, k)

def sdelta (line : String) (kw : String) : Option StreamActor.SDelta :=
  let p : P StreamActor.SDelta := do
    expect kw
    let k ← strKey
    let v ← rv
    let n ← nat
    pure ((k, v), n)
  runP p line

def stepX (s : St) (line : String) : Option (St × String) :=
  let F : Oracle := if s.afailAll then (fun _ => Fault.fail) else oracleOf s.afaults
  let ev (e : StreamActor.Ev) : Option (St × String) :=
    some ({ s with act := StreamActor.step F s.acfg s.acap s.act e, nevs := .pipe e :: s.nevs }, "ok")
  match tokens line with
  | "XNEW" :: r :: a :: b :: c :: d :: e :: f :: nf :: rest =>
    match r.toNat?, a.toNat?, b.toNat?, c.toNat?, d.toNat?, e.toNat?, f.toNat?, nf.toNat?, parseFaults rest with
    | some rid, some iv, some ms, some md, some bp, some cap, some now, some n, some fs =>
      if fs.length = n then
        some ({ s with rid := rid, acfg := { intervalNs := iv, maxSize := ms, maxDeltas := md, backpressure := bp },
                       acap := cap, afaults := fs, afailAll := false, act := StreamActor.A.init [] rid now, wb := StreamActor.WB.init,
                       nevs := [], anow := now, hist := { store := [], confirmed := [] } }, "ok")
      else some (s, "bad-op")
    | _, _, _, _, _, _, _, _, _ => some (s, "bad-op")
  | ["XCAP"] => some (s, toString StreamActor.channelCapacity)
  | "XPUSH" :: _ =>
    match sdelta line "XPUSH" with
    | some d =>
      let r := StreamActor.pushX s.acfg s.act.x d
      let a' : StreamActor.A := { s.act with x := r.1 }
      some ({ s with act := a' }, s!"{if r.2 then "ok" else "err"} pending={a'.x.p.buffer.length} bytes={a'.x.size}")
    | none => some (s, "bad-op")
  | ["XSHOULD"] => some (s, b01 (StreamActor.shouldFlush s.acfg s.act.now s.act.x))
  | ["XFLUSH", z] =>
    match z.toNat? with
    | some sz =>
      let r := StreamActor.flushX F sz s.act.now s.act.w s.act.x
      let a' := StreamActor.doFlush F sz s.act
      let o := match r.2.2 with
        | .empty => s!"ok empty calls={a'.w.calls}"
        | .flushed id n => s!"ok seg={id} n={n} pending={a'.x.p.buffer.length} calls={a'.w.calls}"
        | .error => s!"err pending={a'.x.p.buffer.length} calls={a'.w.calls}"
      some ({ s with act := a' }, s!"{o} bytes={a'.x.size}")
    | none => some (s, "bad-op")
  | ["XTICK"] =>
    -- one iteration of persistence::PersistenceWorker::run (`if should_flush() { flush() }`) = the Tick arm
    let a' := StreamActor.maybeFlush F s.acfg 0 s.act
    some ({ s with act := a' }, s!"pending={a'.x.p.buffer.length} calls={a'.w.calls} segs={showSegs a'.w.store}")
  | ["XFLUSHQ"] =>
    let a' := StreamActor.doFlush F 0 s.act
    some ({ s with act := a' }, s!"pending={a'.x.p.buffer.length} calls={a'.w.calls} segs={showSegs a'.w.store}")
  | "XWPUSHQ" :: _ =>
    match sdelta line "XWPUSHQ" with
    | some d => some ({ s with wb := (StreamActor.wbPush s.acfg s.wb d).1 }, "ok")
    | none => some (s, "bad-op")
  | ["XWTICK", e] =>
    -- one iteration of FlushWorker::run / DeltaSinkPersistenceWorker::run: `if should_flush() { flush() }`
    match e.toNat? with
    | some el =>
      let b := s.wb
      let should := if b.deltas.isEmpty then false
                    else decide (b.bytes ≥ s.acfg.maxSize) || decide (b.deltas.length ≥ s.acfg.maxDeltas) || el != 0
      if should then
        let r := StreamActor.wbFlush F s.act.w s.wb
        some ({ s with wb := r.2.1, act := { s.act with w := r.1 } }, s!"pending={r.2.1.deltas.length} bytes={r.2.1.bytes} calls={r.1.calls}")
      else some (s, s!"pending={b.deltas.length} bytes={b.bytes} calls={s.act.w.calls}")
    | none => some (s, "bad-op")
  | ["XADV", m] =>
    match m.toNat? with
    | some ms => ev (.advance ms)
    | none => some (s, "bad-op")
  | "XWPUSH" :: _ =>
    match sdelta line "XWPUSH" with
    | some d =>
      let r := StreamActor.wbPush s.acfg s.wb d
      some ({ s with wb := r.1 }, s!"{if r.2 then "ok" else "err"} pending={r.1.deltas.length} bytes={r.1.bytes}")
    | none => some (s, "bad-op")
  | ["XWSHOULD", e] =>
    -- `last_flush.elapsed() >= flush_interval` is real time: the harness passes what it was
    match e.toNat? with
    | some el =>
      let b := s.wb
      some (s, b01 (if b.deltas.isEmpty then false
                    else decide (b.bytes ≥ s.acfg.maxSize) || decide (b.deltas.length ≥ s.acfg.maxDeltas) || el != 0))
    | none => some (s, "bad-op")
  | ["XWFLUSH"] =>
    let r := StreamActor.wbFlush F s.act.w s.wb
    let o := match r.2.2 with
      | none => "ok none"
      | some true => s!"ok seg={s.wb.counter}"
      | some false => "err"
    some ({ s with wb := r.2.1, act := { s.act with w := r.1 } }, s!"{o} pending={r.2.1.deltas.length} bytes={r.2.1.bytes} calls={r.1.calls}")
  | "ASEND" :: _ =>
    match sdelta line "ASEND" with
    | some d =>
      some ({ s with act := StreamActor.step F s.acfg s.acap s.act (.send d), nevs := .pipe (.send d) :: s.nevs },
        if s.act.bridge then "ok" else "err disconnected")
    | none => some (s, "bad-op")
  | ["ADRAIN"] => ev .drain
  | ["ATICK"] => ev .bridgeTick
  | ["ASTOPBRIDGE"] => ev .stopBridge
  | ["AREQSHUTDOWN"] => ev .reqShutdown
  | ["ARUN"] =>
    let (a', k) := actorDrainC F s.acfg s.acap (s.act.mailbox.length + 1) s.act 0
    some ({ s with act := a', nevs := List.replicate k (.pipe (.actor 0)) ++ s.nevs }, s!"calls={a'.w.calls} segs={showSegs a'.w.store}")
  | ["ARUNQ"] =>
    let (a', k) := actorDrainC F s.acfg s.acap (s.act.mailbox.length + 1) s.act 0
    some ({ s with act := a',
                   nevs := List.replicate k (.pipe (.actor 0)) ++ s.nevs }, "ok")
  -- the object store itself (InMemory / LocalFs / harness FaultStore vs `Stream.World`), names as codes,
  -- contents as tags
  | ["SNEW"] => some ({ s with act := StreamActor.A.init [] s.rid 0 }, "ok")
  | ["SPUT", n, t] =>
    match n.toNat?, t.toNat? with
    | some n, some t =>
      let r := s.act.w.put allOkO n (.checkpoint [] t)
      some ({ s with act := { s.act with w := r.1 } }, "ok")
    | _, _ => some (s, "bad-op")
  | ["SGET", n] =>
    match n.toNat? with
    | some n =>
      let r := s.act.w.get allOkO n
      let o := match r.2 with
        | .ok (.checkpoint _ t) => s!"ok {t}"
        | .ok _ => "ok ?"
        | .err true => "err notfound"
        | .err false => "err other"
      some ({ s with act := { s.act with w := r.1 } }, o)
    | none => some (s, "bad-op")
  | ["SEXISTS", n] =>
    match n.toNat? with
    | some n =>
      let r := s.act.w.probe allOkO n
      let o := match r.2 with
        | .ok b => b01 b
        | .err _ => "err"
      some ({ s with act := { s.act with w := r.1 } }, o)
    | none => some (s, "bad-op")
  | ["SHEAD", n] =>
    match n.toNat? with
    | some n =>
      let r := s.act.w.head allOkO n
      let o := match r.2 with
        | .ok _ => "ok"
        | .err true => "err notfound"
        | .err false => "err other"
      some ({ s with act := { s.act with w := r.1 } }, o)
    | none => some (s, "bad-op")
  | ["SDEL", n] =>
    match n.toNat? with
    | some n =>
      let r := s.act.w.delete allOkO n
      let o := match r.2 with
        | .ok _ => "ok"
        | .err _ => "err"
      some ({ s with act := { s.act with w := r.1 } }, o)
    | none => some (s, "bad-op")
  | ["SREN", a, b] =>
    match a.toNat?, b.toNat? with
    | some a, some b =>
      let r := s.act.w.rename allOkO a b
      let o := match r.2 with
        | .ok _ => "ok"
        | .err true => "err notfound"
        | .err false => "err other"
      some ({ s with act := { s.act with w := r.1 } }, o)
    | _, _ => some (s, "bad-op")
  | ["SLIST", cls] =>
    let r := s.act.w.list allOkO
    let keep (n : Nat) : Bool :=
      match cls with
      | "seg" => n ≥ 2 && n % 2 == 0
      | "chk" => n ≥ 3 && n % 2 == 1
      | "none" => false
      | _ => true
    let o := match r.2 with
      | .ok ks => "[" ++ ",".intercalate ((ks.filter keep).map toString) ++ "]"
      | .err _ => "err"
    some ({ s with act := { s.act with w := r.1 } }, o)
  | ["XFAILALL", b] => some ({ s with afailAll := b != "0" }, "ok")
  | ["AMISSING"] =>
    -- everything handed to the sink that is in no confirmed segment, by key
    let a := s.act
    let lost := StreamActor.inFlight a ++ a.rejected ++ a.skipped ++ a.dropped
    let keys := sortStr (lost.map (fun d => showKey d.1))
    some (s, s!"stored={a.acked.length} missing={keys.length} {" ".intercalate keys}")
  | ["ACOMPACT", a, b, c, d, d2, ms, e] =>
    -- a pass of the compaction worker start_workers spawned, on the actor's store
    match a.toNat?, b.toNat?, c.toNat?, d.toNat?, d2.toNat?, ms.toNat?, e.toNat? with
    | some target, some mn, some mx, some now, some ttl, some maxSegs, some sz =>
      let cfg : CompactCfg := { target := target, minSegs := mn, maxPer := mx, now := now, ttlMs := ttl }
      let r := compactIfNeeded F cfg maxSegs sz s.act.w
      some ({ s with act := { s.act with w := r.1 }, nevs := .compactPass cfg maxSegs sz :: s.nevs },
        s!"calls={r.1.calls} segs={showSegs r.1.store}")
    | _, _, _, _, _, _, _ => some (s, "bad-op")
  | "ALIFE" :: c :: p :: a :: b :: c2 :: d :: e :: f :: nf :: rest =>
    match p.toNat?, a.toNat?, b.toNat?, c2.toNat?, d.toNat?, e.toNat?, f.toNat?, nf.toNat?, parseFaults rest with
    | some torn, some iv, some ms, some md, some bp, some cap, some now, some n, some fs =>
      if fs.length ≠ n then some (s, "bad-op") else
      let F0 := oracleOf s.afaults
      let F' : Oracle := match c.toNat? with
        | some ci => fun n => if n = ci then (if torn != 0 then .crashPartial else .crash) else F0 n
        | none => F0
      let life : StreamNode.Life := { F := F', wcfg := s.acfg, cap := s.acap, now := s.anow, evs := s.nevs.reverse }
      let h' := StreamNode.runLife s.rid s.hist life
      -- self-check: without a crash the recorded events reproduce the store the driver stepped to
      let replay := c.toNat?.isSome || decide (h'.store = s.act.w.store)
      some ({ s with acfg := { intervalNs := iv, maxSize := ms, maxDeltas := md, backpressure := bp }, acap := cap,
                     afaults := fs, afailAll := false, act := StreamActor.A.init h'.store s.rid now,
                     nevs := [], anow := now, hist := h' },
            s!"ok replay={b01 replay} segs={showSegs h'.store}")
    | _, _, _, _, _, _, _, _, _ => some (s, "bad-op")
  | ["AHIST"] =>
    let conf := s.hist.confirmed ++ s.act.acked
    let exact := match recover s.act.w.store s.rid with
      | .ok r => decide (foldState r.updates = foldState conf)
      | .error _ => false
    some (s, s!"fold {showDeltas (foldState conf)} exact={b01 exact}")
  | ["AREC"] => some (s, showRec (recover s.act.w.store s.rid))
  | ["AMAN"] => some (s, showManifest s.act.w.store)
  | ["ALEDGER"] =>
    let a := s.act
    some (s, s!"sent={a.sent.length} accepted={a.accepted.length} acked={a.acked.length} pending={a.x.p.buffer.length} inflight={(StreamActor.inFlight a).length} rejected={a.rejected.length} skipped={a.skipped.length} dropped={a.dropped.length}")
  | _ => none

def step (s : St) (line : String) : St × String :=
  match MJ.step line with
  | some o => (s, o)
  | none =>
  match stepX s line with
  | some r => r
  | none =>
  match tokens line with
  | "NEW" :: r :: nf :: rest =>
    match r.toNat?, nf.toNat?, parseFaults rest with
    | some rid, some n, some fs =>
      if fs.length = n then ({ base := [], rid := rid, faults := fs, ops := [], sys := Sys.init [] rid, rootFaults := fs, rootOps := [], restarted := false }, "ok")
      else (s, "bad-op")
    | _, _, _ => (s, "bad-op")
  | ["FLUSH", a] =>
    match a.toNat? with
    | some sz =>
      let F := oracleOf s.faults
      let r := flushWith current.restoreBuffer F sz s.sys.w s.sys.p
      let sys' := stepWith current F s.sys (.flush sz)
      let o := match r.2.2 with
        | .empty => s!"ok empty calls={sys'.w.calls}"
        | .flushed id n => s!"ok seg={id} n={n} pending={sys'.p.buffer.length} calls={sys'.w.calls}"
        | .error => s!"err pending={sys'.p.buffer.length} calls={sys'.w.calls}"
      ({ s with sys := sys', ops := s.ops ++ [.flush sz], rootOps := if s.restarted then s.rootOps else s.rootOps ++ [.flush sz] }, o)
    | none => (s, "bad-op")
  | ["COMPACT", a, b, c, d, d2, e] =>
    match a.toNat?, b.toNat?, c.toNat?, d.toNat?, d2.toNat?, e.toNat? with
    | some target, some mn, some mx, some now, some ttl, some sz =>
      let cfg : CompactCfg := { target := target, minSegs := mn, maxPer := mx, now := now, ttlMs := ttl }
      let F := oracleOf s.faults
      let r := compactWith current.compact F cfg sz s.sys.w
      let sys' := stepWith current F s.sys (.compact cfg sz)
      ({ s with sys := sys', ops := s.ops ++ [.compact cfg sz], rootOps := if s.restarted then s.rootOps else s.rootOps ++ [.compact cfg sz] }, s!"{showCompact r.2} calls={sys'.w.calls}")
    | _, _, _, _, _, _ => (s, "bad-op")
  | ["CIFNEEDED", a, b, c, d, d2, ms, e] =>
    match a.toNat?, b.toNat?, c.toNat?, d.toNat?, d2.toNat?, ms.toNat?, e.toNat? with
    | some target, some mn, some mx, some now, some ttl, some maxSegs, some sz =>
      let cfg : CompactCfg := { target := target, minSegs := mn, maxPer := mx, now := now, ttlMs := ttl }
      let F := oracleOf s.faults
      let r := compactIfNeeded F cfg maxSegs sz s.sys.w
      -- not recorded in `ops` (no CRASH re-run over histories with this entry point)
      ({ s with sys := { s.sys with w := r.1 } }, s!"{showCompact r.2} calls={r.1.calls}")
    | _, _, _, _, _, _, _ => (s, "bad-op")
  | ["CNEEDS", ms] =>
    match ms.toNat? with
    | some maxSegs =>
      let r := needsCompaction (oracleOf s.faults) maxSegs s.sys.w
      let o := match r.2 with
        | some b => b01 b
        | none => "err"
      ({ s with sys := { s.sys with w := r.1 } }, s!"{o} calls={r.1.calls}")
    | none => (s, "bad-op")
  | ["CIFNEEDEDQ", a, b, c, d, d2, ms, e] =>
    match a.toNat?, b.toNat?, c.toNat?, d.toNat?, d2.toNat?, ms.toNat?, e.toNat? with
    | some target, some mn, some mx, some now, some ttl, some maxSegs, some sz =>
      let cfg : CompactCfg := { target := target, minSegs := mn, maxPer := mx, now := now, ttlMs := ttl }
      let r := compactIfNeeded (oracleOf s.faults) cfg maxSegs sz s.sys.w
      ({ s with sys := { s.sys with w := r.1 } }, s!"calls={r.1.calls}")
    | _, _, _, _, _, _, _ => (s, "bad-op")
  | ["INTERLEAVE", a, b, c, d, d2, e, f] =>
    match a.toNat?, b.toNat?, c.toNat?, d.toNat?, d2.toNat?, e.toNat?, f.toNat? with
    | some target, some mn, some mx, some now, some ttl, some szc, some szf =>
      let cfg : CompactCfg := { target := target, minSegs := mn, maxPer := mx, now := now, ttlMs := ttl }
      let F := oracleOf s.faults
      let r := compactInterleaved current.restoreBuffer current.compact F cfg szc s.sys.w (some (s.sys.p, szf))
      let fo := match r.2.2 with
        | .empty => "empty"
        | .flushed id n => s!"ok seg={id} n={n}"
        | .error => "err"
      let p' : Pers := match r.2.2 with
        | .flushed _ _ => { s.sys.p with buffer := [] }
        | .error => if current.restoreBuffer then s.sys.p else { s.sys.p with buffer := [] }
        | .empty => s.sys.p
      ({ s with sys := { s.sys with w := r.1, p := p' } }, s!"flush={fo} compact={showCompact r.2.1} calls={r.1.calls}")
    | _, _, _, _, _, _, _ => (s, "bad-op")
  | ["REC"] => (s, showRec (recover s.sys.w.store s.rid))
  | ["MAN"] => (s, showManifest s.sys.w.store)
  | ["CRASH", a, b] =>
    match a.toNat?, b.toNat? with
    | some c, some p =>
      let F := oracleOf s.faults
      let F' : Oracle := fun n => if n = c then (if p != 0 then .crashPartial else .crash) else F n
      let sys' := runWith current F' (Sys.init s.base s.rid) s.ops
      (s, s!"{showRec (recover sys'.w.store s.rid)} refs={b01 (refsComplete sys'.w.store)}")
    | _, _ => (s, "bad-op")
  | ["RESTART", a, b] =>
    -- the process died at store call c of the recorded workload; a NEW process starts on the
    -- store image that is left (empty buffer, no faults from here on)
    match a.toNat?, b.toNat? with
    | some c, some p =>
      let F := oracleOf s.rootFaults
      let F' : Oracle := fun n => if n = c then (if p != 0 then .crashPartial else .crash) else F n
      let img := (runWith current F' (Sys.init [] s.rid) s.rootOps).w.store
      ({ s with base := img, faults := [], ops := [], sys := Sys.init img s.rid, restarted := true }, "ok")
    | _, _ => (s, "bad-op")
  | "PUSH" :: _ =>
    let p : P Delta := do
      expect "PUSH"
      let k ← strKey
      let v ← rv
      pure (k, v)
    match runP p line with
    | some d =>
      let sys' := stepWith current (oracleOf s.faults) s.sys (.push d)
      ({ s with sys := sys', ops := s.ops ++ [.push d], rootOps := if s.restarted then s.rootOps else s.rootOps ++ [.push d] }, s!"ok pending={sys'.p.buffer.length}")
    | none => (s, "bad-op")
  | _ => (s, "bad-op")

end RedisVerif.Driver.C12
