import RedisVerif.Driver.C01
import RedisVerif.Model.SkipList
import RedisVerif.Model.DataStructs
import RedisVerif.Model.ExecutorCode
import RedisVerif.Model.RedisX
import RedisVerif.Model.ExecutorColl
import RedisVerif.Model.ExecutorScan
import RedisVerif.Model.ExecutorX

/-
  C01 / C17 sub-driver, extended with the DATA-STRUCTURE lines (`DS …`): the transcription models of
  `RedisSortedSet` + `SkipList`, `RedisList` and `SDS` are driven with the same operations as the
  real structures (harness/src/datax.rs).  Every other line goes to `Driver.C01.stepLine`.

    DS ZNEW                         → "ok"                      fresh RedisSortedSet
    DS ZADD <member> <score>        → "1" | "0" | "crash"       add(member, score)
    DS ZREM <member>                → "1" | "0" | "crash"       remove(member)
    DS ZADDF <nx xx gt lt ch> <n> {<member> <score>}  → ":<reply>"   the loop of execute_zadd on the structure (set held by a real CommandExecutor)
    DS ZREMF <n> {<member>}         → ":<reply>"             the loop of execute_zrem
    DS ZSTRUCT                      → the whole structure (see `showZS`)
    DS ZITER                        → "*n {<member> <score>}"   iter()
    DS ZSCORE <member>              → score | "_"
    DS ZRANK <member>               → ":n" | "_"
    DS ZRANGE <a> <b> / ZREVRANGE   → "*n {<member> <score>}"
    DS ZCOUNT <lo> <hi>             → ":n" | "-notfloat"
    DS ZRBS <lo> <hi> <limit>       → "*n …" | "-notfloat"
    DS ZLEN                         → "len=<members.len()> slen=<skiplist.len()> sorted=<is_sorted()>"
    DS ZLEVEL <rnghex>              → "<level> <newrnghex>"     random_level from a given state
    DS LNEW / LPUSH L|R <v> / LPOP L|R / LLEN / LRANGE a b / LGET i / LSET i <v> / LTRIM a b / LALL
    DS SNEW <bytes> / SAPPEND <bytes> / SRESIZE <n> / SREPR     → "I <len> <23 bytes>" | "H <bytes>"

  The EXECUTOR lines (`Model.Executor` / `Model.ExecutorColl`: the CommandExecutor as it is, two maps +
  clock, its own state threaded through the whole sequence — no adoption after a modelled command):
    XCFG <epoch_ms> <now>           → "xcfg"       fresh executor, `simulation_start_epoch_ms`, `set_time(now)`
    XCLK <now> <set_time|evict_expired_direct|update_time_readonly>   → "xclk"
    <now> XC <OP> <args…> ;; …      → "<reply> | <PHYSICAL dump of `data`: n {key ttl|-1|dead value}> | nexp=<expirations.len()>"
    <now> XADOPT ;; <physical dump> → "xadopt"     after a command the transcription does not cover
    <now> XR GET k | EXISTS … | KEYS ;;      → "<reply>"   `execute_readonly` on the same state (`cReadonly`)
    <now> XX SETBIT … | GETBIT … | BATCHSET … | BATCHGET … | KEYS <pattern> ;; …   → like XC (`Model.ExecutorX.execXC`)
    <now> XS OBJENC|OBJREF|OBJIDLE|OBJFREQ|DEBUGOBJ <key> ;; …   → "<reply> | <physical dump> | nexp=…"  (`execStub`)
    <now> XS CONST <Variant> ;; …                                  → "? | <physical dump> | nexp=…"
    <now> XSCAN <cursor> <patternhex | -> <count | ->   → "<next cursor> <n> <keyhex>*" | "crash"   (`Model.ExecutorScan.cScan`)
-/
namespace RedisVerif.Driver.C01Data
open RedisVerif RedisVerif.Driver RedisVerif.Redis RedisVerif.Driver.C01
open RedisVerif.SkipList RedisVerif.DataStructs

structure DState where
  redis : State
  zs : ZS
  lst : RList
  sds : Sds
  code : Executor.CState

def DState.init : DState := ⟨Redis.init, ZS.new, [], Sds.new [], Executor.CState.new 0⟩

def showPairs (l : List (BS × Score)) : String :=
  " ".intercalate (("*" ++ toString l.length) :: l.map (fun p => s!"{hexOfBytes p.1} {showScoreTok p.2}"))

def commaNats (l : List Nat) : String := if l.isEmpty then "-" else ",".intercalate (l.map toString)

def hex64 (x : UInt64) : String :=
  String.ofList ((List.range 16).reverse.map (fun i => hexDigit ((x.toNat >>> (4 * i)) % 16)))

def parseHex64 (s : String) : Option UInt64 :=
  s.toList.foldl (fun acc c => match acc, hexVal c with
    | some a, some d => some (a * 16 + d)
    | _, _ => none) (some 0) |>.map (fun n => UInt64.ofNat n)

/-- `len=<members.len()> slen=<length> level=<level> rng=<rng_state> hdr=<header spans below level>
    T <n> {<member> <score> <spans of the node, comma separated>}` -/
def showZS (z : ZS) : String :=
  let sl := z.sl
  s!"len={z.members.length} slen={sl.length} level={sl.level} rng={hex64 sl.rng} hdr={commaNats (sl.hdr.take sl.level)} " ++
    " ".intercalate (("T" :: [toString sl.towers.length]) ++
      sl.towers.map (fun t => s!"{hexOfBytes t.member} {showScoreTok t.score} {commaNats t.spans}"))

def boolTok (b : Bool) : String := if b then "1" else "0"

def showOptPairs : Option (List (BS × Score)) → String
  | none => "crash"
  | some l => showPairs l

def sideTok : P Bool := do
  let t ← tok
  if t == "L" then pure true else if t == "R" then pure false else failure

def showOptBytes : Option BS → String
  | none => "_"
  | some b => "$" ++ hexOfBytes b

def showList (l : List BS) : String :=
  " ".intercalate (("*" ++ toString l.length) :: l.map (fun b => "$" ++ hexOfBytes b))

def showSds : Sds → String
  | .inline len d => s!"I {len} {hexOfBytes d}"
  | .heap d => s!"H {hexOfBytes d}"

/-- one DS line (the leading `DS` token already consumed) -/
def dsLine (st : DState) : P (DState × String) := do
  let t ← tok
  match t with
  | "ZNEW" => pure ({ st with zs := ZS.new }, "ok")
  | "ZADD" => do
    let m ← bytesTok; let sc ← score
    match SkipList.add randomLevel st.zs m sc with
    | none => pure (st, "crash")
    | some (z, b) => pure ({ st with zs := z }, boolTok b)
  | "ZREM" => do
    let m ← bytesTok
    match SkipList.remove st.zs m with
    | none => pure (st, "crash")
    | some (z, b) => pure ({ st with zs := z }, boolTok b)
  | "ZADDF" => do
    -- the loop of `execute_zadd` (flags + pairs) on the structure; answer = the command's reply
    let f ← zflags; let n ← nat
    let ps ← repeatP n (do let m ← bytesTok; let sc ← score; pure (m, sc))
    match SkipList.zaddLoop randomLevel f st.zs ps with
    | none => pure (st, "crash")
    | some (z, a, c) => pure ({ st with zs := z }, s!":{if f.ch then c else a}")
  | "ZREMF" => do
    let n ← nat
    let ms ← repeatP n bytesTok
    match SkipList.zremLoop st.zs ms with
    | none => pure (st, "crash")
    | some (z, k) => pure ({ st with zs := z }, s!":{k}")
  | "ZSTRUCT" => pure (st, showZS st.zs)
  | "ZITER" => pure (st, showPairs (iter st.zs.sl))
  | "ZSCORE" => do
    let m ← bytesTok
    pure (st, match SkipList.score st.zs m with | none => "_" | some s => showScoreTok s)
  | "ZRANK" => do
    let m ← bytesTok
    pure (st, match zrank st.zs m with | none => "crash" | some none => "_" | some (some r) => s!":{r}")
  | "ZRANGE" => do let a ← int; let b ← int; pure (st, showOptPairs (zrange st.zs a b))
  | "ZREVRANGE" => do let a ← int; let b ← int; pure (st, showOptPairs (zrevRange st.zs a b))
  | "ZCOUNT" => do
    let lo ← bound; let hi ← bound
    pure (st, match countInRange st.zs lo hi with | none => "-notfloat" | some n => s!":{n}")
  | "ZRBS" => do
    let lo ← bound; let hi ← bound; let l ← limit
    pure (st, match rangeByScore st.zs lo hi l with | none => "-notfloat" | some r => showPairs r)
  | "ZLEN" => pure (st, s!"len={len st.zs} slen={skiplistLen st.zs} sorted={boolTok (isSorted st.zs)}")
  | "ZLEVEL" => do
    let h ← tok
    match parseHex64 h with
    | none => failure
    | some s => pure (st, s!"{(randomLevel s).1} {hex64 (randomLevel s).2}")
  | "LNEW" => pure ({ st with lst := [] }, "ok")
  | "LPUSH" => do
    let left ← sideTok; let v ← bytesTok
    pure ({ st with lst := if left then st.lst.lpush v else st.lst.rpush v }, "ok")
  | "LPOP" => do
    let left ← sideTok
    let r := if left then st.lst.lpop else st.lst.rpop
    pure ({ st with lst := r.2 }, showOptBytes r.1)
  | "LLEN" => pure (st, s!":{st.lst.length}")
  | "LALL" => pure (st, showList st.lst)
  | "LRANGE" => do let a ← int; let b ← int; pure (st, showList (st.lst.range a b))
  | "LGET" => do let i ← int; pure (st, showOptBytes (st.lst.get i))
  | "LSET" => do
    let i ← int; let v ← bytesTok
    match st.lst.set i v with
    | none => pure (st, "-indexrange")
    | some l => pure ({ st with lst := l }, "+OK")
  | "LTRIM" => do let a ← int; let b ← int; pure ({ st with lst := st.lst.trim a b }, "ok")
  | "SNEW" => do let b ← bytesTok; pure ({ st with sds := Sds.new b }, showSds (Sds.new b))
  | "SAPPEND" => do
    let b ← bytesTok
    pure ({ st with sds := st.sds.append (Sds.new b) }, showSds (st.sds.append (Sds.new b)))
  | "SAPPENDH" => do
    -- the argument is a `Heap` value whatever its length (constructed through the public variant)
    let b ← bytesTok
    pure ({ st with sds := st.sds.append (.heap b) }, showSds (st.sds.append (.heap b)))
  | "SHEAP" => do let b ← bytesTok; pure ({ st with sds := .heap b }, showSds (.heap b))
  | "SRESIZE" => do let n ← nat; pure ({ st with sds := st.sds.resize n }, showSds (st.sds.resize n))
  | "SREPR" => pure (st, s!"{showSds st.sds} len={st.sds.len} bytes={hexOfBytes st.sds.asBytes}")
  | _ => failure

/-- `<now> CODE GETRANGE k a b ;; <dump>` / `<now> CODE GETSET k v ;; <dump>`: the transcription of
    the executor function (`Model.ExecutorCode`) answers instead of the specification; the state
    is threaded exactly as for an ordinary op (answer from the own state, then adopt the dump) -/
def codeLine (now : Nat) : P (Nat × ExecutorCode.CodeCmd × State) := do
  let t ← tok
  let c ← (match t with
    | "GETRANGE" => do let k ← strKey; let a ← int; let b ← int; pure (ExecutorCode.CodeCmd.getrange k a b)
    | "GETSET" => do let k ← strKey; let v ← bytesTok; pure (ExecutorCode.CodeCmd.getset k v)
    | _ => failure)
  expect ";;"
  let s ← dump now
  pure (now, c, s)

/-- `<now> X SETBIT k off bit | GETBIT k off | BATCHSET n {k v} | BATCHGET n {k} | KEYS <pattern> ;; <dump>`:
    the commands of `Model.RedisX` -/
def xLine (now : Nat) : P (Nat × RedisX.XCmd × State) := do
  let t ← tok
  let c ← (match t with
    | "SETBIT" => do let k ← strKey; let o ← nat; let b ← nat; pure (RedisX.XCmd.setbit k o b)
    | "GETBIT" => do let k ← strKey; let o ← nat; pure (RedisX.XCmd.getbit k o)
    | "BATCHSET" => do let kvs ← kvList; pure (RedisX.XCmd.batchset kvs)
    | "BATCHGET" => do let ks ← keyList; pure (RedisX.XCmd.batchget ks)
    | "KEYS" => do let p ← bytesTok; pure (RedisX.XCmd.keys p)
    | _ => failure)
  expect ";;"
  let s ← dump now
  pure (now, c, s)

/-- the physical content of the executor model: every key of `data`, live or not -/
def showPhys (c : Executor.CState) : String :=
  " ".intercalate (toString c.data.length :: c.data.map (fun p =>
    let ttl :=
      if Executor.isExpired c p.1 then "dead"
      else match NMap.get c.exp p.1 with
        | none => "-1"
        | some d => toString (d - c.now)
    s!"{showKey p.1} {ttl} {showValue p.2}"))

/-- `<n> {<key> <pttl | -1 | dead> <value>}` → (data, expirations); a dead key gets the deadline `now` -/
def physDump (now : Nat) : P (NMap Value × NMap Nat) := do
  let n ← nat
  let l ← repeatP n (do
    let k ← strKey
    let t ← tok
    let v ← value
    let dl : Option Nat ←
      (if t == "dead" then pure (some now)
       else match t.toInt? with
         | some i => pure (if i < 0 then none else some (now + i.toNat))
         | none => failure)
    pure (k, v, dl))
  pure (NMap.ofList (l.map (fun x => (x.1, x.2.1))),
        NMap.ofList (l.filterMap (fun x => x.2.2.map (fun d => (x.1, d)))))

def xcLine : P Cmd := do
  let c ← cmd
  expect ";;"
  pure c

def stepLine (st : DState) (l : String) : DState × String :=
  match tokens l with
  | ["XCFG", e, n] =>
    match e.toNat?, n.toNat? with
    | some e, some n => ({ st with code := Executor.setTime (Executor.CState.new e) n }, "xcfg")
    | _, _ => (st, "bad-op")
  | ["XCLK", n, kind] =>
    match n.toNat? with
    | some n =>
      if kind == "update_time_readonly" then ({ st with code := Executor.updateTimeReadonly st.code n }, "xclk")
      else ({ st with code := Executor.setTime st.code n }, "xclk")
    | none => (st, "bad-op")
  | _ :: "XC" :: rest =>
    match xcLine.run rest with
    | some (c, _) =>
      match Executor.execC st.code c with
      | some (c', r) =>
        ({ st with code := c' }, s!"{showReply (canonReply c r)} | {showPhys c'} | nexp={c'.exp.length}")
      | none => (st, "crash")
    | none => (st, "bad-op")
  | _ :: "XR" :: rest =>
    match xcLine.run rest with
    | some (c, _) =>
      match Executor.cReadonly st.code c with
      | some r => (st, showReply (canonReply c r))
      | none => (st, "unsupported")
    | none => (st, "bad-op")
  | _ :: "XX" :: rest =>
    let p : P RedisX.XCmd := do
      let t ← tok
      let c ← (match t with
        | "SETBIT" => do let k ← strKey; let o ← nat; let b ← nat; pure (RedisX.XCmd.setbit k o b)
        | "GETBIT" => do let k ← strKey; let o ← nat; pure (RedisX.XCmd.getbit k o)
        | "BATCHSET" => do let kvs ← kvList; pure (RedisX.XCmd.batchset kvs)
        | "BATCHGET" => do let ks ← keyList; pure (RedisX.XCmd.batchget ks)
        | "KEYS" => do let p ← bytesTok; pure (RedisX.XCmd.keys p)
        | _ => failure)
      expect ";;"
      pure c
    match p.run rest with
    | some (c, _) =>
      let r := Executor.execXC st.code c
      ({ st with code := r.1 }, s!"{showReply r.2} | {showPhys r.1} | nexp={r.1.exp.length}")
    | none => (st, "bad-op")
  | _ :: "XS" :: rest =>
    let p : P Executor.StubCmd := do
      let t ← tok
      let c ← (match t with
        | "OBJENC" => do let k ← strKey; pure (Executor.StubCmd.objectEncoding k)
        | "OBJREF" => do let k ← strKey; pure (Executor.StubCmd.objectRefCount k)
        | "OBJIDLE" => do let k ← strKey; pure (Executor.StubCmd.objectIdleTime k)
        | "OBJFREQ" => do let k ← strKey; pure (Executor.StubCmd.objectFreq k)
        | "DEBUGOBJ" => do let k ← strKey; pure (Executor.StubCmd.debugObject k)
        | "CONST" => do let n ← tok; pure (Executor.StubCmd.const n)
        | _ => failure)
      expect ";;"
      pure c
    match p.run rest with
    | some (c, _) =>
      let r := Executor.execStub st.code c
      let shown := match r.2 with
        | .bulk b => "$" ++ hexOfBytes b
        | .int i => ":" ++ toString i
        | .noSuchKey => "-nosuchkey"
        | .unspecified => "?"
      ({ st with code := r.1 }, s!"{shown} | {showPhys r.1} | nexp={r.1.exp.length}")
    | none => (st, "bad-op")
  | [_, "XSCAN", cur, pat, cnt] =>
    let patO : Option (Option (List Nat)) :=
      if pat == "-" then some none
      else match pat.toList with
        | 'x' :: cs => (parseHexBytes cs).map some
        | _ => none
    let cntO : Option (Option Nat) := if cnt == "-" then some none else cnt.toNat?.map some
    match cur.toNat?, patO, cntO with
    | some cur, some pat, some cnt =>
      match Executor.cScan st.code cur pat cnt with
      | none => (st, "crash")
      | some (_, next, keys) =>
        (st, " ".intercalate (toString next :: toString keys.length :: keys.map showKey))
    | _, _, _ => (st, "bad-op")
  | nowTok :: "XADOPT" :: ";;" :: rest =>
    match (nowTok.toNat?).bind (fun now => (physDump now).run rest) with
    | some ((d, e), []) => ({ st with code := { st.code with data := d, exp := e } }, "xadopt")
    | _ => (st, "bad-op")
  | "DS" :: rest =>
    match (dsLine st).run rest with
    | some (r, []) => r
    | _ => (st, "bad-op")
  | nowTok :: "X" :: rest =>
    match (nowTok.toNat?).bind (fun now => (xLine now).run rest) with
    | some ((now, c, s), []) =>
      let r := RedisX.stepX st.redis now c
      ({ st with redis := s }, s!"{showReply r.2} | {showDump r.1 now} | ro={b01 (RedisX.isReadOnlyX c)}")
    | _ => (st, "bad-op")
  | nowTok :: "CODE" :: rest =>
    match (nowTok.toNat?).bind (fun now => (codeLine now).run rest) with
    | some ((now, c, s), []) =>
      let r := ExecutorCode.stepCode st.redis now c
      ({ st with redis := s }, s!"{showReply r.2} | {showDump r.1 now} | ro=0")
    | _ => (st, "bad-op")
  | _ =>
    let r := C01.stepLine st.redis l
    ({ st with redis := r.1 }, r.2)

end RedisVerif.Driver.C01Data
