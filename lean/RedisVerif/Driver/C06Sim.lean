import RedisVerif.Driver.C06Msg
import RedisVerif.Model.SimCluster

/-
  C06 sub-driver, `MultiNodeSimulation` (`Model/SimCluster.lean`).  Lines starting with `S`:
    SN <n> <causal01> <auto01> <depth> <limit> <cap> <router>*n → ok        (router as in `MN`)
    SX <i> SET <key> <value> <ex|->                             → d=<deltas> pend=<n> <last delta id|->
    SX <i> DEL <n> <key>*                                       → d=<deltas> pend=<n> <last delta id|->
    SXC <i> <key> <value> NX|XX                                 → applied=<b> d=<deltas> pend=<n>   (conditional SET, `Sim.stepX currentGate`)
    SG <n> (<lost01> <delay>)*                                  → q=<n> [<flights>] pend=<total>
    SA <ms>                                                     → now=<t>
    SP <a> <b> | SH <a> <b> | SY <a> <b> | SF                   → syncs=<n> parts=<n>
    SS <i>                                                      → clock=<t>.<r> <n> (<key> <rv> ;)* kv <n> (<key> <value>)*
    SK <key> <n> <node>*                                        → above=<b> among=<b> served=<b>
  a flight is <src>><dst>:<ids>@<due>; lists longer than 8 print their first and last 3.
  Every other line goes to `Driver/C06Msg.lean`.  The model hashes the digests itself
  (`AE.currentHasher` = SipHash-1-3 of the bytes `canonical_hash` feeds).
-/
namespace RedisVerif.Driver.C06Sim
open RedisVerif RedisVerif.Driver RedisVerif.Gossip RedisVerif.SimC

structure SState where
  m : C06Msg.MState
  cfg : Cfg
  s : Sim

def SState.init : SState := { m := C06Msg.MState.init, cfg := Cfg.default, s := Sim.init 0 false [] true }

def showFlight (f : Flight) : String := s!"{f.src}>{f.dst}:{C06Msg.showIds f.deltas}@{f.due}"

def stepSim (st : SState) (e : SEv) : Sim := st.s.step AE.currentHasher st.cfg e

def servedAgree (c : Sim) (S : List Nat) (k : Nat) : Bool :=
  S.all fun i => S.all fun j =>
    match c.nodes[i]?, c.nodes[j]? with
    | some a, some b => NMap.get a.kv k == NMap.get b.kv k
    | _, _ => true

/-- every replica of `S` holds a value for `k` that absorbs every issued delta of `k` -/
def aboveB (c : Cluster) (S : List Nat) (k : Nat) : Bool :=
  S.all fun j =>
    match c.nodes[j]? with
    | some s =>
      (c.sent.filter (fun m => m.key == k)).all fun m =>
        match NMap.get s.keys k with
        | some v => (RV.merge v m.val).strip == v.strip
        | none => false
    | none => true

def sstep (st : SState) (line : String) : SState × String :=
  match tokens line with
  | "SN" :: _ =>
    let p : P (Nat × Bool × Bool × Cfg × List (Option Router)) := do
      expect "SN"
      let n ← nat
      let cz ← nat
      let au ← nat
      let depth ← nat
      let limit ← nat
      let cap ← nat
      let rs ← repeatP n C06Msg.parseRouter
      pure (n, cz != 0, au != 0, ⟨depth, limit, cap⟩, rs)
    match runP p line with
    | some (n, cz, au, cfg, rs) => ({ st with cfg := cfg, s := Sim.init n cz rs au }, "ok")
    | none => (st, "bad-op")
  | "SX" :: _ =>
    let p : P (Nat × SOp) := do
      expect "SX"
      let i ← nat
      let t ← tok
      if t == "SET" then do
        let k ← strKey
        let v ← bytesTok
        let ex ← optNat
        pure (i, SOp.set k v ex)
      else if t == "DEL" then do
        let n ← nat
        let ks ← repeatP n strKey
        pure (i, SOp.del ks)
      else failure
    match runP p line with
    | some (i, op) =>
      let c' := stepSim st (.exec i op)
      let nd := c'.issued.length - st.s.issued.length
      let pend := match c'.nodes[i]? with | some x => toString x.ps.pending.length | none => "-"
      let last := if nd > 0 then (match c'.issued.getLast? with | some m => C06Msg.showId m | none => "-") else "-"
      ({ st with s := c' }, s!"d={nd} pend={pend} {last}")
    | none => (st, "bad-op")
  | ["SXC", i, k, v, o] =>
    match i.toNat?, runP strKey k, runP bytesTok v with
    | some i, some k, some v =>
      if o != "NX" && o != "XX" then (st, "bad-op") else
      let app := match st.s.nodes[i]? with | some nd => condApplies nd.kv k (o == "NX") | none => false
      let c' := st.s.stepX currentGate AE.currentHasher st.cfg (.setCond i k v (o == "NX"))
      let nd := c'.issued.length - st.s.issued.length
      let pend := match c'.nodes[i]? with | some x => toString x.ps.pending.length | none => "-"
      ({ st with s := c' }, s!"applied={C06.b01 app} d={nd} pend={pend}")
    | _, _, _ => (st, "bad-op")
  | "SG" :: _ =>
    let p : P (List (Bool × Nat)) := do
      expect "SG"
      let n ← nat
      repeatP n (do let l ← nat; let d ← nat; pure (l != 0, d))
    match runP p line with
    | some o =>
      let c' := stepSim st (.gossip o)
      let pend := c'.nodes.foldl (fun a nd => a + nd.ps.pending.length) 0
      ({ st with s := c' }, s!"q={c'.queue.length} [{C06Msg.summary showFlight c'.queue}] pend={pend}")
    | none => (st, "bad-op")
  | ["SA", ms] =>
    match ms.toNat? with
    | some ms => let c' := stepSim st (.advance ms); ({ st with s := c' }, s!"now={c'.now}")
    | none => (st, "bad-op")
  | [op, a, b] =>
    match a.toNat?, b.toNat? with
    | some a, some b =>
      let e : Option SEv := if op == "SP" then some (.partition a b) else if op == "SH" then some (.heal a b)
        else if op == "SY" then some (.sync a b) else none
      match e with
      | some e => let c' := stepSim st e; ({ st with s := c' }, s!"syncs={c'.syncs} parts={c'.parts.length}")
      | none => (st, "bad-op")
    | _, _ => (st, "bad-op")
  | ["SF"] => let c' := stepSim st .fullSync; ({ st with s := c' }, s!"syncs={c'.syncs} parts={c'.parts.length}")
  | ["SS", i] =>
    match i.toNat? with
    | some i =>
      match st.s.nodes[i]? with
      | some nd =>
        let s := nd.ps.sh
        (st, " ".intercalate ([s!"clock={s.clock.time}.{s.clock.rid}", toString s.keys.length]
          ++ s.keys.map (fun p => s!"{showKey p.1} {showRV p.2} ;")
          ++ ["kv", toString nd.kv.length] ++ nd.kv.map (fun p => s!"{showKey p.1} {hexOfBytes p.2}")))
      | none => (st, "bad-op")
    | none => (st, "bad-op")
  | "SK" :: _ =>
    match runP (do expect "SK"; let k ← strKey; let n ← nat; let s ← repeatP n nat; pure (k, s)) line with
    | some (k, S) =>
      let c := st.s.abs.base
      let to := decide (C06.DeliveredTo c S k)
      let above := aboveB c S k
      -- the ghost ledger and the values must tell the same story: delivered ⇒ absorbed
      if to && !above then (st, "ghost-ledger-inconsistent")
      else (st, s!"above={C06.b01 above} among={C06.b01 (C06Msg.agreeAmongB c S k)} served={C06.b01 (servedAgree st.s S k)}")
    | none => (st, "bad-op")
  | _ => (st, "bad-op")

def stepAll (st : SState) (line : String) : SState × String :=
  match tokens line with
  | t :: _ =>
    if t == "SN" || t == "SX" || t == "SXC" || t == "SG" || t == "SA" || t == "SP" || t == "SH" || t == "SY" || t == "SF"
        || t == "SS" || t == "SK" then sstep st line
    else
      let r := C06Msg.stepAll st.m line
      ({ st with m := r.1 }, r.2)
  | [] => (st, "bad-op")

end RedisVerif.Driver.C06Sim
