import RedisVerif.Driver.Codec
import RedisVerif.Model.Redis

/-
  C01 / C17 sub-driver (stateful).  One line in, one line out.

    RESET                                   → "reset"            (state := empty database)
    CLOCK <now> <set_time|update_time_readonly> → "clock"        (informational: how the harness moved the
                                                                  implementation's clock; the model gets `now` with every op)
    <now> <OP> <args…> ;; <dump>            → "<reply> | <dump of the model's visible keyspace> | ro=<0|1>"
    <now> ADOPT ;; <dump>                   → "adopt"
    <now> SCRIPT <n> {<OP> <args…> &&}ⁿ ;; <dump>  → like an op: EVAL of n `redis.call`s + `return 'done'` (`Redis.stepScript`)

  `<now>` = virtual clock in ms.  The part after `;;` is the IMPLEMENTATION's visible keyspace
  after the command.  The model first answers from ITS OWN state (reply, its own post-state,
  its read-only classification) and only then adopts the implementation's post-state, so that
  one conformance defect does not cascade through the rest of the sequence: every line is an
  independent check "from the state the implementation is really in, does the next command
  behave as Redis".  (When the two post-states agree — the normal case — adoption is the
  identity up to dead entries, which no command can observe: `Props.C01.step_of_view`.)

  dump      := <n> { <keyhex> <pttl | -1> <value> }           keys in (length, bytes) order
  value     := S <hex> | L <n> <hex>* | T <n> <hex>* | H <n> {<fieldhex> <hex>}* | Z <n> {<hex> <score>}*
  score     := <int> | inf | -inf
  reply     := +<simple> | -<errclass> | :<int> | $<hex> | _ | *<n> {$<hex> | _ | :<int>}*
-/
namespace RedisVerif.Driver.C01
open RedisVerif RedisVerif.Driver RedisVerif.Redis

def int : P Int := do
  let t ← tok
  match t.toInt? with
  | some i => pure i
  | none => failure

def score : P Score := do
  let t ← tok
  if t == "inf" then pure .pinf
  else if t == "-inf" then pure .ninf
  else match t.toInt? with
    | some i => pure (.fin i)
    | none => failure

def showScoreTok : Score → String
  | .pinf => "inf"
  | .ninf => "-inf"
  | .fin i => toString i

def value : P Value := do
  let t ← tok
  match t with
  | "S" => do let b ← bytesTok; pure (.str b)
  | "L" => do let n ← nat; let l ← repeatP n bytesTok; pure (.list l)
  | "T" => do let n ← nat; let l ← repeatP n strKey; pure (.set (NMap.ofList (l.map (fun c => (c, ())))))
  | "H" => do
    let n ← nat
    let l ← repeatP n (do let f ← strKey; let v ← bytesTok; pure (f, v))
    pure (.hash (NMap.ofList l))
  | "Z" => do
    let n ← nat
    let l ← repeatP n (do let m ← bytesTok; let sc ← score; pure (m, sc))
    pure (.zset l)
  | _ => failure

def showValue : Value → String
  | .str b => s!"S {hexOfBytes b}"
  | .list l => " ".intercalate (["L", toString l.length] ++ l.map hexOfBytes)
  | .set m => " ".intercalate (["T", toString m.length] ++ m.map (fun p => showKey p.1))
  | .hash h => " ".intercalate (["H", toString h.length] ++ h.map (fun p => s!"{showKey p.1} {hexOfBytes p.2}"))
  | .zset z => " ".intercalate (["Z", toString z.length] ++ z.map (fun p => s!"{hexOfBytes p.1} {showScoreTok p.2}"))

/-- the implementation's visible keyspace → a model state (deadline = now + pttl) -/
def dump (now : Nat) : P State := do
  let n ← nat
  let l ← repeatP n (do
    let k ← strKey
    let ttl ← int
    let v ← value
    let dl : Option Nat := if ttl < 0 then none else some (now + ttl.toNat)
    pure (k, ({ val := v, dl := dl } : Entry)))
  pure (NMap.ofList l)

def showDump (s : State) (now : Nat) : String :=
  let v := view s now
  " ".intercalate (toString v.length :: v.map (fun p =>
    let ttl := match p.2.ttl with | none => "-1" | some r => toString r
    s!"{showKey p.1} {ttl} {showValue p.2.val}"))

def showErr : Err → String
  | .wrongType => "wrongtype"
  | .notInt => "notint"
  | .overflow => "overflow"
  | .invalidExpire => "invalidexpire"
  | .badFlags => "badflags"
  | .noSuchKey => "nosuchkey"
  | .indexRange => "indexrange"
  | .hashNotInt => "hashnotint"
  | .tooLong => "toolong"
  | .syntax => "syntax"
  | .notFloat => "notfloat"
  | .outOfRange => "outofrange"
  | .notDouble => "notdouble"

def showElem : Elem → String
  | .bulk b => "$" ++ hexOfBytes b
  | .key c => "$" ++ showKey c
  | .nil => "_"
  | .int i => ":" ++ toString i

def showReply : Reply → String
  | .simple s => "+" ++ s
  | .err e => "-" ++ showErr e
  | .int i => ":" ++ toString i
  | .bulk b => "$" ++ hexOfBytes b
  | .key c => "$" ++ showKey c
  | .nil => "_"
  | .arr l => " ".intercalate (("*" ++ toString l.length) :: l.map showElem)

def setCond : P SetCond := do
  let t ← tok
  match t with
  | "-" => pure .always
  | "NX" => pure .nx
  | "XX" => pure .xx
  | _ => failure

def setExp : P SetExp := do
  let t ← tok
  match t with
  | "-" => pure .none
  | "KEEPTTL" => pure .keepttl
  | "EX" => do let v ← int; pure (.ex v)
  | "PX" => do let v ← int; pure (.px v)
  | "EXAT" => do let v ← int; pure (.exat v)
  | "PXAT" => do let v ← int; pure (.pxat v)
  | _ => failure

def getExOpt : P GetExOpt := do
  let t ← tok
  match t with
  | "-" => pure .none
  | "PERSIST" => pure .persist
  | "EX" => do let v ← int; pure (.ex v)
  | "PX" => do let v ← int; pure (.px v)
  | "EXAT" => do let v ← int; pure (.exat v)
  | "PXAT" => do let v ← int; pure (.pxat v)
  | _ => failure

def bit (c : Char) : Option Bool := if c == '1' then some true else if c == '0' then some false else none

def flags : P ExpFlags := do
  let t ← tok
  match t.toList with
  | [a, b, c, d] =>
    match bit a, bit b, bit c, bit d with
    | some a, some b, some c, some d => pure { nx := a, xx := b, gt := c, lt := d }
    | _, _, _, _ => failure
  | _ => failure

def bool01 : P Bool := do
  let t ← tok
  if t == "1" then pure true else if t == "0" then pure false else failure

def keyList : P (List Nat) := do
  let n ← nat
  repeatP n strKey

def kvList : P (List (Nat × BS)) := do
  let n ← nat
  repeatP n (do let k ← strKey; let v ← bytesTok; pure (k, v))

def optKey : P (Option Nat) := do
  let t ← tok
  if t == "-" then pure none else
  match t.toList with
  | 'x' :: cs => match parseHexBytes cs with
    | some b => pure (some (keyCode b))
    | none => failure
  | _ => failure

def bytesList : P (List BS) := do
  let n ← nat
  repeatP n bytesTok

def side : P Side := do
  let t ← tok
  match t with
  | "LEFT" => pure .left
  | "RIGHT" => pure .right
  | _ => failure

def zflags : P ZFlags := do
  let t ← tok
  match t.toList with
  | [a, b, c, d, e] =>
    match bit a, bit b, bit c, bit d, bit e with
    | some a, some b, some c, some d, some e => pure { nx := a, xx := b, gt := c, lt := d, ch := e }
    | _, _, _, _, _ => failure
  | _ => failure

def scoreOfString (t : String) : Option Score :=
  if t == "inf" then some .pinf
  else if t == "-inf" then some .ninf
  else match t.toInt? with
    | some i => some (.fin i)
    | none => none

/-- `bad` | `i<score>` (inclusive) | `e<score>` (exclusive) -/
def bound : P (Option Bound) := do
  let t ← tok
  if t == "bad" then pure none else
  match t.toList with
  | 'i' :: cs => match scoreOfString (String.ofList cs) with
    | some sc => pure (some { excl := false, v := sc })
    | none => failure
  | 'e' :: cs => match scoreOfString (String.ofList cs) with
    | some sc => pure (some { excl := true, v := sc })
    | none => failure
  | _ => failure

def limit : P (Option (Int × Nat)) := do
  let t ← tok
  if t == "-" then pure none else
  match t.toInt? with
  | some off => do let c ← nat; pure (some (off, c))
  | none => failure

def cmd : P Cmd := do
  let t ← tok
  match t with
  | "GET" => do let k ← strKey; pure (.get k)
  | "SET" => do
    let k ← strKey; let v ← bytesTok; let c ← setCond; let e ← setExp; let g ← bool01
    pure (.set k v c e g)
  | "SETNX" => do let k ← strKey; let v ← bytesTok; pure (.setnx k v)
  | "APPEND" => do let k ← strKey; let v ← bytesTok; pure (.append k v)
  | "GETSET" => do let k ← strKey; let v ← bytesTok; pure (.getset k v)
  | "STRLEN" => do let k ← strKey; pure (.strlen k)
  | "MGET" => do let ks ← keyList; pure (.mget ks)
  | "MSET" => do let kvs ← kvList; pure (.mset kvs)
  | "MSETNX" => do let kvs ← kvList; pure (.msetnx kvs)
  | "GETRANGE" => do let k ← strKey; let a ← int; let b ← int; pure (.getrange k a b)
  | "SETRANGE" => do let k ← strKey; let o ← nat; let v ← bytesTok; pure (.setrange k o v)
  | "GETEX" => do let k ← strKey; let o ← getExOpt; pure (.getex k o)
  | "GETDEL" => do let k ← strKey; pure (.getdel k)
  | "INCR" => do let k ← strKey; pure (.incr k)
  | "DECR" => do let k ← strKey; pure (.decr k)
  | "INCRBY" => do let k ← strKey; let d ← int; pure (.incrby k d)
  | "DECRBY" => do let k ← strKey; let d ← int; pure (.decrby k d)
  | "DEL" => do let ks ← keyList; pure (.del ks)
  | "EXISTS" => do let ks ← keyList; pure (.exists ks)
  | "TYPE" => do let k ← strKey; pure (.type k)
  | "KEYS" => pure .keys
  | "DBSIZE" => pure .dbsize
  | "FLUSHDB" => pure .flushdb
  | "FLUSHALL" => pure .flushall
  | "RANDOMKEY" => do let c ← optKey; pure (.randomkey c)
  | "RENAME" => do let a ← strKey; let b ← strKey; pure (.rename a b)
  | "RENAMENX" => do let a ← strKey; let b ← strKey; pure (.renamenx a b)
  | "EXPIRE" => do let k ← strKey; let v ← int; let f ← flags; pure (.expire k v f)
  | "PEXPIRE" => do let k ← strKey; let v ← int; let f ← flags; pure (.pexpire k v f)
  | "EXPIREAT" => do let k ← strKey; let v ← int; let f ← flags; pure (.expireat k v f)
  | "PEXPIREAT" => do let k ← strKey; let v ← int; let f ← flags; pure (.pexpireat k v f)
  | "TTL" => do let k ← strKey; pure (.ttl k)
  | "PTTL" => do let k ← strKey; pure (.pttl k)
  | "EXPIRETIME" => do let k ← strKey; pure (.expiretime k)
  | "PEXPIRETIME" => do let k ← strKey; pure (.pexpiretime k)
  | "PERSIST" => do let k ← strKey; pure (.persist k)
  | "LPUSH" => do let k ← strKey; let vs ← bytesList; pure (.lpush k vs)
  | "RPUSH" => do let k ← strKey; let vs ← bytesList; pure (.rpush k vs)
  | "LPOP" => do let k ← strKey; pure (.lpop k)
  | "RPOP" => do let k ← strKey; pure (.rpop k)
  | "LLEN" => do let k ← strKey; pure (.llen k)
  | "LINDEX" => do let k ← strKey; let i ← int; pure (.lindex k i)
  | "LRANGE" => do let k ← strKey; let a ← int; let b ← int; pure (.lrange k a b)
  | "LSET" => do let k ← strKey; let i ← int; let v ← bytesTok; pure (.lset k i v)
  | "LTRIM" => do let k ← strKey; let a ← int; let b ← int; pure (.ltrim k a b)
  | "RPOPLPUSH" => do let a ← strKey; let b ← strKey; pure (.rpoplpush a b)
  | "SADD" => do let k ← strKey; let ms ← keyList; pure (.sadd k ms)
  | "SREM" => do let k ← strKey; let ms ← keyList; pure (.srem k ms)
  | "SMEMBERS" => do let k ← strKey; pure (.smembers k)
  | "SISMEMBER" => do let k ← strKey; let m ← strKey; pure (.sismember k m)
  | "SCARD" => do let k ← strKey; pure (.scard k)
  | "SPOP" => do let k ← strKey; let n ← optNat; let ch ← keyList; pure (.spop k n ch)
  | "HSET" => do let k ← strKey; let fvs ← kvList; pure (.hset k fvs)
  | "HGET" => do let k ← strKey; let f ← strKey; pure (.hget k f)
  | "HDEL" => do let k ← strKey; let fs ← keyList; pure (.hdel k fs)
  | "HGETALL" => do let k ← strKey; pure (.hgetall k)
  | "HKEYS" => do let k ← strKey; pure (.hkeys k)
  | "HVALS" => do let k ← strKey; pure (.hvals k)
  | "HLEN" => do let k ← strKey; pure (.hlen k)
  | "HEXISTS" => do let k ← strKey; let f ← strKey; pure (.hexists k f)
  | "HINCRBY" => do let k ← strKey; let f ← strKey; let d ← int; pure (.hincrby k f d)
  | "ZADD" => do
    let k ← strKey; let f ← zflags; let n ← nat
    let ps ← repeatP n (do let m ← bytesTok; let sc ← score; pure (m, sc))
    pure (.zadd k f ps)
  | "ZREM" => do let k ← strKey; let ms ← bytesList; pure (.zrem k ms)
  | "ZRANGE" => do let k ← strKey; let a ← int; let b ← int; let w ← bool01; pure (.zrange k a b w)
  | "ZREVRANGE" => do let k ← strKey; let a ← int; let b ← int; let w ← bool01; pure (.zrevrange k a b w)
  | "ZSCORE" => do let k ← strKey; let m ← bytesTok; pure (.zscore k m)
  | "ZRANK" => do let k ← strKey; let m ← bytesTok; pure (.zrank k m)
  | "ZCARD" => do let k ← strKey; pure (.zcard k)
  | "ZCOUNT" => do let k ← strKey; let lo ← bound; let hi ← bound; pure (.zcount k lo hi)
  | "ZRANGEBYSCORE" => do
    let k ← strKey; let lo ← bound; let hi ← bound; let w ← bool01; let l ← limit
    pure (.zrangebyscore k lo hi w l)
  | "SORT" => do let k ← strKey; let d ← optKey; pure (.sort k d)
  | "LMOVE" => do let a ← strKey; let b ← strKey; let f ← side; let t ← side; pure (.lmove a b f t)
  | _ => failure

inductive Line
  | clock
  | reset
  | adopt (now : Nat) (s : State)
  | op (now : Nat) (c : Cmd) (s : State)
  | script (now : Nat) (cs : List Cmd) (s : State)

def line : P Line := do
  let t ← tok
  if t == "RESET" then pure .reset else
  if t == "CLOCK" then (do let _ ← tok; let _ ← tok; pure .clock) else
  match t.toNat? with
  | none => failure
  | some now =>
    let rest ← get
    match rest with
    | "ADOPT" :: ";;" :: _ => do
      let _ ← tok; let _ ← tok
      let s ← dump now
      pure (.adopt now s)
    | "SCRIPT" :: _ => do
      -- `<now> SCRIPT <n> <cmd> && <cmd> && … ;; <dump>`: EVAL of n redis.call's, then return 'done'
      let _ ← tok
      let n ← nat
      let cs ← repeatP n (do let c ← cmd; expect "&&"; pure c)
      expect ";;"
      let s ← dump now
      pure (.script now cs s)
    | _ => do
      let c ← cmd
      expect ";;"
      let s ← dump now
      pure (.op now c s)

def b01 (b : Bool) : String := if b then "1" else "0"

/-- canonical order of an unordered multi-bulk reply: by (length, bytes) = by key code -/
def elemCode : Elem → Nat
  | .bulk b => keyCode b
  | .key c => c
  | _ => 0

def insertElem (e : Elem) : List Elem → List Elem
  | [] => [e]
  | x :: xs => if elemCode e ≤ elemCode x then e :: x :: xs else x :: insertElem e xs

def sortElems (l : List Elem) : List Elem := l.foldr insertElem []

/-- replies whose order Redis leaves unspecified are compared sorted (HVALS: values sorted) -/
def canonReply (c : Cmd) (r : Reply) : Reply :=
  match c, r with
  | .hvals _, .arr l => .arr (sortElems l)
  | _, r => r

/-- state-threading step of the driver -/
def stepLine (st : State) (l : String) : State × String :=
  match runP line l with
  | none => (st, "bad-op")
  | some .reset => (Redis.init, "reset")
  | some .clock => (st, "clock")
  | some (.adopt _ s) => (s, "adopt")
  | some (.op now c s) =>
    let r := Redis.step st now c
    (s, s!"{showReply (canonReply c r.2)} | {showDump r.1 now} | ro={b01 (isReadOnly c)}")
  | some (.script now cs s) =>
    -- EVAL is not classified read-only by `Command::is_read_only`
    let r := Redis.stepScript st now cs
    (s, s!"{showReply r.2} | {showDump r.1 now} | ro=0")

end RedisVerif.Driver.C01
