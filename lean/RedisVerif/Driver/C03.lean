import RedisVerif.Driver.Codec
import RedisVerif.Props.C03
import RedisVerif.Model.ShardsClock
import RedisVerif.Model.Shards7
import RedisVerif.Model.Script7
import RedisVerif.Model.Dispatch
import RedisVerif.Model.Server
import RedisVerif.Model.RouteTable
import RedisVerif.Driver.C01

/-
  C03 sub-driver (stateful): the sharding layer over the small concrete executor.
    NEW <N> <fixed01> <n> (<key> <rs|-> <rb>)*     → ok     (rs = `-`: key is not UTF-8, byte paths only)
    <CMD> args…                                     → canonical reply
    S <shared01> LOAD i | EXISTS i | FLUSH | EVAL i <key> | EVALSHA i <key>   → reply (script cache: node-global state)
    DUMP <fast01>                                   → aggregate dump taken through the public API
    TNEW <N> <carries: 7 × 0/1> <n> (<key> <rs|-> <rb>)*   → ok   timed stream (per-shard clocks, expiry);
          carries = which message kinds (generic fastGet fastSet pooledGet pooledSet batchGet batchSet) carry the time
    T <now-ms> SET|SETPX|SETEX|GET|EXISTS|DBSIZE|FGET|PGET|FSET|PSET|BGET|BSET|MGET|MSET args…  → canonical reply
    ENTRYPOINTS                                     → the model's table of mailbox-reaching entry points (`Model/Dispatch.lean`)
    DISPATCH                                        → the entry points the connection handler dispatches into
    M7NEW <N> <n> (<key> <route>)*                  → ok     the sharding model over the M7 REFERENCE executor
          (`Model/Shards7.lean`: every command of `Model/Redis.lean`, per-shard sweeps = set_time)
    M7 <now-ms> <OP args… in the C01 line syntax>   → reply in the C01 reply syntax (KEYS sorted)
    M7S <now-ms> <id> <nk> <key>* <na> <arg>* <nf> <field>*   → reply of script <id> of `Redis.scriptCatalog`
          (EVAL: ONE message to the shard of KEYS[1], the whole script runs there: `M7.execScript7`)
    SRV <now-ms> <G|FG|FS|BG|BS> <n> <arg>*         → the END-TO-END node (`Model/Server.lean`) on one command frame
          (bulk strings, command name first), via the entry point of the given frame class, on the
          shards of the last M7NEW: hex of the reply bytes | outside | crash | unmapped
          (replies whose order is unspecified — KEYS, HVALS — are sorted before encoding)
    SRVC <now-ms> <k> (<n> <arg>*){k}               → ONE CONNECTION carrying the pipeline of k frames
          (`Props/ServerConn.lean`, `node_end_to_end`: whatever the read segmentation, the partial
          writes and the batching configuration, the written byte stream is the concatenation of the
          frames' replies): hex of that byte stream (canonical order inside unordered replies)
    ROUTETABLE                                      → the model's routing table (`Model/RouteTable.lean`): Variant:key;… sorted
    ROUTEARMS                                       → the variants with an arm of their own in `execute`, sorted
    ROUTEPROBE <N> <Variant> <nf> (S <key> <home> | V <n> (<key> <home>)* | P <n> (<key> <home>)* | X)*
          → which of the N shards get a message when `execute` runs a command of that variant whose
          fields are these (S: a String, V: a Vec<String>, P: the keys of a Vec<(String, SDS)>, X: any
          other field; <home> = the key's shard under the real hash): a string of N 0/1 | no-row
    M7EVICT <now-ms>                                → evict    (the TTL tick: every shard adopts the time)
    M7DUMP <now-ms>                                 → visible keyspace (C01 dump syntax) | keys=[what KEYS * lists]
-/
namespace RedisVerif.Driver.C03
open RedisVerif RedisVerif.Driver RedisVerif.Shards RedisVerif.Shards.Str

structure DState where
  R : Routes
  fixed : Bool
  st : Shards SVal
  /-- keys that can be named by a generic command (valid UTF-8) -/
  utf8 : NSet
  /-- timed streams: per-shard stores with deadlines and clocks -/
  tst : List Clock.TShard := []
  carries : Clock.Carries := Clock.allCarry
  /-- the script cache(s): node-global state next to the keyspace -/
  cache : NSet := []
  priv : List NSet := []
  /-- the M7 instance: per-shard stores of M7 entries -/
  st7 : Shards Redis.Entry := []

def DState.init : DState := { R := Routes.ofTable 1 [], fixed := true, st := [[]], utf8 := [] }

def showR1 : R1 → String
  | .ok => "ok"
  | .nil => "nil"
  | .int i => s!"i:{i}"
  | .bulk b => s!"b:{hexOfBytes b}"
  | .err c => s!"e:{c}"
  | .ext _ => "ext"

/-- insertion sort on key codes (canonical order of unordered replies) -/
def sortNat (l : List Nat) : List Nat :=
  l.foldl (fun acc x => (acc.takeWhile (· ≤ x)) ++ x :: acc.dropWhile (· ≤ x)) []

def showKeys (l : List Nat) : String := "[" ++ ",".intercalate ((sortNat l).map showKey) ++ "]"

def showReply : Reply → String
  | .one r => showR1 r
  | .many l => "m:[" ++ ",".intercalate (l.map showR1) ++ "]"
  | .keys l => "k:" ++ showKeys l
  | .scan c l => s!"s:{c}:" ++ showKeys l
  | .rkey none => "r:nil"
  | .rkey (some _) => "r:some"

def kvs (n : Nat) : P (List (Nat × Bytes)) := repeatP n (do let k ← strKey; let v ← bytesTok; pure (k, v))

def optPat : P (Option Bytes) := do
  let t ← tok
  if t == "-" then pure none else
  match t.toList with
  | 'x' :: cs => match parseHexBytes cs with
    | some b => pure (some b)
    | none => failure
  | _ => failure

def parseCmd : P (Cmd sig) := do
  let t ← tok
  let k1 (op : Op1) : P (Cmd sig) := do let k ← strKey; pure (.single k op)
  let kv (f : Bytes → Op1) : P (Cmd sig) := do let k ← strKey; let v ← bytesTok; pure (.single k (f v))
  let k2 (op : Op2) : P (Cmd sig) := do let a ← strKey; let b ← strKey; pure (.two a b op)
  match t with
  | "GET" => k1 .get
  | "SET" => kv .set
  -- the same commands issued as Lua scripts (EVAL / SCRIPT LOAD + EVALSHA): routed by KEYS[1]
  | "EGET" => k1 .get
  | "ESGET" => k1 .get
  | "XSGET" => k1 .get
  | "ESET" => kv .set
  | "ESSET" => kv .set
  | "EINCR" => k1 .incr
  | "ESINCR" => k1 .incr
  -- a multi-call read-modify-write script (GET, +1 in Lua, SET): an increment iff it is one atomic step
  | "XINCR" => k1 .incr
  | "SETNX" => kv .setnx
  | "APPEND" => kv .append
  | "STRLEN" => k1 .strlen
  | "INCR" => k1 .incr
  | "GETDEL" => k1 .getdel
  | "GETSET" => kv .getset
  | "TYPE" => k1 .typ
  | "RPUSH" => do let k ← strKey; let n ← nat; let vs ← repeatP n bytesTok; pure (.single k (.rpush vs))
  | "LPUSH" => do let k ← strKey; let n ← nat; let vs ← repeatP n bytesTok; pure (.single k (.lpush vs))
  | "LPOP" => k1 .lpop
  | "RPOP" => k1 .rpop
  | "LLEN" => k1 .llen
  | "LRANGE" => k1 .lrange
  | "RENAME" => k2 .rename
  | "RENAMENX" => k2 .renamenx
  | "RPOPLPUSH" => k2 .rpoplpush
  | "LMOVE" => do
    let a ← strKey; let b ← strKey; let f ← tok; let t ← tok
    pure (.two a b (.lmove (f == "L") (t == "L")))
  | "SORTSTORE" => k2 .sortStore
  | "EVALSIE" => do let a ← strKey; let b ← strKey; let v ← bytesTok; pure (.two a b (.evalSetIfExists v))
  | "EVALSHASIE" => do let a ← strKey; let b ← strKey; let v ← bytesTok; pure (.two a b (.evalSetIfExists v))
  | "MGET" => do let n ← nat; let ks ← repeatP n strKey; pure (.mget ks)
  | "MSET" => do let n ← nat; let l ← kvs n; pure (.mset l)
  | "MSETNX" => do let n ← nat; let l ← kvs n; pure (.msetnx l)
  | "DEL" => do let n ← nat; let ks ← repeatP n strKey; pure (.del ks)
  | "EXISTS" => do let n ← nat; let ks ← repeatP n strKey; pure (.exists ks)
  | "KEYS" => do let p ← bytesTok; pure (.keys p)
  | "DBSIZE" => pure .dbsize
  | "FLUSH" => pure .flush
  | "SCAN" => do let c ← nat; let p ← optPat; let n ← optNat; pure (.scan c p n)
  | "RANDOMKEY" => pure .randomkey
  | "FGET" => do let k ← strKey; pure (.fastGet k)
  | "PGET" => do let k ← strKey; pure (.fastGet k)
  | "FSET" => do let k ← strKey; let v ← bytesTok; pure (.fastSet k v)
  | "PSET" => do let k ← strKey; let v ← bytesTok; pure (.fastSet k v)
  | "BGET" => do let n ← nat; let ks ← repeatP n strKey; pure (.batchGet ks)
  | "BSET" => do let n ← nat; let l ← kvs n; pure (.batchSet l)
  | _ => failure

def parseNew : P (Nat × Bool × List (Nat × Option Nat × Nat)) := do
  expect "NEW"
  let n ← nat
  let f ← nat
  let m ← nat
  let tbl ← repeatP m (do let k ← strKey; let rs ← optNat; let rb ← nat; pure (k, rs, rb))
  pure (n, f != 0, tbl)

/-- a timed op and how its replies are printed (`true`: one reply, `false`: `m:[…]`) -/
def parseT : P (Nat × Clock.TCmd × Nat) := do
  expect "T"
  let now ← nat
  let t ← tok
  let keyOp (kind : Clock.Kind) (op : Clock.KOp) : P (Nat × Clock.TCmd × Nat) := do
    let k ← strKey; pure (now, .key kind k op, 0)
  let keyVal (kind : Clock.Kind) : P (Nat × Clock.TCmd × Nat) := do
    let k ← strKey; let v ← bytesTok; pure (now, .key kind k (.set v), 0)
  let gets (kind : Clock.Kind) : P (Nat × Clock.TCmd × Nat) := do
    let n ← nat; let ks ← repeatP n strKey
    pure (now, .batch kind (ks.map (fun k => (k, Clock.KOp.get))), 1)
  let sets (kind : Clock.Kind) (mode : Nat) : P (Nat × Clock.TCmd × Nat) := do
    let n ← nat; let l ← kvs n
    pure (now, .batch kind (l.map (fun kv => (kv.1, Clock.KOp.set kv.2))), mode)
  match t with
  | "SET" => keyVal .generic
  | "SETPX" => do let k ← strKey; let v ← bytesTok; let ms ← nat; pure (now, .key .generic k (.setPx v ms), 0)
  | "SETEX" => do let k ← strKey; let v ← bytesTok; let sc ← nat; pure (now, .key .generic k (.setEx v sc), 0)
  | "GET" => keyOp .generic .get
  | "EXISTS" => keyOp .generic .exists
  | "DBSIZE" => pure (now, .dbsize, 0)
  | "FGET" => keyOp .fastGet .get
  | "PGET" => keyOp .pooledGet .get
  | "FSET" => keyVal .fastSet
  | "PSET" => keyVal .pooledSet
  | "BGET" => gets .batchGet
  | "MGET" => gets .generic
  | "BSET" => sets .batchSet 1
  | "MSET" => sets .generic 2
  | _ => failure

/-- `generic fastGet fastSet pooledGet pooledSet batchGet batchSet` as a string of 0/1 -/
def parseCarries (t : String) : Option Clock.Carries :=
  match t.toList.map (· == '1') with
  | [a, b, c, d, e, f, g] => some (fun k => match k with
      | .generic => a | .fastGet => b | .fastSet => c | .pooledGet => d | .pooledSet => e
      | .batchGet => f | .batchSet => g)
  | _ => none

def parseTNew : P (Nat × Clock.Carries × List (Nat × Option Nat × Nat)) := do
  expect "TNEW"
  let n ← nat
  let f ← tok
  let m ← nat
  let tbl ← repeatP m (do let k ← strKey; let rs ← optNat; let rb ← nat; pure (k, rs, rb))
  match parseCarries f with
  | some c => pure (n, c, tbl)
  | none => failure

def parseS : P (Bool × SCmd) := do
  expect "S"
  let f ← nat
  let t ← tok
  match t with
  | "LOAD" => do let i ← nat; pure (f != 0, .load i)
  | "EXISTS" => do let i ← nat; pure (f != 0, .exists i)
  | "FLUSH" => pure (f != 0, .flush)
  | "EVAL" => do let i ← nat; let k ← strKey; pure (f != 0, .eval i k)
  | "EVALSHA" => do let i ← nat; let k ← strKey; pure (f != 0, .evalsha i k)
  | _ => failure

def dedupSorted : List Nat → List Nat
  | [] => []
  | [x] => [x]
  | x :: y :: l => if x = y then dedupSorted (y :: l) else x :: dedupSorted (y :: l)

def dump (d : DState) (withFast : Bool) : String :=
  let ex := fun (c : Cmd sig) => (execN Str.exec d.R d.fixed d.st c).2
  let all := sortNat (replyKeys (ex (.keys [42])))
  let per := (dedupSorted all).map (fun k =>
    let fast := if withFast then showReply (ex (.fastGet k)) else "-"
    if d.utf8.contains k then
      let t := ex (.single k .typ)
      let v := if t == .one (.bulk [108, 105, 115, 116]) then ex (.single k .lrange) else ex (.single k .get)
      s!"{showKey k} {showReply t} {showReply v} {fast}"
    else s!"{showKey k} - - {fast}")
  " ".intercalate (toString all.length :: per.map (· ++ " ;"))

def parseM7New : P (Nat × List (Nat × Nat)) := do
  expect "M7NEW"
  let n ← nat
  let m ← nat
  let tbl ← repeatP m (do let k ← strKey; let r ← nat; pure (k, r))
  pure (n, tbl)

def parseM7S : P (Nat × Nat × List Nat × List Bytes × List Nat) := do
  expect "M7S"
  let now ← nat
  let id ← nat
  let nk ← nat
  let ks ← repeatP nk strKey
  let na ← nat
  let as ← repeatP na bytesTok
  let nf ← nat
  let fs ← repeatP nf strKey
  pure (now, id, ks, as, fs)

def parseSrv : P (Nat × FrameClass × List Bytes) := do
  expect "SRV"
  let now ← nat
  let c ← tok
  let n ← nat
  let args ← repeatP n bytesTok
  let cls : Option FrameClass := match c with
    | "G" => some .generic | "FG" => some .getFast | "FS" => some .setFast
    | "BG" => some .getBatch | "BS" => some .setBatch | _ => none
  match cls with
  | some k => pure (now, k, args)
  | none => failure

/-- `Server.handle`, with KEYS / HVALS replies put in canonical order before they are encoded -/
def srvStep (R : Routes) (cls : FrameClass) (st : Shards Redis.Entry) (now : Nat) (f : Server.Frame) :
    Shards Redis.Entry × String :=
  let r := Server.handle R (fun _ => cls) st now f
  let shown : String := match r.2 with
    | .bytes b => hexOfBytes b
    | .crash => "crash"
    | .outside => "outside"
    | .unmapped => "unmapped"
  match Grammar.parseCmdZc f with
  | .ok gc =>
    match Server.toCmd7 gc with
    | some c =>
      let x := Server.execVia R cls now st c
      let canon : Option Redis.Reply := match x.2 with
        | .keys l => some (.arr ((sortNat l).map Redis.Elem.key))
        | y => (M7.toM7 y).map (C01.canonReply c)
      match canon with
      | some rr => (r.1, hexOfBytes (Server.encodeReply rr))
      | none => (r.1, shown)
    | none => (r.1, shown)
  | .error _ => (r.1, shown)

def parseSrvC : P (Nat × List (List Bytes)) := do
  expect "SRVC"
  let now ← nat
  let k ← nat
  let fs ← repeatP k (do let n ← nat; repeatP n bytesTok)
  pure (now, fs)

/-- the frames of one connection, one after the other on the generic path (what `Conn.run` hands the
    executor for a well-formed pipeline), replies concatenated -/
def srvConn (R : Routes) (now : Nat) : Shards Redis.Entry → List Server.Frame → Shards Redis.Entry × Option String
  | st, [] => (st, some "")
  | st, f :: fs =>
    let r := srvStep R .generic st now f
    match r.2.toList with
    | 'x' :: hexDigits =>
      let t := srvConn R now r.1 fs
      (t.1, t.2.map (String.ofList hexDigits ++ ·))
    | _ => (r.1, none)

def parseM7 : P (Nat × Redis.Cmd) := do
  expect "M7"
  let now ← nat
  let c ← C01.cmd
  pure (now, c)

/-- a sharding-layer reply over M7 in the C01 reply syntax; the elements of a KEYS reply in key order -/
def showReply7 (c : Redis.Cmd) (r : Reply) : String :=
  match r with
  | .keys l => C01.showReply (.arr ((sortNat l).map Redis.Elem.key))
  | r =>
    match M7.toM7 r with
    | some x => C01.showReply (C01.canonReply c x)
    | none => "unmapped:" ++ showReply r

/-- one field of a route probe: its tokens in the canonical rendering, and the homes of its keys -/
def probeField : P (List Grammar.Tok × List (Nat × Nat)) := do
  let t ← tok
  let keyHome : P (Bytes × Nat) := do let b ← bytesTok; let h ← nat; pure (b, h)
  match t with
  | "S" => do let kh ← keyHome; pure ([.s kh.1], [(keyCode kh.1, kh.2)])
  | "V" => do
    let n ← nat; let l ← repeatP n keyHome
    pure (.len n :: l.map (fun kh => Grammar.Tok.s kh.1), l.map (fun kh => (keyCode kh.1, kh.2)))
  | "P" => do
    let n ← nat; let l ← repeatP n keyHome
    pure (.len n :: l.flatMap (fun kh => [Grammar.Tok.s kh.1, Grammar.Tok.d []]), l.map (fun kh => (keyCode kh.1, kh.2)))
  | "X" => pure ([.none], [])
  | _ => failure

def parseRouteProbe : P (Nat × String × List Grammar.Tok × List (Nat × Nat)) := do
  expect "ROUTEPROBE"
  let n ← nat
  let v ← tok
  let nf ← nat
  let fs ← repeatP nf probeField
  pure (n, v, fs.flatMap (·.1), fs.flatMap (·.2))

def routeProbe (n : Nat) (variant : String) (toks : List Grammar.Tok) (homes : List (Nat × Nat)) : String :=
  match RouteTable.lookup (Grammar.s2b variant) with
  | none => "no-row"
  | some r =>
    let R := Routes.ofTable n (NMap.ofList (homes.map (fun e => (e.1, (e.2, e.2)))))
    String.ofList ((List.range n).map (fun i => if RouteTable.recvOf R r.arm r.sel toks i then '1' else '0'))

def step (d : DState) (line : String) : DState × String :=
  match tokens line with
  | ["ROUTETABLE"] => (d, RouteTable.render)
  | ["ROUTEARMS"] => (d, RouteTable.renderArms)
  | "ROUTEPROBE" :: _ =>
    match runP parseRouteProbe line with
    | some (n, v, toks, homes) => (d, routeProbe n v toks homes)
    | none => (d, "bad-op")
  | ["ENTRYPOINTS"] => (d, ",".intercalate entryPointNames)
  | ["DISPATCH"] => (d, ",".intercalate dispatchTargets)
  | "M7NEW" :: _ =>
    match runP parseM7New line with
    | some (n, tbl) =>
      let t : NMap (Nat × Nat) := NMap.ofList (tbl.map (fun e => (e.1, (e.2, e.2))))
      ({ d with R := Routes.ofTable n t, st7 := Shards.init Redis.Entry n }, "ok")
    | none => (d, "bad-op")
  | ["M7EVICT", now] =>
    match now.toNat? with
    | some t => ({ d with st7 := M7.sweep (fun _ => true) t d.st7 }, "evict")
    | none => (d, "bad-op")
  | ["M7DUMP", now] =>
    match now.toNat? with
    | some t =>
      -- what KEYS * lists (every shard, after adopting the time), and what a client reads of each
      -- key through a routed command (the key's HOME shard only)
      let all := sortNat ((M7.sweep (fun _ => true) t d.st7).flatMap NMap.keys)
      let home : Redis.State := (dedupSorted (sortNat (d.st7.flatMap NMap.keys))).filterMap (fun k =>
        (NMap.get (shard d.st7 (d.R.bytes k)) k).map (fun e => (k, e)))
      (d, C01.showDump home t ++ " | keys=" ++ "[" ++ ",".intercalate (all.map showKey) ++ "]")
    | none => (d, "bad-op")
  | "SRVC" :: _ =>
    match runP parseSrvC line with
    | some (now, fs) =>
      let r := srvConn d.R now d.st7 fs
      ({ d with st7 := r.1 }, match r.2 with | some h => "x" ++ h | none => "not-answered")
    | none => (d, "bad-op")
  | "SRV" :: _ =>
    match runP parseSrv line with
    | some (now, cls, f) =>
      let r := srvStep d.R cls d.st7 now f
      ({ d with st7 := r.1 }, r.2)
    | none => (d, "bad-op")
  | "M7S" :: _ =>
    match runP parseM7S line with
    | some (now, id, ks, as, fs) =>
      match Redis.scriptCatalog id ks as fs, ks with
      | some p, k :: _ =>
        let r := M7.execScript7 d.R now d.st7 k p
        ({ d with st7 := r.1 }, showReply7 (.get k) r.2)
      | _, _ => (d, "bad-op")
    | none => (d, "bad-op")
  | "M7" :: _ =>
    match runP parseM7 line with
    | some (now, c) =>
      let r := M7.execNT7code d.R now d.st7 c
      ({ d with st7 := r.1 }, showReply7 c r.2)
    | none => (d, "bad-op")
  | "NEW" :: _ =>
    match runP parseNew line with
    | some (n, f, tbl) =>
      let t : NMap (Nat × Nat) := NMap.ofList (tbl.map (fun e => (e.1, ((e.2.1.getD e.2.2), e.2.2))))
      let u : NSet := NSet.ofList ((tbl.filter (fun e => e.2.1.isSome)).map (·.1))
      ({ R := Routes.ofTable n t, fixed := f, st := Shards.init SVal n, utf8 := u,
         cache := [], priv := List.replicate n [] }, "ok")
    | none => (d, "bad-op")
  | ["DUMP", f] => (d, dump d (f != "0"))
  | "S" :: _ =>
    match runP parseS line with
    | some (shared, c) =>
      let r := execS Str.exec .get d.R shared { cache := d.cache, priv := d.priv, st := d.st } c
      ({ d with cache := r.1.cache, priv := r.1.priv, st := r.1.st }, showReply r.2)
    | none => (d, "bad-op")
  | ["EVAL0SET", k, v] =>
    -- a script without KEYS that writes the key named by ARGV[1]: runs on shard 0
    match (bytesTok.run [k]), (bytesTok.run [v]) with
    | some (kb, _), some (vb, _) =>
      let r := execKeyless Str.exec d.st (.single (keyCode kb) (.set vb))
      ({ d with st := r.1 }, showReply r.2)
    | _, _ => (d, "bad-op")
  | "TNEW" :: _ =>
    match runP parseTNew line with
    | some (n, f, tbl) =>
      let t : NMap (Nat × Nat) := NMap.ofList (tbl.map (fun e => (e.1, (e.2.2, e.2.2))))
      ({ d with R := Routes.ofTable n t, carries := f, tst := Clock.tinit n }, "ok")
    | none => (d, "bad-op")
  | ["T", now, "EVICT"] =>
    match now.toNat? with
    | some n => let r := Clock.evictAll d.tst n; ({ d with tst := r.1 }, s!"i:{r.2}")
    | none => (d, "bad-op")
  | "T" :: _ =>
    match runP parseT line with
    | some (now, c, mode) =>
      let r := Clock.execNT d.R d.carries now d.tst c
      let shown := match mode, r.2 with
        | 0, [x] => showR1 x
        | 2, _ => "ok"
        | _, l => "m:[" ++ ",".intercalate (l.map showR1) ++ "]"
      ({ d with tst := r.1 }, shown)
    | none => (d, "bad-op")
  | _ =>
    match runP parseCmd line with
    | some c =>
      let r := execN Str.exec d.R d.fixed d.st c
      ({ d with st := r.1 }, showReply r.2)
    | none => (d, "bad-op")

end RedisVerif.Driver.C03
