import RedisVerif.Driver.Codec
import RedisVerif.Driver.C03
import RedisVerif.Props.C02

/-
  C02 sub-driver (stateful): collects one observed concurrent history and runs the VERIFIED
  per-key linearizability checker on it.
    NEW                 → ok
    I <id> <CMD …>      → ok     invocation (ids = global invocation stamps, increasing); an item of a
                                 batched call is `BGET 1 k` / `BSET 1 k v` with the call's interval
    R <id> <reply>      → ok     response, canonical reply text of the harness
    I <id> T <now> <OP …> / RT <id> <reply>   timed history: SET|SETPX|SETEX|GET|EXISTS|FGET|PGET|FSET|PSET|
                                 EGET|ESGET|ESET|ESSET|BGET 1 k|MGET 1 k|BSET 1 k v, invoked at virtual time <now>
    CHECK               → lin | not-lin
-/
namespace RedisVerif.Driver.C02
open RedisVerif RedisVerif.Driver RedisVerif.Shards RedisVerif.Shards.Str RedisVerif.Actors RedisVerif.Shards.Clock

def parseR1 (t : String) : Option R1 :=
  if t == "ok" then some .ok
  else if t == "nil" then some .nil
  else match t.toList with
    | 'i' :: ':' :: '-' :: ds => (String.ofList ds).toNat?.map (fun n => R1.int (-(n : Int)))
    | 'i' :: ':' :: ds => (String.ofList ds).toNat?.map (fun n => R1.int n)
    | 'e' :: ':' :: ds => (String.ofList ds).toNat?.map R1.err
    | 'b' :: ':' :: 'x' :: cs => (parseHexBytes cs).map R1.bulk
    | _ => none

/-- histories so far, newest first: untimed, and timed (`I <id> T <now> …`) -/
structure DState where
  h : List (Ev (Cmd sig) Reply) := []
  ht : List (Ev RedisVerif.C02.TReq R1) := []

/-- a timed single-key request: every read path is a GET of the key, every write path a SET -/
def parseTimed (toks : List String) : Option RedisVerif.C02.TReq :=
  let key (t : String) : Option Nat := (bytesTok.run [t]).map (fun x => keyCode x.1)
  let bytes (t : String) : Option Bytes := (bytesTok.run [t]).map (·.1)
  match toks with
  | [now, op, k] =>
    match now.toNat?, key k with
    | some n, some kc =>
      if op == "GET" || op == "FGET" || op == "PGET" || op == "EGET" || op == "ESGET" then some (n, (kc, .get))
      else if op == "EXISTS" then some (n, (kc, .exists))
      else none
    | _, _ => none
  | [now, op, x, y] =>
    match now.toNat? with
    | some n =>
      if (op == "BGET" || op == "MGET") && x == "1" then (key y).map (fun kc => (n, (kc, KOp.get)))
      else if op == "EXISTS" && x == "1" then (key y).map (fun kc => (n, (kc, KOp.exists)))
      else if op == "SET" || op == "FSET" || op == "PSET" || op == "ESET" || op == "ESSET" then
        match key x, bytes y with
        | some kc, some vb => some (n, (kc, .set vb))
        | _, _ => none
      else none
    | none => none
  | [now, op, a, b, c] =>
    match now.toNat? with
    | some n =>
      if op == "SETPX" || op == "SETEX" then
        match key a, bytes b, c.toNat? with
        | some kc, some vb, some x => some (n, (kc, if op == "SETPX" then .setPx vb x else .setEx vb x))
        | _, _, _ => none
      else if op == "BSET" && a == "1" then
        match key b, bytes c with
        | some kc, some vb => some (n, (kc, .set vb))
        | _, _ => none
      else none
    | none => none
  | _ => none

/-- a timed reply: plain, or `m:[r]` (one item of a batch / MGET) -/
def parseReplyT (t : String) : Option R1 :=
  match t.toList with
  | 'm' :: ':' :: '[' :: rest =>
    match rest.reverse with
    | ']' :: inner => parseR1 (String.ofList inner.reverse)
    | _ => none
  | _ => parseR1 t

/-- a reply: plain, or `m:[r]` for one item of a batched call -/
def parseReply (t : String) : Option Reply :=
  match t.toList with
  | 'm' :: ':' :: '[' :: rest =>
    match rest.reverse with
    | ']' :: inner => (parseR1 (String.ofList inner.reverse)).map (fun r => Reply.many [r])
    | _ => none
  | _ => (parseR1 t).map Reply.one

def step (d : DState) (line : String) : DState × String :=
  match tokens line with
  | ["NEW"] => ({}, "ok")
  | ["CHECK"] =>
    (d, if d.ht.isEmpty then (if RedisVerif.C02.checkLin d.h.reverse then "lin" else "not-lin")
        else (if RedisVerif.C02.checkLinT d.ht.reverse then "lin" else "not-lin"))
  | "I" :: id :: "T" :: rest =>
    match id.toNat?, parseTimed rest with
    | some i, some q => ({ d with ht := .inv i q :: d.ht }, "ok")
    | _, _ => (d, "bad-op")
  | ["RT", id, rep] =>
    match id.toNat?, parseReplyT rep with
    | some i, some r => ({ d with ht := .res i r :: d.ht }, "ok")
    | _, _ => (d, "bad-op")
  | ["R", id, rep] =>
    match id.toNat?, parseReply rep with
    | some i, some r => ({ d with h := .res i r :: d.h }, "ok")
    | _, _ => (d, "bad-op")
  | "I" :: id :: rest =>
    match id.toNat?, (C03.parseCmd.run rest) with
    | some i, some (c, []) => if SingleKey c then ({ d with h := .inv i c :: d.h }, "ok") else (d, "bad-op")
    | _, _ => (d, "bad-op")
  | _ => (d, "bad-op")

end RedisVerif.Driver.C02
