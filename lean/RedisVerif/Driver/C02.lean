import RedisVerif.Driver.Codec
import RedisVerif.Driver.C03
import RedisVerif.Props.C02

/-
  C02 sub-driver (stateful): collects one observed concurrent history and runs the VERIFIED
  per-key linearizability checker on it.
    NEW                 → ok
    I <id> <CMD …>      → ok     invocation (ids = global invocation stamps, increasing); an item of a
                                 batched call is `BGET 1 k` / `BSET 1 k v` with the call's interval
    R <id> <reply>      → ok     response, canonical reply text of the harness
    CHECK               → lin | not-lin
-/
namespace RedisVerif.Driver.C02
open RedisVerif RedisVerif.Driver RedisVerif.Shards RedisVerif.Shards.Str RedisVerif.Actors

def parseR1 (t : String) : Option R1 :=
  if t == "ok" then some .ok
  else if t == "nil" then some .nil
  else match t.toList with
    | 'i' :: ':' :: '-' :: ds => (String.ofList ds).toNat?.map (fun n => R1.int (-(n : Int)))
    | 'i' :: ':' :: ds => (String.ofList ds).toNat?.map (fun n => R1.int n)
    | 'e' :: ':' :: ds => (String.ofList ds).toNat?.map R1.err
    | 'b' :: ':' :: 'x' :: cs => (parseHexBytes cs).map R1.bulk
    | _ => none

/-- history so far, newest first -/
abbrev DState := List (Ev (Cmd sig) Reply)

/-- a reply: plain, or `m:[r]` for one item of a batched call -/
def parseReply (t : String) : Option Reply :=
  match t.toList with
  | 'm' :: ':' :: '[' :: rest =>
    match rest.reverse with
    | ']' :: inner => (parseR1 (String.ofList inner.reverse)).map (fun r => Reply.many [r])
    | _ => none
  | _ => (parseR1 t).map Reply.one

def step (d : DState) (line : String) : DState × String :=
  match tokens line with
  | ["NEW"] => ([], "ok")
  | ["CHECK"] => (d, if RedisVerif.C02.checkLin d.reverse then "lin" else "not-lin")
  | ["R", id, rep] =>
    match id.toNat?, parseReply rep with
    | some i, some r => (.res i r :: d, "ok")
    | _, _ => (d, "bad-op")
  | "I" :: id :: rest =>
    match id.toNat?, (C03.parseCmd.run rest) with
    | some i, some (c, []) => if SingleKey c then (.inv i c :: d, "ok") else (d, "bad-op")
    | _, _ => (d, "bad-op")
  | _ => (d, "bad-op")

end RedisVerif.Driver.C02
