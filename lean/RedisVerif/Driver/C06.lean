import RedisVerif.Driver.C08
import RedisVerif.Driver.C01
import RedisVerif.Props.C06
import RedisVerif.Props.C06Restart
import RedisVerif.Model.Glue

/-
  C06 sub-driver (stateful): a cluster of shard replication states.
    INIT <n> <causal01>                      → ok
    L <i> W <key> <val> <exp|->              → delta <rv> | none      (local op on node i)
    L <i> D <key> | L <i> HW … | L <i> HD …  (same syntax as the C08 driver after the node index)
    V <j> <idx>                              → ok        (deliver message idx of the history to node j, its origin included)
    RESTART <i>                              → ok        (node i comes back empty: Cluster.restart)
    STATE <i>                                → <n> (<key> <rv> ;)*
    CHECK <key>                              → delivered=<b> compat=<K|-> two=<b> agree=<b> agreeexp=<b>   (two = C06.TwoDeltas)

  Layer 2 (glue model `Model/Glue.lean`; a separate cluster of `Glue.Node`s):
    GN <n> <causal01>                        → ok
    GC <i> <command, C01 syntax> ;; <dump>   → <reply> | <served keyspace of node i> | sup=<ok|reason> delta=<key rv|none>
    GV <j> <idx> ;; <dump>                   → <merged rv|none> | <served keyspace of node j> | sup=<ok|reason>
    GX <j> <key> <rv> ;; <dump>              → same, for a crafted delta that is not in the history
    GR <i> <key> <rv> ;; <dump>              → fresh=<b> | <served keyspace of node i> | -      (ApplyRecoveredState)
    GA <i> ;; <dump>                         → adopt | <dump> | -      (a command outside the model M7 ran on node i: the recorder
                                               ignores it, the model adopts the executor keyspace and keeps the replication state)
    GZ <i>                                   → ok        (the actor of node i is spawned again, empty: GCluster.restart)
    GS <i>                                   → <n> (<key> <rv> ;)* | <served keyspace> | served=<b>
    GK <key>                                 → delivered=<b> kind=<K|-> agree=<b> reads=<b>
  `<dump>` after `;;` is the IMPLEMENTATION's served keyspace after the step (C01 dump syntax,
  instant 0).  As in the C01 driver the model answers from its own state and then adopts the
  implementation's executor keyspace, so that a known conformance defect of the executor (C01
  findings) is reported once, at the op where it happens.
-/
namespace RedisVerif.Driver.C06
open RedisVerif RedisVerif.Driver RedisVerif.Cluster

def parseLOp : P LOp := do
  let t ← tok
  match t with
  | "W" => do let k ← strKey; let v ← bytesTok; let e ← optNat; pure (.write k v e)
  | "D" => do let k ← strKey; pure (.delete k)
  | "HW" => do
    let k ← strKey; let n ← nat
    let fs ← repeatP n (do let f ← strKey; let v ← bytesTok; pure (f, v))
    pure (.hwrite k fs)
  | "HD" => do
    let k ← strKey; let n ← nat
    let fs ← repeatP n strKey
    pure (.hdelete k fs)
  | _ => failure

def b01 (b : Bool) : String := if b then "1" else "0"

def agreeB (c : Cluster) (k : Nat) : Bool :=
  c.nodes.all fun si => c.nodes.all fun sj =>
    (NMap.get si.keys k).map RV.strip == (NMap.get sj.keys k).map RV.strip

def agreeFullB (c : Cluster) (k : Nat) : Bool :=
  c.nodes.all fun si => c.nodes.all fun sj => NMap.get si.keys k == NMap.get sj.keys k

/-- same on expiry as well (what TTL reads see) -/
def agreeExpB (c : Cluster) (k : Nat) : Bool :=
  c.nodes.all fun si => c.nodes.all fun sj =>
    (NMap.get si.keys k).map (·.expiry) == (NMap.get sj.keys k).map (·.expiry)

def compatK (c : Cluster) (k : Nat) : Option Nat :=
  (List.range 6).find? (fun K => decide (Compat c.sent k K))

def step (c : Cluster) (line : String) : Cluster × String :=
  match tokens line with
  | ["INIT", n, cz] =>
    match n.toNat?, cz.toNat? with
    | some n, some z => (Cluster.init n (z != 0), "ok")
    | _, _ => (c, "bad-op")
  | ["V", j, idx] =>
    match j.toNat?, idx.toNat? with
    | some j, some idx => (c.step (.deliver j idx), "ok")
    | _, _ => (c, "bad-op")
  | ["RESTART", i] =>
    match i.toNat? with
    | some i => (c.restart i, "ok")
    | none => (c, "bad-op")
  | ["STATE", i] =>
    match i.toNat? with
    | some i =>
      match c.nodes[i]? with
      | some s => (c, " ".intercalate (toString s.keys.length :: s.keys.map (fun p => s!"{showKey p.1} {showRV p.2} ;")))
      | none => (c, "bad-op")
    | none => (c, "bad-op")
  | ["CHECK", _] =>
    match runP (do expect "CHECK"; strKey) line with
    | some k =>
      let comp := match compatK c k with | some K => toString K | none => "-"
      (c, s!"delivered={b01 (decide (C06.DeliveredAll c k))} compat={comp} two={b01 (decide (C06.TwoDeltas c k))} agree={b01 (agreeB c k)} agreeexp={b01 (agreeExpB c k)}")
    | none => (c, "bad-op")
  | "L" :: i :: _ =>
    match i.toNat? with
    | some i =>
      match runP (do expect "L"; let _ ← nat; parseLOp) line with
      | some op =>
        let before := c.sent.length
        let c' := c.step (.loc i op)
        if c'.sent.length > before then
          match c'.sent.getLast? with
          | some m => (c', s!"delta {showRV m.val}")
          | none => (c', "none")
        else (c', "none")
      | none => (c, "bad-op")
    | none => (c, "bad-op")
  | _ => (c, "bad-op")

/-! ## layer 2 -/

open RedisVerif.Glue

structure DState where
  c : Cluster
  g : GCluster

def DState.init : DState := { c := Cluster.init 0 false, g := GCluster.init 0 false }

def showReason : Option Reason → String
  | none => "ok"
  | some .nonReplicatedWriter => "non-replicated-writer"
  | some .badDelta => "bad-delta"
  | some .expiryRange => "expiry-range"

def showDelta : List Delta → String
  | [] => "none"
  | ds => " ; ".intercalate (ds.map (fun d => s!"{showKey d.1} {showRV d.2}"))

def replyInt : Redis.Reply → Int
  | .int i => i
  | _ => 0

/-- the adopted successor of one shard command: the implementation's executor keyspace, and the
    recorder run on THAT keyspace (so that an executor conformance defect — C01 — that the
    recorder reads, e.g. GETSET keeping the deadline, is reported once and does not cascade) -/
def adoptOne (g : GCluster) (i : Nat) (nd : Node) (c : Redis.Cmd) (r : Redis.Reply) (impl : Redis.State) : GCluster :=
  if applied c r then
    let q := record nd.rs impl c
    match q.2 with
    | some d =>
      { nodes := g.nodes.set i { exec := impl, rs := q.1 }
        sent := g.sent ++ [⟨i, d.1, d.2⟩]
        log := g.log ++ [⟨i, d.1, d.2⟩] }
    | none => { g with nodes := g.nodes.set i { exec := impl, rs := q.1 } }
  else { g with nodes := g.nodes.set i { exec := impl, rs := nd.rs } }

def showSnap (s : Shard) : String :=
  " ".intercalate (toString s.keys.length :: s.keys.map (fun p => s!"{showKey p.1} {showRV p.2} ;"))

/-- `served = materialise ∘ rs` on every key either side knows -/
def servedOk (n : Node) : Bool :=
  ((Redis.view n.exec 0).map (·.1) ++ n.rs.keys.map (·.1)).all
    (fun k => served n k == materialise (NMap.get n.rs.keys k))

/-- value part of what a node serves for a key (what GET / HGETALL / EXISTS depend on) -/
def servedVal (n : Node) (k : Nat) : Option Redis.Value := (served n k).map (·.val)

def kindK (c : Cluster) (k : Nat) : Option Nat :=
  (List.range 6).find? (fun K => decide (C06.KindStable c k K))

def adopt (g : GCluster) (i : Nat) (exec : Redis.State) : GCluster :=
  match g.nodes[i]? with
  | some nd => { g with nodes := g.nodes.set i { nd with exec := exec } }
  | none => g

def gstep (g : GCluster) (line : String) : GCluster × String :=
  match tokens line with
  | ["GN", n, cz] =>
    match n.toNat?, cz.toNat? with
    | some n, some z => (GCluster.init n (z != 0), "ok")
    | _, _ => (g, "bad-op")
  | ["GZ", i] =>
    match i.toNat? with
    | some i => (g.restart i, "ok")
    | none => (g, "bad-op")
  | ["GS", i] =>
    match i.toNat? with
    | some i =>
      match g.nodes[i]? with
      | some nd => (g, s!"{showSnap nd.rs} | {C01.showDump nd.exec 0} | served={b01 (servedOk nd)}")
      | none => (g, "bad-op")
    | none => (g, "bad-op")
  | ["GK", _] =>
    match runP (do expect "GK"; strKey) line with
    | some k =>
      let c := g.proj
      let kd := match kindK c k with | some K => toString K | none => "-"
      let reads := g.nodes.all fun a => g.nodes.all fun b => servedVal a k == servedVal b k
      (g, s!"delivered={b01 (decide (C06.DeliveredAll c k))} kind={kd} agree={b01 (agreeB c k)} reads={b01 reads}")
    | none => (g, "bad-op")
  | "GC" :: _ =>
    match runP (do expect "GC"; let i ← nat; let c ← C01.cmd; expect ";;"; let s ← C01.dump 0; pure (i, c, s)) line with
    | some (i, c, impl) =>
      match g.nodes[i]? with
      | some nd =>
        let sup := gunsupported g (.client i c)
        let subs := splitCmd c
        -- the model's own run of the (possibly split) command
        let acc := subs.foldl (fun (acc : GCluster × List Redis.Reply × List Delta) c' =>
          match acc.1.nodes[i]? with
          | some nd' =>
            let r := nd'.client c'
            (acc.1.clientOne i c', acc.2.1 ++ [r.2.1], acc.2.2 ++ r.2.2.toList)
          | none => acc) (g, [], [])
        let reply : Redis.Reply := match c, acc.2.1 with
          | .mset _, _ => .ok
          | _, [r] => r
          | _, rs => .int (rs.foldl (fun a r => a + replyInt r) 0)
        let dumpM := match acc.1.nodes[i]? with | some nd' => C01.showDump nd'.exec 0 | none => "?"
        let next := match subs with
          | [c1] => adoptOne g i nd c1 reply impl
          | _ => adopt acc.1 i impl
        (next,
          s!"{C01.showReply (C01.canonReply c reply)} | {dumpM} | sup={showReason sup} delta={showDelta acc.2.2}")
      | none => (g, "bad-op")
    | none => (g, "bad-op")
  | "GV" :: _ =>
    match runP (do expect "GV"; let j ← nat; let idx ← nat; expect ";;"; let s ← C01.dump 0; pure (j, idx, s)) line with
    | some (j, idx, impl) =>
      match g.nodes[j]?, g.sent[idx]? with
      | some _, some m =>
        let sup := gunsupported g (.deliver j idx)
        let g' := g.step (.deliver j idx)
        match g'.nodes[j]? with
        | some nd' =>
          let mv := match NMap.get nd'.rs.keys m.key with | some v => showRV v | none => "none"
          (adopt g' j impl, s!"{mv} | {C01.showDump nd'.exec 0} | sup={showReason sup}")
        | none => (g, "bad-op")
      | _, _ => (g, "bad-op")
    | none => (g, "bad-op")
  | "GX" :: _ =>
    match runP (do expect "GX"; let j ← nat; let k ← strKey; let v ← rv; expect ";;"; let s ← C01.dump 0; pure (j, k, v, s)) line with
    | some (j, k, v, impl) =>
      match g.nodes[j]? with
      | some nd =>
        let sup := unsupported nd (.deliver k v)
        let nd' := nd.deliver k v
        let mv := match NMap.get nd'.rs.keys k with | some v => showRV v | none => "none"
        ({ g with nodes := g.nodes.set j { nd' with exec := impl } },
          s!"{mv} | {C01.showDump nd'.exec 0} | sup={showReason sup}")
      | none => (g, "bad-op")
    | none => (g, "bad-op")
  | "GA" :: _ =>
    match runP (do expect "GA"; let j ← nat; expect ";;"; let s ← C01.dump 0; pure (j, s)) line with
    | some (j, impl) =>
      match g.nodes[j]? with
      | some _ => (adopt g j impl, s!"adopt | {C01.showDump impl 0} | -")
      | none => (g, "bad-op")
    | none => (g, "bad-op")
  | "GR" :: _ =>
    match runP (do expect "GR"; let j ← nat; let k ← strKey; let v ← rv; expect ";;"; let s ← C01.dump 0; pure (j, k, v, s)) line with
    | some (j, k, v, impl) =>
      match g.nodes[j]? with
      | some nd =>
        let fresh := (NMap.get nd.rs.keys k).isNone
        let nd' := nd.recovered k v
        ({ g with nodes := g.nodes.set j { nd' with exec := impl } },
          s!"fresh={b01 fresh} | {C01.showDump nd'.exec 0} | -")
      | none => (g, "bad-op")
    | none => (g, "bad-op")
  | _ => (g, "bad-op")

def stepAll (d : DState) (line : String) : DState × String :=
  match tokens line with
  | t :: _ =>
    if t == "GN" || t == "GZ" || t == "GC" || t == "GV" || t == "GX" || t == "GR" || t == "GA" || t == "GS" || t == "GK" then
      let r := gstep d.g line
      ({ d with g := r.1 }, r.2)
    else
      let r := step d.c line
      ({ d with c := r.1 }, r.2)
  | [] => (d, "bad-op")

end RedisVerif.Driver.C06
