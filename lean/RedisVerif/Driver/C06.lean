import RedisVerif.Driver.C08
import RedisVerif.Props.C06

/-
  C06 sub-driver (stateful): a cluster of shard replication states.
    INIT <n> <causal01>                      → ok
    L <i> W <key> <val> <exp|->              → delta <rv> | none      (local op on node i)
    L <i> D <key> | L <i> HW … | L <i> HD …  (same syntax as the C08 driver after the node index)
    V <j> <idx>                              → ok        (deliver message idx of the history to node j)
    STATE <i>                                → <n> (<key> <rv> ;)*
    CHECK <key>                              → delivered=<b> compat=<K|-> agree=<b> agreefull=<b>
-/
namespace RedisVerif.Driver.C06
open RedisVerif RedisVerif.Driver RedisVerif.Cluster

def parseLOp : P LOp := do
  let t ← tok
  match t with
  | "W" => do let k ← strKey; let v ← bytesTok; let e ← optNat; pure (.write k v e)
  | "D" => do let k ← strKey; pure (.delete k)
  | "HW" => do
    let k ← strKey; let n ← nat
    let fs ← repeatP n (do let f ← strKey; let v ← bytesTok; pure (f, v))
    pure (.hwrite k fs)
  | "HD" => do
    let k ← strKey; let n ← nat
    let fs ← repeatP n strKey
    pure (.hdelete k fs)
  | _ => failure

def b01 (b : Bool) : String := if b then "1" else "0"

def agreeB (c : Cluster) (k : Nat) : Bool :=
  c.nodes.all fun si => c.nodes.all fun sj =>
    (NMap.get si.keys k).map RV.strip == (NMap.get sj.keys k).map RV.strip

def agreeFullB (c : Cluster) (k : Nat) : Bool :=
  c.nodes.all fun si => c.nodes.all fun sj => NMap.get si.keys k == NMap.get sj.keys k

/-- same on expiry as well (what TTL reads see) -/
def agreeExpB (c : Cluster) (k : Nat) : Bool :=
  c.nodes.all fun si => c.nodes.all fun sj =>
    (NMap.get si.keys k).map (·.expiry) == (NMap.get sj.keys k).map (·.expiry)

def compatK (c : Cluster) (k : Nat) : Option Nat :=
  (List.range 6).find? (fun K => decide (Compat c.sent k K))

def step (c : Cluster) (line : String) : Cluster × String :=
  match tokens line with
  | ["INIT", n, cz] =>
    match n.toNat?, cz.toNat? with
    | some n, some z => (Cluster.init n (z != 0), "ok")
    | _, _ => (c, "bad-op")
  | ["V", j, idx] =>
    match j.toNat?, idx.toNat? with
    | some j, some idx => (c.step (.deliver j idx), "ok")
    | _, _ => (c, "bad-op")
  | ["STATE", i] =>
    match i.toNat? with
    | some i =>
      match c.nodes[i]? with
      | some s => (c, " ".intercalate (toString s.keys.length :: s.keys.map (fun p => s!"{showKey p.1} {showRV p.2} ;")))
      | none => (c, "bad-op")
    | none => (c, "bad-op")
  | ["CHECK", _] =>
    match runP (do expect "CHECK"; strKey) line with
    | some k =>
      let comp := match compatK c k with | some K => toString K | none => "-"
      (c, s!"delivered={b01 (decide (C06.Delivered c k))} compat={comp} agree={b01 (agreeB c k)} agreeexp={b01 (agreeExpB c k)}")
    | none => (c, "bad-op")
  | "L" :: i :: _ =>
    match i.toNat? with
    | some i =>
      match runP (do expect "L"; let _ ← nat; parseLOp) line with
      | some op =>
        let before := c.sent.length
        let c' := c.step (.loc i op)
        if c'.sent.length > before then
          match c'.sent.getLast? with
          | some m => (c', s!"delta {showRV m.val}")
          | none => (c', "none")
        else (c', "none")
      | none => (c, "bad-op")
    | none => (c, "bad-op")
  | _ => (c, "bad-op")

end RedisVerif.Driver.C06
