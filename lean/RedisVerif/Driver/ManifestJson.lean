import RedisVerif.Driver.Codec
import RedisVerif.Model.ManifestJson

/-
  Sub-driver for M4j (`Model/ManifestJson.lean`), pure (no state):
    MJENC <version> <rid> <next> <-|xkey:ts:kc:last> <n> (<id> <xkey> <count> <size> <min> <max>)*
                                   → x<hex of to_vec_pretty>
    MJDEC <xbytes>                 → ok <canonical manifest text> | err
    MJFLIPS <xbytes>               → for every byte, every bit: R (rejected) / S (accepted, same value) /
                                     D (accepted, DIFFERENT value), then a hash over the D values
-/
namespace RedisVerif.Driver.MJ
open RedisVerif RedisVerif.Driver RedisVerif.ManifestJson

def showSeg (s : JSeg) : String := s!"{s.id}:{hexOfBytes s.key}:{s.count}:{s.size}:{s.minTs}:{s.maxTs}"

def showMan (m : JMan) : String :=
  let chk := match m.checkpoint with
    | none => "-"
    | some c => s!"{hexOfBytes c.key}:{c.ts}:{c.keyCount}:{c.last}"
  s!"v={m.version} rid={m.rid} next={m.next} chk={chk} segs=[{",".intercalate (m.segments.map showSeg)}]"

/-- polynomial hash of a text, modulo 2^32 -/
def hashText (s : String) : Nat := s.toUTF8.toList.foldl (fun h b => (h * 131 + b.toNat) % 4294967296) 7

def pSeg : P JSeg := do
  let id ← nat
  let key ← bytesTok
  let count ← nat
  let size ← nat
  let mn ← nat
  let mx ← nat
  pure { id := id, key := key, count := count, size := size, minTs := mn, maxTs := mx }

def pChk : P (Option JChk) := do
  let t ← tok
  if t == "-" then pure none else
  match t.splitOn ":" with
  | [k, a, b, c] =>
    match k.toList, a.toNat?, b.toNat?, c.toNat? with
    | 'x' :: cs, some ts, some kc, some last =>
      match parseHexBytes cs with
      | some key => pure (some { key := key, ts := ts, keyCount := kc, last := last })
      | none => failure
    | _, _, _, _ => failure
  | _ => failure

def pMan : P JMan := do
  expect "MJENC"
  let v ← nat
  let rid ← nat
  let next ← nat
  let chk ← pChk
  let n ← nat
  let segs ← repeatP n pSeg
  pure { version := v, rid := rid, segments := segs, checkpoint := chk, next := next }

def flipAt (bs : List Nat) (i bit : Nat) : List Nat :=
  bs.set i ((bs.getD i 0) ^^^ (1 <<< bit))

def classify (bs : List Nat) : String :=
  let base := decode bs
  let n := bs.length
  let cells := (List.range n).flatMap (fun i => (List.range 8).map (fun bit => decode (flipAt bs i bit)))
  let chars := cells.map (fun r => match r with
    | none => 'R'
    | some m => if some m == base then 'S' else 'D')
  let h := cells.foldl (fun h r => match r with
    | some m => if some m == base then h else (h * 1000003 + hashText (showMan m)) % 4294967296
    | none => h) 0
  s!"{String.ofList chars} {h}"

def step (line : String) : Option String :=
  match tokens line with
  | "MJENC" :: _ =>
    match runP pMan line with
    | some m => some (hexOfBytes (encode m))
    | none => some "bad-op"
  | ["MJDEC", b] =>
    match b.toList with
    | 'x' :: cs =>
      match parseHexBytes cs with
      | some bs => some (match decode bs with | some m => s!"ok {showMan m}" | none => "err")
      | none => some "bad-op"
    | _ => some "bad-op"
  | ["MJFLIPS", b] =>
    match b.toList with
    | 'x' :: cs =>
      match parseHexBytes cs with
      | some bs => some (classify bs)
      | none => some "bad-op"
    | _ => some "bad-op"
  | _ => none

end RedisVerif.Driver.MJ
