import RedisVerif.Driver.C15
import RedisVerif.Model.Conn
import RedisVerif.Model.ConnWrite
import RedisVerif.Model.ConnSim

/-
  C04 sub-driver.  One line in, one line out:
    C <minPipeline> <batchThreshold> <headerLen> <readSize> <maxBuffer> <seg,seg,…>
        <headerLen> is `<n>` followed by any of `+g` (check_acl_permission guarded) and `+r` (the
        recognisers / batching gate as REPAIRED by the prepared fix), see `hlOf`;
      segments are hex tokens (`x…`) separated by commas; the connection receives them as
        successive network segments and then EOF
      → n=<replies> [<reply> ; …] end=<eof|crash>
    reply = `V <value>` | `E` (an error reply) | `PE` (-ERR protocol error) | `OV` (buffer overflow)
    S <seg,seg,…>   the mirror `SimulatedConnection::process` → n=<replies> [<reply> ; …] end=<eof|crash>
    K <minPipeline> <batchThreshold> <headerLen> <readSize> <maxBuffer> <seg,seg,…>
      → n=<replies> end=<eof|crash>      (commands outside the reference executor: count only)
    W <minPipeline> <batchThreshold> <headerLen> <readSize> <maxBuffer> <seg,seg,…> <script> <stop>
        the WRITE side (Model/ConnWrite.lean): script = answers of the peer's socket to successive
        poll_write / poll_flush calls, `a<k>` (takes k bytes / flush ok) or `f` (fails), comma
        separated, `-` = empty (exhausted = takes everything); stop = `-` or the number of reads
        after which read() fails
      → w=<hex of the bytes the peer received> reads=<reads processed>
-/
namespace RedisVerif.Driver.C04
open RedisVerif.Driver RedisVerif.Resp RedisVerif.Conn

def showReply : Reply → String
  | .val (.error _) => "E"
  | .val v => "V " ++ C15.showVal v
  | .err => "E"
  | .protoErr => "PE"
  | .overflow => "OV"

def crashed : List Action → Bool
  | [] => false
  | .crash :: _ => true
  | _ :: rest => crashed rest

def segsOf (t : String) : Option (List Bytes) :=
  (t.splitOn ",").mapM (fun h => runP bytesTok h)

def connOf (t : String) : Option ConnSpec :=
  match t.splitOn "/" with
  | [segs, f] =>
    let ss : Option (List Bytes) := if segs == "-" then some [] else segsOf segs
    let fa : Option (Option Nat) := if f == "-" then some none else (f.toNat?).map some
    match ss, fa with
    | some ss, some fa => some { segs := ss, failAt := fa }
    | _, _ => none
  | _ => none

def unAct : List Action' → Option (List Action)
  | [] => some []
  | .act a :: rest => (unAct rest).map (a :: ·)
  | .stale :: _ => none

def showConn (out : List Action') : String :=
  match unAct out with
  | none => "stale"
  | some acts =>
    let rs := replies ExSt.init acts
    s!"n={rs.length} [{" ; ".intercalate (rs.map showReply)}] end={if crashed acts then "crash" else "eof"}"

/-- the `<headerLen>` token: `14` = the code with `parts[0]` in check_acl_permission (a name without a
    non-white-space character panics), `14+g` = guarded (`parts.first()`, after the fix); `+r` = the
    recognisers and the batching gate as repaired by the prepared fix (`Config.repaired`).
    Result: HEADER_LEN and the pair (guarded, repaired). -/
def hlOf (t : String) : Option (Nat × (Bool × Bool)) :=
  match t.splitOn "+" with
  | n :: flags =>
    if flags.all (fun f => f == "g" || f == "r") then
      n.toNat?.map (fun k => (k, (flags.contains "g", flags.contains "r")))
    else none
  | [] => none

def mkCfg (mp bt hl rs mb : Nat) (fl : Bool × Bool) : Config :=
  { minPipeline := mp, batchThreshold := bt, headerLen := hl, readSize := rs, maxBuffer := mb,
    checked := true, nameGuard := fl.1, codec := codec1, env := C15.envD, repaired := fl.2 }

def wevOf (t : String) : Option ConnW.WEv :=
  match t.toList with
  | ['f'] => some .fail
  | 'a' :: ds => (String.ofList ds).toNat?.map ConnW.WEv.accept
  | _ => none

def scriptOf (t : String) : Option (List ConnW.WEv) :=
  if t == "-" then some [] else (t.splitOn ",").mapM wevOf

def step (line : String) : String :=
  match tokens line with
  | ["W", mp, bt, hl, rs, mb, segs, script, stop] =>
    let stopO : Option (Option Nat) := if stop == "-" then some none else stop.toNat?.map some
    match mp.toNat?, bt.toNat?, hlOf hl, rs.toNat?, mb.toNat?, segsOf segs, scriptOf script, stopO with
    | some mp, some bt, some (hl, ng), some rs, some mb, some ss, some sc, some st =>
      let cfg : Config := mkCfg mp bt hl rs mb ng
      let r := ConnW.runW cfg ConnW.refExec ExSt.init sc ss st
      s!"w={hexOfBytes r.out} reads={r.reads}"
    | _, _, _, _, _, _, _, _ => "bad-op"
  | ["P", mp, bt, hl, rs, mb, ps, conns] =>
    match mp.toNat?, bt.toNat?, hlOf hl, rs.toNat?, mb.toNat?, ps.toNat?, (conns.splitOn ";").mapM connOf with
    | some mp, some bt, some (hl, ng), some rs, some mb, some ps, some specs =>
      let cfg : Config := mkCfg mp bt hl rs mb ng
      let srv := serve cfg (Pool.init ps true) specs (seqEvents specs.length)
      " | ".intercalate (srv.outs.map (fun o => showConn o.2))
    | _, _, _, _, _, _, _ => "bad-op"
  | ["S", segs] =>
    -- the MIRROR (SimulatedConnection::process, Model/ConnSim.lean) on the same reference executor
    match segsOf segs with
    | some ss =>
      let r := ConnSim.simRun C15.envD (fun _ => false) ss
      let rs := replies ExSt.init (r.done.map (fun f => Action.exec f .generic))
      s!"n={rs.length} [{" ; ".intercalate (rs.map showReply)}] end={if r.crashed then "crash" else "eof"}"
    | none => "bad-op"
  | ["K", mp, bt, hl, rs, mb, segs] =>
    -- any well-formed commands (the reference executor does not know them): the number of replies only
    match mp.toNat?, bt.toNat?, hlOf hl, rs.toNat?, mb.toNat?, segsOf segs with
    | some mp, some bt, some (hl, ng), some rs, some mb, some ss =>
      let cfg : Config := mkCfg mp bt hl rs mb ng
      let acts := run cfg ss
      -- replies that reach the wire: a panic takes the unflushed replies of its read with it
      let w := ConnW.runW cfg (fun (u : Unit) _ _ => (u, Val.nullBulk)) () [] ss none
      let n := (feedAll (fun b => (parseG codec1 C15.envD b).out) FeedSt.init [w.out]).frames.length
      s!"n={n} end={if crashed acts then "crash" else "eof"}"
    | _, _, _, _, _, _ => "bad-op"
  | ["C", mp, bt, hl, rs, mb, segs] =>
    match mp.toNat?, bt.toNat?, hlOf hl, rs.toNat?, mb.toNat?, segsOf segs with
    | some mp, some bt, some (hl, ng), some rs, some mb, some ss =>
      let cfg : Config := mkCfg mp bt hl rs mb ng
      let acts := run cfg ss
      let rs := replies ExSt.init acts
      s!"n={rs.length} [{" ; ".intercalate (rs.map showReply)}] end={if crashed acts then "crash" else "eof"}"
    | _, _, _, _, _, _ => "bad-op"
  | _ => "bad-op"

end RedisVerif.Driver.C04
