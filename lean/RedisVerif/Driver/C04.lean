import RedisVerif.Driver.C15
import RedisVerif.Model.Conn

/-
  C04 sub-driver.  One line in, one line out:
    C <minPipeline> <batchThreshold> <headerLen> <readSize> <maxBuffer> <seg,seg,…>
        segments are hex tokens (`x…`) separated by commas; the connection receives them as
        successive network segments and then EOF
      → n=<replies> [<reply> ; …] end=<eof|crash>
    reply = `V <value>` | `E` (an error reply) | `PE` (-ERR protocol error) | `OV` (buffer overflow)
-/
namespace RedisVerif.Driver.C04
open RedisVerif.Driver RedisVerif.Resp RedisVerif.Conn

def showReply : Reply → String
  | .val (.error _) => "E"
  | .val v => "V " ++ C15.showVal v
  | .err => "E"
  | .protoErr => "PE"
  | .overflow => "OV"

def crashed : List Action → Bool
  | [] => false
  | .crash :: _ => true
  | _ :: rest => crashed rest

def segsOf (t : String) : Option (List Bytes) :=
  (t.splitOn ",").mapM (fun h => runP bytesTok h)

def connOf (t : String) : Option ConnSpec :=
  match t.splitOn "/" with
  | [segs, f] =>
    let ss : Option (List Bytes) := if segs == "-" then some [] else segsOf segs
    let fa : Option (Option Nat) := if f == "-" then some none else (f.toNat?).map some
    match ss, fa with
    | some ss, some fa => some { segs := ss, failAt := fa }
    | _, _ => none
  | _ => none

def unAct : List Action' → Option (List Action)
  | [] => some []
  | .act a :: rest => (unAct rest).map (a :: ·)
  | .stale :: _ => none

def showConn (out : List Action') : String :=
  match unAct out with
  | none => "stale"
  | some acts =>
    let rs := replies ExSt.init acts
    s!"n={rs.length} [{" ; ".intercalate (rs.map showReply)}] end={if crashed acts then "crash" else "eof"}"

def step (line : String) : String :=
  match tokens line with
  | ["P", mp, bt, hl, rs, mb, ps, conns] =>
    match mp.toNat?, bt.toNat?, hl.toNat?, rs.toNat?, mb.toNat?, ps.toNat?, (conns.splitOn ";").mapM connOf with
    | some mp, some bt, some hl, some rs, some mb, some ps, some specs =>
      let cfg : Config := { minPipeline := mp, batchThreshold := bt, headerLen := hl, readSize := rs,
                            maxBuffer := mb, checked := true, codec := codec1, env := C15.envD }
      let srv := serve cfg (Pool.init ps true) specs (seqEvents specs.length)
      " | ".intercalate (srv.outs.map (fun o => showConn o.2))
    | _, _, _, _, _, _, _ => "bad-op"
  | ["C", mp, bt, hl, rs, mb, segs] =>
    match mp.toNat?, bt.toNat?, hl.toNat?, rs.toNat?, mb.toNat?, segsOf segs with
    | some mp, some bt, some hl, some rs, some mb, some ss =>
      let cfg : Config := { minPipeline := mp, batchThreshold := bt, headerLen := hl, readSize := rs,
                            maxBuffer := mb, checked := true, codec := codec1, env := C15.envD }
      let acts := run cfg ss
      let rs := replies ExSt.init acts
      s!"n={rs.length} [{" ; ".intercalate (rs.map showReply)}] end={if crashed acts then "crash" else "eof"}"
    | _, _, _, _, _, _ => "bad-op"
  | _ => "bad-op"

end RedisVerif.Driver.C04
