/-
  CRC-32 (IEEE 802.3, reflected polynomial 0xEDB88320, init and final xor 0xFFFFFFFF) —
  what `crc32fast::hash` computes.  Executable, structurally recursive (so `decide` can
  evaluate it on small inputs); the models take `crc` as a parameter and only the driver
  and the concrete counterexamples instantiate it with this function.
  Differentially tested against crc32fast on every correspondence run (C10, C14).
-/
namespace RedisVerif.Driver

def crcBit (c : Nat) : Nat := if c % 2 = 1 then (c / 2) ^^^ 0xEDB88320 else c / 2

def crcByte (c b : Nat) : Nat :=
  crcBit (crcBit (crcBit (crcBit (crcBit (crcBit (crcBit (crcBit (c ^^^ b))))))))

def crc32 (bs : List Nat) : Nat := (bs.foldl crcByte 0xFFFFFFFF) ^^^ 0xFFFFFFFF

end RedisVerif.Driver
