import RedisVerif.Driver.Codec
import RedisVerif.Props.C07

/-
  C07 sub-driver.  One line in, one line out:
    M <rv> | <rv>      → merged value, tie-consistency, well-formedness of the inputs
-/
namespace RedisVerif.Driver.C07
open RedisVerif RedisVerif.Driver

def b01 (b : Bool) : String := if b then "1" else "0"

def step (line : String) : String :=
  let p : P (RV × RV) := do
    expect "M"
    let a ← rv
    expect "|"
    let b ← rv
    pure (a, b)
  match runP p line with
  | none => "bad-op"
  | some (a, b) =>
    let m := RV.merge a b
    let tie := decide (RedisVerif.C07.TieConsistent a b)
    let wfa := decide a.WF
    let wfb := decide b.WF
    s!"{showRV m} tie={b01 tie} wf={b01 wfa}{b01 wfb}"

end RedisVerif.Driver.C07
