import RedisVerif.Driver.Codec
import RedisVerif.Props.C07
import RedisVerif.Props.C07Lattice

/-
  C07 sub-driver.  One line in, one line out:
    M <rv> | <rv>      → merged value, tie-consistency, well-formedness of the inputs
    A <rv>             → every accessor of the value (replica universe 1..3, the harness' element
                         and field universes), see `accessors`
    C <rv> | <rv>      → CrdtValue level: try_merge, the deprecated merge, merge_with_timestamps, the
                         lattice's own `==`
    V <natmap> | <natmap>  → VectorClock: merge, happens_before both ways, concurrent_with, ==
    K <stamp> | <stamp>    → LamportClock: cmp, merge (keeps self.replica_id), update, tick, max
    U <mutator> …          → the mutators of lattice.rs / replicated_value.rs (see `mutate`)
-/
namespace RedisVerif.Driver.C07
open RedisVerif RedisVerif.Driver

def b01 (b : Bool) : String := if b then "1" else "0"

/-- the harness' universes (harness/src/c07.rs `FIELDS`, `ELEMS`) -/
def fieldU : List Bytes := [[102], [103], [97, 98], []]
def elemU : List Bytes := [[97], [98], [122, 122], [195, 188]]

def showOB : Option Bytes → String
  | none => "~"
  | some b => hexOfBytes b

def accessors (a : RV) : String :=
  let lww := match a.lww with | some r => showLww r | none => "-"
  let hget := ",".intercalate (fieldU.map (fun f => showOB (a.hashGet (keyCode f))))
  let hash := match a.getHash with | some h => toString h.length | none => "-"
  let gc := match a.crdt.asGCounter with
    | some c => s!"{GCounter.replicaCount c 1},{GCounter.replicaCount c 2},{GCounter.replicaCount c 3};{GCounter.value c};{b01 (GCounter.isEmpty c)}"
    | none => "-"
  let pn := match a.crdt.asPNCounter with
    | some (p, n) => s!"{PNCounter.value p n};{b01 (PNCounter.isEmpty p n)}"
    | none => "-"
  let gs := match a.crdt.asGSet with
    | some s => s!"{s.length};{b01 s.isEmpty};" ++ ",".intercalate (elemU.map (fun e => b01 (GSet.contains s (keyCode e))))
    | none => "-"
  let os := match a.crdt.asORSet with
    | some (e, _) => s!"{ORSet.len e};{b01 (ORSet.len e == 0)};" ++ ",".intercalate (elemU.map (fun x =>
        b01 (ORSet.contains e (keyCode x)) ++ ":" ++ (match ORSet.getTags e (keyCode x) with
          | some t => "+".intercalate (t.map toString)
          | none => "~")))
    | none => "-"
  let vc := match a.vc with
    | some v => s!"{VClock.get v 1},{VClock.get v 2},{VClock.get v 3}"
    | none => "-"
  s!"get={showOB a.get} tomb={b01 a.isTombstone} type={a.crdtType} islww={b01 a.crdt.isLww} ishash={b01 a.isHash} lww={lww} hget={hget} hash={hash} gc={gc} pn={pn} gs={gs} os={os} vc={vc} exp={showOptNat a.expiry} stamp={a.ts.time}.{a.ts.rid} rf={showOptNat a.rf} rf3={a.getRf 3}"

def latticeEq : Crdt → Crdt → String
  | .gcounter a, .gcounter b => b01 (GCounter.eq a b)
  | .pncounter p n, .pncounter p' n' => b01 (PNCounter.eq p n p' n')
  | .gset a, .gset b => b01 (a == b)
  | .orset a _, .orset b _ => b01 (ORSet.eq a b)
  | _, _ => "-"

def twoRV (tag : String) : P (RV × RV) := do
  expect tag
  let a ← rv
  expect "|"
  let b ← rv
  pure (a, b)

def mutate : P String := do
  expect "U"
  let m ← tok
  match m with
  | "ginc" => do
    let a ← rv; let r ← nat; let n ← nat
    match a.crdt with
    | .gcounter c => pure (showRV { a with crdt := .gcounter (GCounter.incrementBy c r n) })
    | _ => pure "n/a"
  | "pinc" => do
    let a ← rv; let r ← nat; let n ← nat
    match a.crdt with
    | .pncounter p q => pure (showRV { a with crdt := .pncounter (GCounter.incrementBy p r n) q })
    | _ => pure "n/a"
  | "pdec" => do
    let a ← rv; let r ← nat; let n ← nat
    match a.crdt with
    | .pncounter p q => pure (showRV { a with crdt := .pncounter p (GCounter.incrementBy q r n) })
    | _ => pure "n/a"
  | "sadd" => do
    let a ← rv; let e ← strKey
    match a.crdt with
    | .gset s => pure (s!"{showRV { a with crdt := .gset (GSet.add s e).1 }} new={b01 (GSet.add s e).2}")
    | _ => pure "n/a"
  | "oadd" => do
    let a ← rv; let e ← strKey; let r ← nat
    match a.crdt with
    | .orset el nx =>
      let x := ORSet.add el nx e r
      pure (s!"{showRV { a with crdt := .orset x.1 x.2.1 }} tag={x.2.2}")
    | _ => pure "n/a"
  | "orem" => do
    let a ← rv; let e ← strKey
    match a.crdt with
    | .orset el nx =>
      let x := ORSet.remove el e
      pure (s!"{showRV { a with crdt := .orset x.1 nx }} tags=" ++ "+".intercalate (x.2.map toString))
    | _ => pure "n/a"
  | "oapp" => do
    let a ← rv; let e ← strKey; let ts ← natSet
    match a.crdt with
    | .orset el nx => pure (showRV { a with crdt := .orset (ORSet.applyRemove el e ts) nx })
    | _ => pure "n/a"
  | "vinc" => do
    let v ← natMap; let r ← nat
    pure (showNatMap (VClock.increment v r))
  | "set" => do
    let a ← rv; let v ← bytesTok; let c ← stamp
    let t ← tok
    let vc ← (if t == "-" then pure none else if t == "V" then do let m ← natMap; pure (some m) else failure : P (Option (NMap Nat)))
    let x := a.set v c vc
    pure (s!"{showRV x.1} clock={showStamp x.2.1} vc=" ++ (match x.2.2 with | some m => showNatMap m | none => "-"))
  | "del" => do
    let a ← rv; let c ← stamp
    let x := a.delete c
    pure (s!"{showRV x.1} clock={showStamp x.2}")
  | "hset" => do
    let a ← rv; let f ← strKey; let v ← bytesTok; let c ← stamp
    let x := a.hashSet f v c
    pure (s!"{showRV x.1} clock={showStamp x.2}")
  | "hdel" => do
    let a ← rv; let f ← strKey; let c ← stamp
    let x := a.hashDelete f c
    pure (s!"{showRV x.1} clock={showStamp x.2}")
  | "rf" => do
    let a ← rv; let n ← nat
    pure (showRV (a.withRf n))
  | "new" => do
    -- constructors: ReplicatedValue::new / with_crdt(new_*) / with_value
    let k ← tok; let r ← nat
    match k with
    | "rv" => pure (showRV (RV.new r))
    | "lww" => pure (showRV (RV.withCrdt (Crdt.newLww r) r))
    | "gcounter" => pure (showRV (RV.withCrdt Crdt.newGCounter r))
    | "pncounter" => pure (showRV (RV.withCrdt Crdt.newPNCounter r))
    | "gset" => pure (showRV (RV.withCrdt Crdt.newGSet r))
    | "orset" => pure (showRV (RV.withCrdt Crdt.newORSet r))
    | "hash" => pure (showRV (RV.withCrdt Crdt.newHash r))
    | _ => failure
  | _ => failure

def step (line : String) : String :=
  match tokens line with
  | "M" :: _ =>
    match runP (twoRV "M") line with
    | none => "bad-op"
    | some (a, b) =>
      let m := RV.merge a b
      let tie := decide (RedisVerif.C07.TieConsistent a b)
      let wfa := decide a.WF
      let wfb := decide b.WF
      s!"{showRV m} tie={b01 tie} wf={b01 wfa}{b01 wfb}"
  | "A" :: _ =>
    match runP (do expect "A"; rv) line with
    | some a => accessors a
    | none => "bad-op"
  | "C" :: _ =>
    match runP (twoRV "C") line with
    | none => "bad-op"
    | some (a, b) =>
      let t := match Crdt.tryMerge a.crdt b.crdt with
        | some m => s!"ok {showCrdt m}"
        | none => s!"err {a.crdt.typeName} {b.crdt.typeName}"
      s!"try={t} | dep={showCrdt (Crdt.mergeDeprecated a.crdt b.crdt)} | mwt={showCrdt (Crdt.mergeWithTimestamps a.crdt b.crdt a.ts b.ts)} | eq={latticeEq a.crdt b.crdt}"
  | "V" :: _ =>
    match runP (do expect "V"; let a ← natMap; expect "|"; let b ← natMap; pure (a, b)) line with
    | none => "bad-op"
    | some (a, b) =>
      let m := VClock.merge a b
      s!"{showNatMap m} hb={b01 (VClock.happensBefore a b)}{b01 (VClock.happensBefore b a)} conc={b01 (VClock.concurrentWith a b)} eq={b01 (VClock.eq a b)} get={VClock.get m 1},{VClock.get m 2},{VClock.get m 3}"
  | "K" :: _ =>
    match runP (do expect "K"; let a ← stamp; expect "|"; let b ← stamp; pure (a, b)) line with
    | none => "bad-op"
    | some (a, b) =>
      s!"cmp={Stamp.cmp a b} merge={showStamp (Stamp.mergeClock a b)} update={showStamp (a.update b)} tick={showStamp a.tick} max={showStamp (Stamp.max a b)}"
  | "U" :: _ =>
    match runP mutate line with
    | some s => s
    | none => "bad-op"
  | _ => "bad-op"

end RedisVerif.Driver.C07
