import RedisVerif.Driver.Codec
import RedisVerif.Model.Ring
import RedisVerif.Model.Adaptive

/-
  C19 sub-driver (stateful).  The model HASHES ITSELF: virtual-node positions are
  `Ring.vnodePos Sip.sip13` (SipHash-1-3 over the id's 8 and the index's 4 little-endian bytes),
  key positions `Ring.keyPosOf Sip.sip13 HB.keyStr` (the key's bytes and 0xff).  The real
  positions (hook H2) are carried by the `V` / `KP` lines and only COMPARED (`conflicts`).

    SIP <hex>                                      DefaultHasher over raw bytes          → <u64>
    V <node> <count> <pos_0> … <pos_{count-1}>     real positions of the node's vnodes   → ok conflicts=<c>
    KP <m> (<keyhex> <keypos>)*m                   real ring positions of keys           → ok conflicts=<c>
    NEW <vnodes> <rf> <k> <n_1> … <n_k>            HashRing::new                         → ring summary
    NEWD <k> <n_1> … <n_k>                         HashRing::with_defaults               → ring summary
    ADD <node> | REM <node>                        add_node / remove_node                → ring summary
    OBS <rf> <m> (<keypos> <node>)*m               is_responsible : is_responsible_with_rf : get_primary : contains_node
                                                                                         → o a:b:p:c|…
    STATS <m> <keypos>*                            get_distribution_stats                → stats <total> <min> <max>
    ARF <base> <hot> <h> <hot keypos>*h <m> <keypos>*m
                                                   AdaptiveReplicationManager::get_rf_for_key, then
                                                   get_replicas_with_rf(key, that rf)    → a <rf>:<list>|…
    RUPD <id> <addr> | RREM <id>                   update_peer / remove_peer             → peers …
    ROUTES <m> <keypos>*                           route_with_stats                      → tbl … | stats <deltas> <assignments> <saved> <targets>
    RATIO <m> <keypos>*                            calculate_reduction_ratio             → ratio <selective> <broadcast>
    GNEW <self> <router 0|1>                       GossipState::new / with_router(current router) → g ok
    GHB <n> | GADV <n>                             queue_heartbeat × n / advance_epoch × n → g ok
    GQ <m> <keypos>* | GQB <m> <keypos>*           queue_deltas / queue_deltas_broadcast → g ok
    GSET                                           set_router(current router)            → g ok
    GSEL                                           is_selective                          → sel <0|1>
    GDRAIN                                         drain_outbound                        → q <n> <entries sorted: H@e×k, B@e:…, T<t>@e:…>
    LOOPI <gossip_interval_ms>                     does a gossip loop start?             → runs | panic zero-period
    LOOP <me> <npeers> <sel> <part> <enabled> <m> <keypos>*
                                                   one tick of a gossip loop of production/gossip_manager.rs
                                                   (state with the from_config router)   → loop <peer index>:<keypos,…>|…
    ADNEW <base> <hot> <recalc> <window> <threshold> <cleanup> <max_tracked>
                                                   AdaptiveReplicationManager::new       → ad <summary>
    ADOBS <keyhex> <write 0|1> <now> | ADRECALC <now> | ADCLEAR
                                                   observe / force_recalculate / clear   → ad <summary>
    ADQ <now> <m> <keyhex>*                        get_rf_for_key : is_hot per key       → aq <rf>:<0|1>|…
    K <rf|-> <m> <keypos>*                         get_replicas[_with_rf] per key        → r a,b|c,d|…
    T <sender> <m> <keypos>*                       get_gossip_targets per key            → t a,b|…
    RNEW <self> <selective> <k> <id>*              GossipRouter::new (address i = peer i)→ peers id:addr …
    RCFG <replica_id> <npeers> <selective> <partitioned> <enabled>
                                                   GossipRouter::from_config             → peers id:addr …
    RNONE                                          GossipState without router            → peers none
    ROUTE <m> <keypos>*                            route_deltas                          → tbl id:kp,kp …
    QUEUE <heartbeats> <m> <keypos>*               queue_heartbeat × n, queue_deltas, drain → q <n> hb=<n> …

  ring summary = `ring <len> <chk> inj=<0|1> rf=<rf> n=<node_count> ver=<version> phys <n>*` where
  chk is a polynomial checksum of the (pos, node, vidx) sequence and inj says whether all
  positions are pairwise distinct.
-/
namespace RedisVerif.Driver.C19
open RedisVerif RedisVerif.Driver RedisVerif.Ring

structure St where
  vring : VRing
  router : Option Router
  g : GState
  ad : Adaptive.Mgr

def St.init : St :=
  { vring := ⟨Ring.empty 0 0, 0⟩, router := none, g := GState.new 0 none,
    ad := Adaptive.Mgr.new 0 0 0 ⟨0, 0, 0, 0⟩ }

/-- summary of an `AdaptiveReplicationManager`: `stats()` (tracked keys, current hot keys, promotions,
    demotions) and `get_hot_key_updates()` sorted by key -/
def showAd (m : Adaptive.Mgr) : String :=
  s!"ad rf={m.baseRf}/{m.hotRf} tracked={m.det.counts.length} hot={m.overrides.length} prom={m.promotions} dem={m.demotions} ov="
    ++ ",".intercalate (m.overrides.map fun p => s!"{showKey p.1}:{p.2}")

def St.ring (st : St) : HashRing := st.vring.ring

/-- `HashRing::hash_virtual_node` of the current tree -/
def St.hashV (_ : St) : Nat → Nat → Nat := vnodePos Sip.sip13

def chkP : Nat := 2305843009213693951

def ringChk (ring : List Slot) : Nat :=
  ring.foldl (fun h s => (h * 1000003 + s.pos % chkP + (s.node % chkP) * 31 + s.vidx + 1) % chkP) 0

/-- all positions pairwise distinct, decided on the sorted ring -/
def adjDistinct : List Slot → Bool
  | a :: b :: rest => a.pos != b.pos && adjDistinct (b :: rest)
  | _ => true

def showList (l : List Nat) : String := ",".intercalate (l.map toString)

def showRing (v : VRing) : String :=
  let r := v.ring
  let inj := if adjDistinct r.ring then "1" else "0"
  " ".intercalate (["ring", toString r.ring.length, toString (ringChk r.ring), s!"inj={inj}",
    s!"rf={r.rf}", s!"n={r.phys.length}", s!"ver={v.version}", "phys"] ++ r.phys.map toString)

def showEntry (e : Msg × Nat) : String :=
  match e.1 with
  | .targeted t ds => s!"T{t}@{e.2}:{",".intercalate (ds.map toString)}"
  | .broadcast ds => s!"B@{e.2}:{",".intercalate (ds.map toString)}"
  | .heartbeat => s!"H@{e.2}"

/-- insertion sort of strings (the drained queue is compared as a multiset: the messages of one
    `queue_deltas` call are pushed in `HashMap` order) -/
def insStr (s : String) : List String → List String
  | [] => [s]
  | x :: xs => if s ≤ x then s :: x :: xs else x :: insStr s xs

def showTbl (tag : String) (tbl : NMap (List Nat)) : String :=
  " ".intercalate (tag :: tbl.map (fun p => s!"{p.1}:{showList p.2}"))

def showPeers (rt : Option Router) : String :=
  match rt with
  | none => "peers none"
  | some r => " ".intercalate (["peers", s!"self={r.self}", s!"sel={if r.selective then 1 else 0}"]
      ++ r.peers.map (fun p => s!"{p.1}:{p.2}"))

def natList : P (List Nat) := do
  let n ← nat
  repeatP n nat

/-- `MAX_OUTBOUND_QUEUE` -/
def maxOutbound : Nat := 10000

def showQueue (q : List Msg) : String :=
  let hb := (q.filter (· == Msg.heartbeat)).length
  let body := q.filterMap fun m => match m with
    | .targeted t ds => some s!"T{t}:{showList ds}"
    | .broadcast ds => some s!"B:{showList ds}"
    | .heartbeat => none
  " ".intercalate (["q", toString q.length, s!"hb={hb}"] ++ body)

def cmd (st : St) : P (St × String) := do
  let op ← tok
  match op with
  | "SIP" => do
    let b ← bytesTok
    pure (st, toString (Sip.sip13 b))
  | "V" => do
    let node ← nat
    let ps ← natList
    let c := (ps.zipIdx).foldl (fun (c : Nat) p => if vnodePos Sip.sip13 node p.2 == p.1 then c else c + 1) 0
    pure (st, s!"ok conflicts={c}")
  | "KP" => do
    let m ← nat
    let es ← repeatP m (do let k ← strKey; let p ← nat; pure (k, p))
    let c := es.foldl (fun (c : Nat) e => if keyPosOf Sip.sip13 HB.keyStr e.1 == e.2 then c else c + 1) 0
    pure (st, s!"ok conflicts={c}")
  | "NEW" => do
    let vn ← nat
    let rf ← nat
    let nodes ← natList
    let r := VRing.new st.hashV nodes vn rf
    pure ({ st with vring := r }, showRing r)
  | "NEWD" => do
    let nodes ← natList
    let r := VRing.new st.hashV nodes 150 3
    pure ({ st with vring := r }, showRing r)
  | "ADD" => do
    let x ← nat
    let r := st.vring.add st.hashV x
    pure ({ st with vring := r }, showRing r)
  | "REM" => do
    let x ← nat
    let r := st.vring.remove x
    pure ({ st with vring := r }, showRing r)
  | "OBS" => do
    let rf ← nat
    let m ← nat
    let ps ← repeatP m (do let k ← nat; let n ← nat; pure (k, n))
    let b := fun (x : Bool) => if x then "1" else "0"
    let f := fun (p : Nat × Nat) =>
      let pr := match getPrimary st.ring p.1 with | some x => toString x | none => "-"
      s!"{b (isResponsible st.ring p.1 p.2)}:{b (isResponsibleWithRf st.ring p.1 p.2 rf)}:{pr}:{b (st.ring.phys.contains p.2)}"
    pure (st, "o " ++ "|".intercalate (ps.map f))
  | "ARF" => do
    let base ← nat
    let hot ← nat
    let hs ← natList
    let ks ← natList
    let ov : NMap Nat := hs.foldl (fun m k => NMap.insert k hot m) []
    let f := fun k => let rf := rfForKey ov base k; s!"{rf}:{showList (getReplicasWithRf st.ring k rf)}"
    pure (st, "a " ++ "|".intercalate (ks.map f))
  | "ADNEW" => do
    let base ← nat
    let hot ← nat
    let recalc ← nat
    let window ← nat
    let threshold ← nat
    let cleanup ← nat
    let maxTracked ← nat
    let m := Adaptive.Mgr.new base hot recalc ⟨window, threshold, cleanup, maxTracked⟩
    pure ({ st with ad := m }, showAd m)
  | "ADOBS" => do
    let k ← strKey
    let w ← nat
    let now ← nat
    let m := st.ad.observe k (w != 0) now
    pure ({ st with ad := m }, showAd m)
  | "ADRECALC" => do
    let now ← nat
    let m := st.ad.recalculate now
    pure ({ st with ad := m }, showAd m)
  | "ADCLEAR" => do
    let m := st.ad.clear
    pure ({ st with ad := m }, showAd m)
  | "ADQ" => do
    let now ← nat
    let n ← nat
    let ks ← repeatP n strKey
    pure (st, "aq " ++ "|".intercalate (ks.map fun k => s!"{st.ad.rfForKey k}:{if st.ad.det.isHot k now then 1 else 0}"))
  | "STATS" => do
    let ks ← natList
    let (t, mn, mx) := distStats st.ring ks
    pure (st, s!"stats {t} {mn} {mx}")
  | "RUPD" => do
    let id ← nat
    let addr ← nat
    match st.router with
    | none => failure
    | some rt => let rt' := rt.updatePeer id addr; pure ({ st with router := some rt' }, showPeers (some rt'))
  | "RREM" => do
    let id ← nat
    match st.router with
    | none => failure
    | some rt => let rt' := rt.removePeer id; pure ({ st with router := some rt' }, showPeers (some rt'))
  | "ROUTES" => do
    let ks ← natList
    match st.router with
    | none => failure
    | some rt =>
      let (tbl, a, b, c, d) := routeWithStats st.ring rt ks
      pure (st, showTbl "tbl" tbl ++ s!" | stats {a} {b} {c} {d}")
  | "RATIO" => do
    let ks ← natList
    match st.router with
    | none => failure
    | some rt => let (a, b) := reductionCounts st.ring rt ks; pure (st, s!"ratio {a} {b}")
  | "GNEW" => do
    let self ← nat
    let w ← nat
    pure ({ st with g := GState.new self (if w != 0 then st.router else none) }, "g ok")
  | "GHB" => do
    let n ← nat
    pure ({ st with g := (List.range n).foldl (fun g _ => g.queueHeartbeat maxOutbound) st.g }, "g ok")
  | "GADV" => do
    let n ← nat
    pure ({ st with g := (List.range n).foldl (fun g _ => g.advanceEpoch) st.g }, "g ok")
  | "GQ" => do
    let ks ← natList
    pure ({ st with g := st.g.queueDeltas maxOutbound st.ring ks }, "g ok")
  | "GQB" => do
    let ks ← natList
    pure ({ st with g := st.g.queueBroadcast maxOutbound ks }, "g ok")
  | "GSET" =>
    match st.router with
    | none => failure
    | some rt => pure ({ st with g := st.g.setRouter rt }, "g ok")
  | "GSEL" => pure (st, s!"sel {if st.g.isSelective then 1 else 0}")
  | "GDRAIN" => do
    let (q, g') := st.g.drain
    let es := (q.map showEntry).foldr insStr []
    pure ({ st with g := g' }, " ".intercalate (["q", toString q.length] ++ es))
  | "LOOPI" => do
    let ms ← nat
    match loopStart currentIntervalClamped ms with
    | .ticksEvery _ => pure (st, "runs")
    | .panicZeroPeriod => pure (st, "panic zero-period")
  | "LOOP" => do
    let me ← nat
    let np ← nat
    let sel ← nat
    let part ← nat
    let en ← nat
    let ks ← natList
    let rt := fromConfig me np (usesSelectiveGossip (sel != 0) (part != 0) (en != 0))
    let (out, _) := loopTick loopArith maxOutbound st.ring me np (GState.new me (some rt)) ks
    let rows := (List.range np).map fun i => s!"{i}:{showList (deliveredTo out i)}"
    pure (st, "loop " ++ "|".intercalate rows)
  | "K" => do
    let rf ← optNat
    let ks ← natList
    let f := fun k => match rf with
      | none => getReplicas st.ring k
      | some rf => getReplicasWithRf st.ring k rf
    pure (st, "r " ++ "|".intercalate (ks.map (fun k => showList (f k))))
  | "T" => do
    let sender ← nat
    let ks ← natList
    pure (st, "t " ++ "|".intercalate (ks.map (fun k => showList (gossipTargets st.ring k sender))))
  | "RNEW" => do
    let self ← nat
    let sel ← nat
    let ids ← natList
    let peers := (ids.zipIdx).foldl (fun m p => NMap.insert p.1 p.2 m) ([] : NMap Nat)
    let rt : Router := { self := self, peers := peers, selective := sel != 0 }
    pure ({ st with router := some rt }, showPeers (some rt))
  | "RCFG" => do
    let rid ← nat
    let np ← nat
    let sel ← nat
    let part ← nat
    let en ← nat
    let rt := fromConfig rid np (usesSelectiveGossip (sel != 0) (part != 0) (en != 0))
    pure ({ st with router := some rt }, showPeers (some rt))
  | "RNONE" => pure ({ st with router := none }, showPeers none)
  | "ROUTE" => do
    let ks ← natList
    match st.router with
    | none => failure
    | some rt => pure (st, showTbl "tbl" (routeDeltas st.ring rt ks))
  | "QUEUE" => do
    let hb ← nat
    let ks ← natList
    let q := queueDeltas maxOutbound st.ring st.router
      (enforceCap maxOutbound (List.replicate hb Msg.heartbeat)) ks
    pure (st, showQueue q)
  | _ => failure

def step (st : St) (line : String) : St × String :=
  match (cmd st).run (tokens line) with
  | some ((st', out), []) => (st', out)
  | _ => (st, "bad-op")

end RedisVerif.Driver.C19
