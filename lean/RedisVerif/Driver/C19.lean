import RedisVerif.Driver.Codec
import RedisVerif.Model.Ring

/-
  C19 sub-driver (stateful).  The model HASHES ITSELF: virtual-node positions are
  `Ring.vnodePos Sip.sip13` (SipHash-1-3 over the id's 8 and the index's 4 little-endian bytes),
  key positions `Ring.keyPosOf Sip.sip13 HB.keyStr` (the key's bytes and 0xff).  The real
  positions (hook H2) are carried by the `V` / `KP` lines and only COMPARED (`conflicts`).

    SIP <hex>                                      DefaultHasher over raw bytes          → <u64>
    V <node> <count> <pos_0> … <pos_{count-1}>     real positions of the node's vnodes   → ok conflicts=<c>
    KP <m> (<keyhex> <keypos>)*m                   real ring positions of keys           → ok conflicts=<c>
    NEW <vnodes> <rf> <k> <n_1> … <n_k>            HashRing::new                         → ring summary
    ADD <node> | REM <node>                        add_node / remove_node                → ring summary
    K <rf|-> <m> <keypos>*                         get_replicas[_with_rf] per key        → r a,b|c,d|…
    T <sender> <m> <keypos>*                       get_gossip_targets per key            → t a,b|…
    RNEW <self> <selective> <k> <id>*              GossipRouter::new (address i = peer i)→ peers id:addr …
    RCFG <replica_id> <npeers> <selective>         GossipRouter::from_config             → peers id:addr …
    RNONE                                          GossipState without router            → peers none
    ROUTE <m> <keypos>*                            route_deltas                          → tbl id:kp,kp …
    QUEUE <heartbeats> <m> <keypos>*               queue_heartbeat × n, queue_deltas, drain → q <n> hb=<n> …

  ring summary = `ring <len> <chk> inj=<0|1> phys <n>*` where chk is a polynomial checksum of the
  (pos, node, vidx) sequence and inj says whether all positions are pairwise distinct.
-/
namespace RedisVerif.Driver.C19
open RedisVerif RedisVerif.Driver RedisVerif.Ring

structure St where
  ring : HashRing
  router : Option Router

def St.init : St := { ring := Ring.empty 0 0, router := none }

/-- `HashRing::hash_virtual_node` of the current tree -/
def St.hashV (_ : St) : Nat → Nat → Nat := vnodePos Sip.sip13

def chkP : Nat := 2305843009213693951

def ringChk (ring : List Slot) : Nat :=
  ring.foldl (fun h s => (h * 1000003 + s.pos % chkP + (s.node % chkP) * 31 + s.vidx + 1) % chkP) 0

/-- all positions pairwise distinct, decided on the sorted ring -/
def adjDistinct : List Slot → Bool
  | a :: b :: rest => a.pos != b.pos && adjDistinct (b :: rest)
  | _ => true

def showList (l : List Nat) : String := ",".intercalate (l.map toString)

def showRing (r : HashRing) : String :=
  let inj := if adjDistinct r.ring then "1" else "0"
  " ".intercalate (["ring", toString r.ring.length, toString (ringChk r.ring), s!"inj={inj}", "phys"]
    ++ r.phys.map toString)

def showTbl (tag : String) (tbl : NMap (List Nat)) : String :=
  " ".intercalate (tag :: tbl.map (fun p => s!"{p.1}:{showList p.2}"))

def showPeers (rt : Option Router) : String :=
  match rt with
  | none => "peers none"
  | some r => " ".intercalate (["peers", s!"self={r.self}", s!"sel={if r.selective then 1 else 0}"]
      ++ r.peers.map (fun p => s!"{p.1}:{p.2}"))

def natList : P (List Nat) := do
  let n ← nat
  repeatP n nat

/-- `MAX_OUTBOUND_QUEUE` -/
def maxOutbound : Nat := 10000

def showQueue (q : List Msg) : String :=
  let hb := (q.filter (· == Msg.heartbeat)).length
  let body := q.filterMap fun m => match m with
    | .targeted t ds => some s!"T{t}:{showList ds}"
    | .broadcast ds => some s!"B:{showList ds}"
    | .heartbeat => none
  " ".intercalate (["q", toString q.length, s!"hb={hb}"] ++ body)

def cmd (st : St) : P (St × String) := do
  let op ← tok
  match op with
  | "SIP" => do
    let b ← bytesTok
    pure (st, toString (Sip.sip13 b))
  | "V" => do
    let node ← nat
    let ps ← natList
    let c := (ps.zipIdx).foldl (fun (c : Nat) p => if vnodePos Sip.sip13 node p.2 == p.1 then c else c + 1) 0
    pure (st, s!"ok conflicts={c}")
  | "KP" => do
    let m ← nat
    let es ← repeatP m (do let k ← strKey; let p ← nat; pure (k, p))
    let c := es.foldl (fun (c : Nat) e => if keyPosOf Sip.sip13 HB.keyStr e.1 == e.2 then c else c + 1) 0
    pure (st, s!"ok conflicts={c}")
  | "NEW" => do
    let vn ← nat
    let rf ← nat
    let nodes ← natList
    let r := Ring.new st.hashV nodes vn rf
    pure ({ st with ring := r }, showRing r)
  | "ADD" => do
    let x ← nat
    let r := addNode st.hashV st.ring x
    pure ({ st with ring := r }, showRing r)
  | "REM" => do
    let x ← nat
    let r := removeNode st.ring x
    pure ({ st with ring := r }, showRing r)
  | "K" => do
    let rf ← optNat
    let ks ← natList
    let f := fun k => match rf with
      | none => getReplicas st.ring k
      | some rf => getReplicasWithRf st.ring k rf
    pure (st, "r " ++ "|".intercalate (ks.map (fun k => showList (f k))))
  | "T" => do
    let sender ← nat
    let ks ← natList
    pure (st, "t " ++ "|".intercalate (ks.map (fun k => showList (gossipTargets st.ring k sender))))
  | "RNEW" => do
    let self ← nat
    let sel ← nat
    let ids ← natList
    let peers := (ids.zipIdx).foldl (fun m p => NMap.insert p.1 p.2 m) ([] : NMap Nat)
    let rt : Router := { self := self, peers := peers, selective := sel != 0 }
    pure ({ st with router := some rt }, showPeers (some rt))
  | "RCFG" => do
    let rid ← nat
    let np ← nat
    let sel ← nat
    let rt := fromConfig rid np (sel != 0)
    pure ({ st with router := some rt }, showPeers (some rt))
  | "RNONE" => pure ({ st with router := none }, showPeers none)
  | "ROUTE" => do
    let ks ← natList
    match st.router with
    | none => failure
    | some rt => pure (st, showTbl "tbl" (routeDeltas st.ring rt ks))
  | "QUEUE" => do
    let hb ← nat
    let ks ← natList
    let q := queueDeltas maxOutbound st.ring st.router
      (enforceCap maxOutbound (List.replicate hb Msg.heartbeat)) ks
    pure (st, showQueue q)
  | _ => failure

def step (st : St) (line : String) : St × String :=
  match (cmd st).run (tokens line) with
  | some ((st', out), []) => (st', out)
  | _ => (st, "bad-op")

end RedisVerif.Driver.C19
