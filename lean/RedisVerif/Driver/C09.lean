import RedisVerif.Driver.Codec
import RedisVerif.Driver.Crc32
import RedisVerif.Model.WalActor

/-
  C09 sub-driver.  One line = one workload:
    G <fix 0|1> <tickSyncs 0|1> <format 1|2> <maxSize> <maxEntries> F <nf> {<callIndex> <ok|fail|full|torn:K>}*
      W <ngroups> {<nmsgs> {w <id> <ts> <hex> | f <id> <ts> <hex> | t | x <T>}*}*
  (w = write_durable, f = write_fire_and_forget, t = sync_tick, x = truncate(T))
  Output: the acks (sorted by id), the I/O call trace, and for EVERY crash index t (after t
  calls) the ids of the entries WAL recovery returns from the crash image.

  `codeSyncsBeforeDrop` below is the ONE switch that says which variant of /repo's rotator the
  harness is compared against; the harness sends it back in the op line (`fix`), so the driver
  itself is variant-agnostic.
-/
namespace RedisVerif.Driver.C09
open RedisVerif RedisVerif.Driver RedisVerif.Wal

def crc : Bytes → Nat := crc32

def outcomeP : P Outcome := do
  let t ← tok
  match t with
  | "ok" => pure .ok
  | "fail" => pure .fail
  | "full" => pure .diskFull
  | _ =>
    match t.splitOn ":" with
    | ["torn", k] => match k.toNat? with
      | some k => pure (.torn k)
      | none => failure
    | _ => failure

def showOutcome : Outcome → String
  | .ok => "ok" | .fail => "fail" | .diskFull => "full" | .torn k => s!"torn:{k}"

def showErr : Err → String
  | .io => "io" | .full => "full" | .torn => "torn" | .fsync => "fsync"

def showAck : Ack → String
  | .ok => "ok"
  | .err e => showErr e

def showCall : Call → String
  | .create s ok => s!"c{s}:{if ok then "ok" else "err"}"
  | .append s len o => s!"a{s}:{len}:{showOutcome o}"
  | .sync s ok => s!"s{s}:{if ok then "ok" else "err"}"
  | .delete s ok => s!"d{s}:{if ok then "ok" else "err"}"

structure Workload where
  fix : Bool
  tick : Bool
  fmt : Format
  maxSize : Nat
  maxEntries : Nat
  faults : List (Nat × Outcome)
  groups : List (List Ev)

def workloadP : P Workload := do
  expect "G"
  let f ← nat
  let tk ← nat
  let v ← nat
  let ms ← nat
  let me ← nat
  expect "F"
  let nf ← nat
  let fs ← repeatP nf (do let i ← nat; let o ← outcomeP; pure (i, o))
  expect "W"
  let ng ← nat
  let gs ← repeatP ng (do
    let nw ← nat
    repeatP nw (do
      let k ← tok
      match k with
      | "w" => do let id ← nat; let ts ← nat; let d ← bytesTok; pure (Ev.write ⟨id, d, ts⟩)
      | "f" => do let id ← nat; let ts ← nat; let d ← bytesTok; pure (Ev.forget ⟨id, d, ts⟩)
      | "t" => pure Ev.tick
      | "x" => do let T ← nat; pure (Ev.truncate T)
      | _ => failure))
  pure ⟨f != 0, tk != 0, if v = 1 then .v1 else .v2, ms, me, fs, gs⟩

def oracleOf (fs : List (Nat × Outcome)) (i : Nat) : Outcome :=
  match fs.find? (·.1 == i) with
  | some p => p.2
  | none => .ok

/-- insertion sort of acks by id (ids are distinct) -/
def insertAck (a : AckRec) : List AckRec → List AckRec
  | [] => [a]
  | b :: bs => if a.id ≤ b.id then a :: b :: bs else b :: insertAck a bs

def idOf (ws : List Write) (e : Entry) : String :=
  match ws.find? (fun w => w.data == e.data && w.ts == e.ts) with
  | some w => toString w.id
  | none => "?"

def step (line : String) : String :=
  match runP workloadP line with
  | none => "bad-op"
  | some wl =>
    let a := Actor.runGroups wl.fix wl.tick (oracleOf wl.faults) wl.fmt crc wl.maxSize wl.maxEntries wl.groups
    let ws := wl.groups.flatten.filterMap (fun ev => match ev with | .write w => some w | .forget w => some w | _ => none)
    let acks := a.acks.foldl (fun acc x => insertAck x acc) []
    let acksS := " ".intercalate (acks.map (fun x => s!"{x.id}={showAck x.res}"))
    let traceS := " ".intercalate (a.rot.w.trace.reverse.map showCall)
    let crashS := " ; ".intercalate (a.rot.w.hist.reverse.map (fun st =>
      " ".intercalate ((durable wl.fmt crc st).map (idOf ws))))
    s!"acks {acksS} | trace {traceS} | crash {crashS}"

end RedisVerif.Driver.C09
