import RedisVerif.Driver.Codec
import RedisVerif.Driver.Crc32
import RedisVerif.Model.WalActor

/-
  C09 sub-driver.  One line = one workload:
    G <fix 0|1> <tickSyncs 0|1> <format 1|2> <reuseSeq 0|1> <maxSize> <maxEntries> K <nincarnations>
      { F <nf> {<callIndex> <ok|fail|full|torn:K>}* D <deadFrom|->
        W <ngroups> {<nmsgs> {w <id> <ts> <hex> | f <id> <ts> <hex> | t | x <T>}*}*
        E <c|s|e> }*
  (w = write_durable, f = write_fire_and_forget, t = sync_tick, x = truncate(T); D k = every I/O call
   with index >= k of this incarnation fails, i.e. the machine is dying from call k on;
   E c = machine crash then restart, E s = clean shutdown then restart, E e = end of the history)
  Output: the acks (sorted by id), the I/O call trace, and for EVERY crash index t (after t
  calls) the ids of the entries WAL recovery returns from the crash image.

  `codeSyncsBeforeDrop` below is the ONE switch that says which variant of /repo's rotator the
  harness is compared against; the harness sends it back in the op line (`fix`), so the driver
  itself is variant-agnostic.
-/
namespace RedisVerif.Driver.C09
open RedisVerif RedisVerif.Driver RedisVerif.Wal

def crc : Bytes → Nat := crc32

def outcomeP : P Outcome := do
  let t ← tok
  match t with
  | "ok" => pure .ok
  | "fail" => pure .fail
  | "full" => pure .diskFull
  | _ =>
    match t.splitOn ":" with
    | ["torn", k] => match k.toNat? with
      | some k => pure (.torn k)
      | none => failure
    | _ => failure

def showOutcome : Outcome → String
  | .ok => "ok" | .fail => "fail" | .diskFull => "full" | .torn k => s!"torn:{k}"

def showErr : Err → String
  | .io => "io" | .full => "full" | .torn => "torn" | .fsync => "fsync"

def showAck : Ack → String
  | .ok => "ok"
  | .err e => showErr e

def showCall : Call → String
  | .create s ok existed => s!"c{s}:{if ok then "ok" else "err"}{if existed then ":over" else ""}"
  | .crash => "crash"
  | .append s len o => s!"a{s}:{len}:{showOutcome o}"
  | .sync s ok => s!"s{s}:{if ok then "ok" else "err"}"
  | .delete s ok => s!"d{s}:{if ok then "ok" else "err"}"

structure Inc where
  faults : List (Nat × Outcome)
  dead : Option Nat
  groups : List (List Ev)
  ending : String

structure Workload where
  fix : Bool
  tick : Bool
  fmt : Format
  reuse : Bool
  maxSize : Nat
  maxEntries : Nat
  incs : List Inc

def msgP : P Ev := do
  let k ← tok
  match k with
  | "w" => do let id ← nat; let ts ← nat; let d ← bytesTok; pure (Ev.write ⟨id, d, ts⟩)
  | "f" => do let id ← nat; let ts ← nat; let d ← bytesTok; pure (Ev.forget ⟨id, d, ts⟩)
  | "t" => pure Ev.tick
  | "x" => do let T ← nat; pure (Ev.truncate T)
  | _ => failure

def incP : P Inc := do
  expect "F"
  let nf ← nat
  let fs ← repeatP nf (do let i ← nat; let o ← outcomeP; pure (i, o))
  expect "D"
  let d ← optNat
  expect "W"
  let ng ← nat
  let gs ← repeatP ng (do let nw ← nat; repeatP nw msgP)
  expect "E"
  let e ← tok
  pure ⟨fs, d, gs, e⟩

def workloadP : P Workload := do
  expect "G"
  let f ← nat
  let tk ← nat
  let v ← nat
  let ru ← nat
  let ms ← nat
  let me ← nat
  expect "K"
  let k ← nat
  let incs ← repeatP k incP
  pure ⟨f != 0, tk != 0, if v = 1 then .v1 else .v2, ru != 0, ms, me, incs⟩

def oracleOf (fs : List (Nat × Outcome)) (dead : Option Nat) (i : Nat) : Outcome :=
  match dead with
  | some d => if d ≤ i then .fail else
    match fs.find? (·.1 == i) with
    | some p => p.2
    | none => .ok
  | none =>
    match fs.find? (·.1 == i) with
    | some p => p.2
    | none => .ok

/-- insertion sort of acks by id (ids are distinct) -/
def insertAck (a : AckRec) : List AckRec → List AckRec
  | [] => [a]
  | b :: bs => if a.id ≤ b.id then a :: b :: bs else b :: insertAck a bs

def idOf (ws : List Write) (e : Entry) : String :=
  match ws.find? (fun w => w.data == e.data && w.ts == e.ts) with
  | some w => toString w.id
  | none => "?"

def runInc (wl : Workload) (a : Actor) (inc : Inc) : Actor :=
  let φ := oracleOf inc.faults inc.dead
  let a1 := inc.groups.foldl (Actor.runGroup wl.fix wl.tick φ wl.fmt crc wl.maxEntries) a
  match inc.ending with
  | "c" => Actor.step wl.fix wl.tick φ wl.fmt crc a1 (.reopen true wl.reuse)
  | "s" => Actor.step wl.fix wl.tick φ wl.fmt crc a1 (.reopen false wl.reuse)
  | _ => a1

def step (line : String) : String :=
  match runP workloadP line with
  | none => "bad-op"
  | some wl =>
    let a := wl.incs.foldl (runInc wl) (Actor.init wl.maxSize)
    let ws := (wl.incs.flatMap (fun i => i.groups.flatten)).filterMap
      (fun ev => match ev with | .write w => some w | .forget w => some w | _ => none)
    let acks := a.acks.foldl (fun acc x => insertAck x acc) []
    let acksS := " ".intercalate (acks.map (fun x => s!"{x.id}={showAck x.res}"))
    let traceS := " ".intercalate (a.rot.w.trace.reverse.map showCall)
    let crashS := " ; ".intercalate (a.rot.w.hist.reverse.map (fun st =>
      " ".intercalate ((durable wl.fmt crc st).map (idOf ws))))
    s!"acks {acksS} | trace {traceS} | crash {crashS}"

end RedisVerif.Driver.C09
