import RedisVerif.Driver.Codec
import RedisVerif.Driver.Crc32
import RedisVerif.Model.WalActor

/-
  C09 sub-driver.  One line = one workload:
    G | GP <policy a|e|n> | GT <group_commit_max_wait in µs>  (G = Always; GT = Always with the callers'
      5 s ack timeout on the virtual clock: a caller whose ack is only sent when the group-commit wait runs
      out is told an fsync-class error (`WAL write timed out`) when that wait is longer than 5 s)
      <fix 0|1> <tickSyncs 0|1> <format 1|2> <reuseSeq 0|1> <maxSize> <maxEntries> K <nincarnations>
      { F <nf> {<callIndex> <ok|fail|full|torn:K>}* D <deadFrom|->
        W <ngroups> {<nmsgs> {w <id> <ts> <hex> | f <id> <ts> <hex> | t | x <T>}*}*
        E <c|s|e> }*
  (w = write_durable, c = write_durable whose caller is cancelled while it waits (its ack is not printed),
   f = write_fire_and_forget, s = shutdown() sent as a message of the burst, t = sync_tick, x = truncate(T); D k = every I/O call
   with index >= k of this incarnation fails, i.e. the machine is dying from call k on;
   E c = machine crash then restart, E s = clean shutdown then restart, E e = end of the history)
  Output: the acks (sorted by id), the I/O call trace, and for EVERY crash index t (after t
  calls) the ids of the entries WAL recovery returns from the crash image.

  `codeSyncsBeforeDrop` below is the ONE switch that says which variant of /repo's rotator the
  harness is compared against; the harness sends it back in the op line (`fix`), so the driver
  itself is variant-agnostic.
-/
namespace RedisVerif.Driver.C09
open RedisVerif RedisVerif.Driver RedisVerif.Wal

def crc : Bytes → Nat := crc32

def outcomeP : P Outcome := do
  let t ← tok
  match t with
  | "ok" => pure .ok
  | "fail" => pure .fail
  | "full" => pure .diskFull
  | _ =>
    match t.splitOn ":" with
    | ["torn", k] => match k.toNat? with
      | some k => pure (.torn k)
      | none => failure
    | _ => failure

def showOutcome : Outcome → String
  | .ok => "ok" | .fail => "fail" | .diskFull => "full" | .torn k => s!"torn:{k}"

def showErr : Err → String
  | .io => "io" | .full => "full" | .torn => "torn" | .fsync => "fsync"

def showAck : Ack → String
  | .ok => "ok"
  | .err e => showErr e

def showCall : Call → String
  | .create s ok existed => s!"c{s}:{if ok then "ok" else "err"}{if existed then ":over" else ""}"
  | .crash => "crash"
  | .append s len o => s!"a{s}:{len}:{showOutcome o}"
  | .sync s ok => s!"s{s}:{if ok then "ok" else "err"}"
  | .delete s ok => s!"d{s}:{if ok then "ok" else "err"}"

structure Inc where
  faults : List (Nat × Outcome)
  dead : Option Nat
  groups : List (List Msg)
  ending : String

structure Workload where
  policy : Policy := .always
  /-- ids of `write_durable` callers that were cancelled while waiting: the actor answers, nobody hears -/
  cancelled : List Nat := []
  /-- `GQ`: the acks are not observable (production path: `ReplicatedShardedState::execute` only logs them) -/
  noAcks : Bool := false
  /-- `GT`: `group_commit_max_wait` in µs; the callers' view goes through `seenAfter` -/
  waitUs : Option Nat := none
  fix : Bool
  tick : Bool
  fmt : Format
  reuse : Bool
  maxSize : Nat
  maxEntries : Nat
  incs : List Inc

/-- one message; `xl` (a truncate whose `store.list()` fails: the actor logs the error and does
    nothing) is no event at all -/
def msgP : P (List Msg) := do
  let k ← tok
  match k with
  | "w" => do let id ← nat; let ts ← nat; let d ← bytesTok; pure [.ev (Ev.write ⟨id, d, ts⟩)]
  | "c" => do let id ← nat; let ts ← nat; let d ← bytesTok; pure [.ev (Ev.write ⟨id, d, ts⟩)]
  | "f" => do let id ← nat; let ts ← nat; let d ← bytesTok; pure [.ev (Ev.forget ⟨id, d, ts⟩)]
  | "t" => pure [.ev Ev.tick]
  | "x" => do let T ← nat; pure [.ev (Ev.truncate T)]
  | "xl" => pure [.noop]
  | "s" => pure [.shutdown]
  | _ => failure

def incP : P Inc := do
  expect "F"
  let nf ← nat
  let fs ← repeatP nf (do let i ← nat; let o ← outcomeP; pure (i, o))
  expect "D"
  let d ← optNat
  expect "W"
  let ng ← nat
  let gs ← repeatP ng (do let nw ← nat; let ms ← repeatP nw msgP; pure ms.flatten)
  expect "E"
  let e ← tok
  pure ⟨fs, d, gs, e⟩

def policyP : P Policy := do
  let t ← tok
  match t with
  | "a" => pure .always
  | "e" => pure .everySecond
  | "n" => pure .no
  | _ => failure

/-- ids of the cancelled callers (`c <id> …` messages) of a line -/
def cancelledIds : List String → List Nat
  | "c" :: id :: rest => (match id.toNat? with | some n => [n] | none => []) ++ cancelledIds rest
  | _ :: rest => cancelledIds rest
  | [] => []

def workloadP : P Workload := do
  let g ← tok
  let wait ← (if g == "GT" then (do let w ← nat; pure (some w)) else pure none : P (Option Nat))
  let pol ← (if g == "G" || g == "GT" then pure Policy.always else if g == "GP" || g == "GQ" then policyP else failure : P Policy)
  let f ← nat
  let tk ← nat
  let v ← nat
  let ru ← nat
  let ms ← nat
  let me ← nat
  expect "K"
  let k ← nat
  let incs ← repeatP k incP
  pure { policy := pol, noAcks := g == "GQ", waitUs := wait, fix := f != 0, tick := tk != 0, fmt := if v = 1 then .v1 else .v2, reuse := ru != 0,
         maxSize := ms, maxEntries := me, incs := incs }

def oracleOf (fs : List (Nat × Outcome)) (dead : Option Nat) (i : Nat) : Outcome :=
  match dead with
  | some d => if d ≤ i then .fail else
    match fs.find? (·.1 == i) with
    | some p => p.2
    | none => .ok
  | none =>
    match fs.find? (·.1 == i) with
    | some p => p.2
    | none => .ok

/-- insertion sort of acks by id (ids are distinct) -/
def insertAck (a : AckRec) : List AckRec → List AckRec
  | [] => [a]
  | b :: bs => if a.id ≤ b.id then a :: b :: bs else b :: insertAck a bs

def idOf (ws : List Write) (e : Entry) : String :=
  match ws.find? (fun w => w.data == e.data && w.ts == e.ts) with
  | some w => toString w.id
  | none => "?"

/-- the schedule of `run_always_mode` is the MODEL's `Sched.step` / `Sched.endBurst`
    (Model/WalActor.lean; theorem `durable_survives_bursts`) for the current rotator; the two
    historical variants of the rotator / tick (`fix = false`, `tickSyncs = true`) keep the plain
    burst schedule `Actor.runGroup` (they never see `Shutdown` / `noop` messages) -/
def idsOfMsg : Msg → List Nat := Msg.ids

def schedNow (pol : Policy) (wl : Workload) (φ : Nat → Outcome) (s : Sched) (m : Msg) : Sched :=
  if !s.alive then { s with dropped := s.dropped ++ idsOfMsg m } else
  match m with
  | .shutdown => { s with a := if pol = .everySecond then Actor.tickEverySec φ s.a else s.a, alive := false }
  | .noop => s
  | .ev e => { s with a := Actor.stepP pol φ wl.fmt crc s.a e }

def runInc (wl : Workload) (st : Actor × List Nat × List Nat) (inc : Inc) : Actor × List Nat × List Nat :=
  let φ := oracleOf inc.faults inc.dead
  let (a, dropped0, late0) := st
  match wl.policy with
  | .always =>
    let evsOf := fun (g : List Msg) => g.filterMap (fun m => match m with | .ev e => some e | _ => none)
    let (s1, late) : Sched × List Nat :=
      if wl.fix && !wl.tick then Sched.runBurstsLate wl.maxEntries φ wl.fmt crc { a := a } inc.groups
      else ({ a := inc.groups.foldl (fun a g => Actor.runGroup wl.fix wl.tick φ wl.fmt crc wl.maxEntries a (evsOf g)) a }, [])
    let a1 := s1.a
    (match inc.ending with
    | "c" => Actor.step wl.fix wl.tick φ wl.fmt crc a1 (.reopen true wl.reuse)
    | "s" => Actor.step wl.fix wl.tick φ wl.fmt crc a1 (.reopen false wl.reuse)
    | _ => a1, dropped0 ++ s1.dropped, late0 ++ late)
  | pol =>
    -- EverySecond / No: one message after the other, no group commit; the harness ends the last
    -- incarnation with `shutdown()` (EverySecond: one more sync if anything is unsynced)
    let s1 := inc.groups.flatten.foldl (schedNow pol wl φ) ({ a := a } : Sched)
    let a1 := s1.a
    (match inc.ending with
    | "c" => Actor.stepP pol φ wl.fmt crc a1 (.reopen true wl.reuse)
    | "s" => if s1.alive then Actor.stepP pol φ wl.fmt crc a1 (.reopen false wl.reuse)
             else Actor.stepP .no φ wl.fmt crc a1 (.reopen false wl.reuse)
    | _ => if pol = .everySecond && s1.alive then Actor.tickEverySec φ a1 else a1, dropped0 ++ s1.dropped, late0)

def showPolicy : Policy → String
  | .always => "a" | .everySecond => "e" | .no => "n"

def showConfig (c : Config) : String :=
  s!"enabled={if c.enabled then 1 else 0} policy={showPolicy c.policy} max_file_size={c.maxFileSize} max_entries={c.maxEntries} max_wait_us={c.maxWaitUs} trunc_interval_ms={c.truncIntervalMs}"

/-- `CFG <constructor>` → the fields the constructor produces; `CFGP <serde name>` → the policy a
    configuration file selects with that name -/
def cfgStep? : List String → Option String
  | ["CFG", "default"] => some (showConfig Config.default)
  | ["CFG", "test"] => some (showConfig Config.test)
  | ["CFG", "always_fsync"] => some (showConfig Config.alwaysFsync)
  | ["CFG", "every_second"] => some (showConfig Config.everySecondCfg)
  | ["CFG", _] => some "unknown-constructor"
  | ["CFGP", n] => some (match Policy.ofName n with | some p => showPolicy p | none => "err")
  | _ => none

def step (line : String) : String :=
  match cfgStep? (tokens line) with
  | some o => o
  | none =>
  match runP workloadP line with
  | none => "bad-op"
  | some wl0 =>
    let wl := { wl0 with cancelled := cancelledIds (tokens line) }
    let (a, dropped, late) := wl.incs.foldl (runInc wl) (Actor.init wl.maxSize, [], [])
    let ws := (wl.incs.flatMap (fun i => i.groups.flatten)).filterMap
      (fun m => match m with | .ev (.write w) => some w | .ev (.forget w) => some w | _ => none)
    -- callers whose message was never handled (the actor had stopped): an I/O error, no entry
    let droppedAcks : List AckRec := (dropped.filter (fun i => !wl.cancelled.contains i)).map
      (fun i => ⟨i, ⟨[], 0, 0⟩, .err .io, 0⟩)
    let acks := ((a.acks.filter (fun x => !wl.cancelled.contains x.id)) ++ droppedAcks).foldl (fun acc x => insertAck x acc) []
    -- what the CALLER is told: a late ack (sent when the group-commit wait runs out) competes with the
    -- caller's 5 s deadline (`seenAfter`, Model/WalActor.lean)
    let seen := fun (x : AckRec) =>
      match wl.waitUs with
      | some w => if late.contains x.id then
          (match seenAfter w x.res with
          | some (.ack r) => showAck r
          | some .timedOut => "fsync"   -- `FsyncFailed("WAL write timed out")`: the error CLASS is compared
          | _ => "?")
        else showAck x.res
      | none => showAck x.res
    let acksS := if wl.noAcks then "-" else " ".intercalate (acks.map (fun x => s!"{x.id}={seen x}"))
    let traceS := " ".intercalate (a.rot.w.trace.reverse.map showCall)
    let crashS := " ; ".intercalate (a.rot.w.hist.reverse.map (fun st =>
      " ".intercalate ((durable wl.fmt crc st).map (idOf ws))))
    s!"acks {acksS} | trace {traceS} | crash {crashS}"

end RedisVerif.Driver.C09
