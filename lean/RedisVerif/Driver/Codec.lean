import RedisVerif.Model.NMap
import RedisVerif.Model.Crdt

/-
  Line-protocol helpers shared by all sub-drivers: tokenizer, token parser monad,
  hex / key encodings, printers.  Not part of the verified model: this is the
  (trusted, differential-tested) glue between the text protocol and the model.
-/
namespace RedisVerif.Driver

abbrev P := StateT (List String) Option

def tok : P String := do
  match (← get) with
  | [] => failure
  | t :: ts => set ts; pure t

def nat : P Nat := do
  let t ← tok
  match t.toNat? with
  | some n => pure n
  | none => failure

def hexVal (c : Char) : Option Nat :=
  if '0' ≤ c ∧ c ≤ '9' then some (c.toNat - '0'.toNat)
  else if 'a' ≤ c ∧ c ≤ 'f' then some (c.toNat - 'a'.toNat + 10)
  else none

def hexDigit (n : Nat) : Char :=
  if n < 10 then Char.ofNat ('0'.toNat + n) else Char.ofNat ('a'.toNat + n - 10)

/-- "x6162" → bytes [0x61, 0x62] -/
def parseHexBytes (cs : List Char) : Option (List Nat) :=
  match cs with
  | [] => some []
  | [_] => none
  | a :: b :: rest => do
    let x ← hexVal a
    let y ← hexVal b
    let r ← parseHexBytes rest
    pure ((x * 16 + y) :: r)

def bytesTok : P Bytes := do
  let t ← tok
  match t.toList with
  | 'x' :: cs => match parseHexBytes cs with
    | some b => pure b
    | none => failure
  | _ => failure

def hexOfBytes (b : List Nat) : String :=
  String.ofList ('x' :: b.flatMap (fun n => [hexDigit (n / 16), hexDigit (n % 16)]))

/-- injective code of a byte string: the base-256 number with a leading 1 digit.
    Order of codes = (length, then lexicographic). -/
def keyCode (b : List Nat) : Nat := b.foldl (fun acc x => acc * 256 + x) 1

partial def keyDecodeAux (n : Nat) (acc : List Nat) : List Nat :=
  if n ≤ 1 then acc else keyDecodeAux (n / 256) ((n % 256) :: acc)

def keyDecode (n : Nat) : List Nat := keyDecodeAux n []

def strKey : P Nat := do
  let b ← bytesTok
  pure (keyCode b)

def showKey (k : Nat) : String := hexOfBytes (keyDecode k)

def optNat : P (Option Nat) := do
  let t ← tok
  if t == "-" then pure none else
  match t.toNat? with
  | some n => pure (some n)
  | none => failure

def showOptNat : Option Nat → String
  | none => "-"
  | some n => toString n

def repeatP {α : Type} (n : Nat) (p : P α) : P (List α) :=
  match n with
  | 0 => pure []
  | n + 1 => do
    let x ← p
    let xs ← repeatP n p
    pure (x :: xs)

def natMap : P (NMap Nat) := do
  let n ← nat
  let l ← repeatP n (do let k ← nat; let v ← nat; pure (k, v))
  pure (NMap.ofList l)

def showNatMap (m : NMap Nat) : String :=
  " ".intercalate (toString m.length :: m.map (fun p => s!"{p.1} {p.2}"))

def natSet : P NSet := do
  let n ← nat
  let l ← repeatP n nat
  pure (NSet.ofList l)

def stamp : P Stamp := do
  let t ← nat
  let r ← nat
  pure ⟨t, r⟩

def showStamp (s : Stamp) : String := s!"{s.time} {s.rid}"

def lww : P Lww := do
  let t ← tok
  let v ← (if t == "~" then pure none else
    match t.toList with
    | 'x' :: cs => match parseHexBytes cs with
      | some b => pure (some b)
      | none => failure
    | _ => failure : P (Option Bytes))
  let s ← stamp
  let tb ← nat
  pure { value := v, ts := s, tomb := tb != 0 }

def showLww (r : Lww) : String :=
  let v := match r.value with | none => "~" | some b => hexOfBytes b
  s!"{v} {showStamp r.ts} {if r.tomb then 1 else 0}"

def crdt : P Crdt := do
  let t ← tok
  match t with
  | "L" => do let r ← lww; pure (.lww r)
  | "G" => do let m ← natMap; pure (.gcounter m)
  | "P" => do let p ← natMap; let n ← natMap; pure (.pncounter p n)
  | "S" => do
    let n ← nat
    let l ← repeatP n strKey
    pure (.gset (NSet.ofList l))
  | "O" => do
    let n ← nat
    let l ← repeatP n (do let k ← strKey; let s ← natSet; pure (k, s))
    let nx ← natMap
    pure (.orset (NMap.ofList l) nx)
  | "H" => do
    let n ← nat
    let l ← repeatP n (do let k ← strKey; let r ← lww; pure (k, r))
    pure (.hash (NMap.ofList l))
  | _ => failure

def showCrdt : Crdt → String
  | .lww r => s!"L {showLww r}"
  | .gcounter m => s!"G {showNatMap m}"
  | .pncounter p n => s!"P {showNatMap p} {showNatMap n}"
  | .gset s => " ".intercalate ("S" :: toString s.length :: s.map showKey)
  | .orset e nx =>
    let es := e.map (fun p => " ".intercalate (showKey p.1 :: toString p.2.length :: p.2.map toString))
    " ".intercalate (["O", toString e.length] ++ es ++ [showNatMap nx])
  | .hash h =>
    " ".intercalate (["H", toString h.length] ++ h.map (fun p => s!"{showKey p.1} {showLww p.2}"))

def rv : P RV := do
  let c ← crdt
  let t ← tok
  let vc ← (if t == "-" then pure none else if t == "V" then do let m ← natMap; pure (some m)
            else failure : P (Option (NMap Nat)))
  let e ← optNat
  let s ← stamp
  let rf ← optNat
  pure { crdt := c, vc := vc, expiry := e, ts := s, rf := rf }

def showRV (a : RV) : String :=
  let vc := match a.vc with | none => "-" | some m => s!"V {showNatMap m}"
  s!"{showCrdt a.crdt} {vc} {showOptNat a.expiry} {showStamp a.ts} {showOptNat a.rf}"

def expect (s : String) : P Unit := do
  let t ← tok
  if t == s then pure () else failure

def tokens (line : String) : List String :=
  (line.trimAscii.toString.splitOn " ").filter (· ≠ "")

def runP {α : Type} (p : P α) (line : String) : Option α :=
  match p.run (tokens line) with
  | some (a, []) => some a
  | _ => none

end RedisVerif.Driver
