import Std.Data.HashMap
import RedisVerif.Driver.Codec
import RedisVerif.Model.AntiEntropy

/-
  C18 sub-driver (stateful).  The model HASHES ITSELF: `AE.currentHasher` = SipHash-1-3 (zero key,
  `Model/SipHash.lean`) over the byte streams of `Model/HashBytes.lean` / `AE.byteStream`.  The op
  lines still carry the REAL hash values (`KeyDigest::new`'s key hash and value hash, the hashes of
  the word streams `from_digests` / `combine` consumed); the driver only COMPARES them with what
  the model computes (`conflicts`).  Two state slots `a`, `b` with their real iteration orders.

    RESET                                              forget the slots                 → ok
    SIP <hex>                                          DefaultHasher over raw bytes     → <u64>
    S <a|b> <depth> <n> (<keyhex> <kh> <vh> <rv>)*n    state in REAL iteration order,
                                                       with KeyDigest::new's hashes     → ok <n> conflicts=<c>
    W <m> (<len> <word>*len <hash>)*m                  word streams and their real hash → ok conflicts=<c>
    D <a|b>                                            StateDigest::from_state          → root=… count=… maxts=… nb=<#buckets> buckets=<i>:h:c:m,… (non-empty ones)
    ALLOC <depth>                                      what `1 << depth` buckets allocate → buckets <n> | panic capacity-overflow
    CMP <x> <y>                                        differs_from, divergent_buckets  → differs=<0|1> div=<list>
    G <a|b> <limit> <nb> <bucket>*nb                   get_keys_in_buckets              → g <keyhex>*
    SYNC <limit>                                       run_anti_entropy_sync(a, b)      → a <n> (<keyhex> <rv>)* | b <n> …
    SYNC3 <limit>                                      run_full_anti_entropy on a, b, c → a … | b … | c …
    HEAL <was partitioned> <auto> <limit>              heal_partition(a, b)             → a … | b …
    MNEW <a|b|c> <rid> <depth> <limit> <interval> <auto>   AntiEntropyManager::new with that config      → ok
    MWRITE <n> | MDUE <n> <peer> <now> | MHEAL <n> <peer> | MNEED <n> <now>
                                                       on_local_write / should_sync / on_partition_healed / peers_needing_sync
    MDIG <id> <n>                                      digest register id := generate_digest(n's state NOW)
    MPROC <n> <id>                                     n.process_peer_digest(register id, n's digest NOW)
    MREQ <id> <n> <peer> <full> <now>                  request register id := n.create_sync_request(peer, n's digest NOW,
                                                       buckets of n's last verdict | None)
    MHANDLE <rid> <n> <qid>                            response register rid := n.handle_sync_request(request qid, n's state NOW)
    MAPPLY <n> <rid>                                   n merges response rid into its state NOW (apply_remote_delta each)
    PULL <a|b> <full 0|1> <limit>                      message protocol, requester = slot: process_peer_digest,
                                                       create_sync_request, handle_sync_request, merge
                                                                                        → differs=… div=… resp=<keyhex>,… | <slot> <n> (<keyhex> <rv>)*

  `conflicts` counts carried hashes that differ from the model's: a change of what the code feeds
  to the hasher (order, separators, a dropped field) or of the hash function surfaces here first.
-/
namespace RedisVerif.Driver.C18
open RedisVerif RedisVerif.Driver RedisVerif.AE

structure Slot where
  depth : Nat
  order : List Nat
  state : NMap RV

structure St where
  a : Slot
  b : Slot
  c : Slot
  /-- `AntiEntropyManager` of node 0 / 1 / 2 (= slot a / b / c) -/
  mgrs : List (Nat × Mgr)
  /-- message registers: digests, requests (with the verdict they were built from), responses -/
  digs : List (Nat × TDigest)
  verdicts : List (Nat × Option (List Nat))
  reqs : List (Nat × Request)
  resps : List (Nat × Response)

def Slot.empty : Slot := { depth := 0, order := [], state := [] }

def St.init : St := { a := Slot.empty, b := Slot.empty, c := Slot.empty, mgrs := [], digs := [], verdicts := [], reqs := [], resps := [] }

/-- the hasher of the current tree (SipHash-1-3 over the model's byte streams) -/
def St.hasher (_ : St) : Hasher := currentHasher

/-- the model's string decoder is the codec's on every code the codec produces -/
theorem keyCode_eq_code : @keyCode = @HB.code := rfl

/-- the key order of `get_keys_in_buckets`: byte-wise `String::cmp` on the decoded keys (NOT the
    order of the codes, which is length-first) -/
def keyLe (a b : Nat) : Bool := HB.bytesLe (HB.keyStr a) (HB.keyStr b)

def slotTok : P Bool := do
  let t ← tok
  if t == "a" then pure true else if t == "b" then pure false else failure

def St.slot (st : St) (isA : Bool) : Slot := if isA then st.a else st.b

/-- the slot after an op of the model: an UNCHANGED state keeps the real iteration order the
    harness last reported (it does not re-send a state that did not change), a changed one is
    re-sent by the harness before its order matters -/
def Slot.withState (sl : Slot) (s' : NMap RV) : Slot :=
  if s' = sl.state then sl else { sl with state := s', order := NMap.keys s' }

def nodeTok : P Nat := do
  let t ← tok
  if t == "a" then pure 0 else if t == "b" then pure 1 else if t == "c" then pure 2 else failure

def St.slotN (st : St) (i : Nat) : Slot := if i == 0 then st.a else if i == 1 then st.b else st.c

def St.setSlotN (st : St) (i : Nat) (s : Slot) : St :=
  if i == 0 then { st with a := s } else if i == 1 then { st with b := s } else { st with c := s }

def St.mgr (st : St) (i : Nat) : Mgr := (st.mgrs.lookup i).getD (Mgr.new 0 0 0 0 false)

def St.setMgr (st : St) (i : Nat) (m : Mgr) : St := { st with mgrs := (i, m) :: st.mgrs.filter (fun p => p.1 != i) }

def put {α : Type} (l : List (Nat × α)) (k : Nat) (v : α) : List (Nat × α) := (k, v) :: l.filter (fun p => p.1 != k)

def showSet (s : List Nat) : String := ",".intercalate (s.map toString)

def showNode (n : MerkleNode) : String := s!"{n.hash}:{n.count}:{n.maxTs}"

/-- the digest with its non-empty buckets only (`index:hash:count:maxts`) — a digest of depth 18
    has 262144 buckets -/
def showDigest (d : StateDigest) : String :=
  let ne := (d.buckets.zipIdx 0).filter (fun p => p.1 != MerkleNode.empty)
  s!"root={d.rootHash} count={d.keyCount} maxts={d.maxTs} nb={d.buckets.length} buckets="
    ++ ",".intercalate (ne.map fun p => s!"{p.2}:{showNode p.1}")

def slotDigest (st : St) (s : Slot) : StateDigest := digest st.hasher s.depth s.order s.state

def showState (tag : String) (s : NMap RV) : String :=
  " ".intercalate ([tag, toString s.length] ++ s.map (fun p => s!"{showKey p.1} {showRV p.2}"))

def entry : P (Nat × Nat × Nat × RV) := do
  let k ← strKey
  let kh ← nat
  let vh ← nat
  let v ← rv
  pure (k, kh, vh, v)

def wordsEntry : P (List Nat × Nat) := do
  let n ← nat
  let ws ← repeatP n nat
  let h ← nat
  pure (ws, h)

def cmd (st : St) : P (St × String) := do
  let op ← tok
  match op with
  | "RESET" => pure (St.init, "ok")
  | "SIP" => do
    let b ← bytesTok
    pure (st, toString (Sip.sip13 b))
  | "S" => do
    let node ← nodeTok
    let depth ← nat
    let n ← nat
    let es ← repeatP n entry
    -- compare the carried (real) hashes with the model's
    let c := es.foldl (fun (c : Nat) e =>
      let (k, kh, vh, v) := e
      let c := if currentHasher.key k == kh then c else c + 1
      if currentHasher.val (currentStream v) == vh then c else c + 1) 0
    -- the op line carries the CONFIGURED depth; every model function gets the effective one
    let slot : Slot := { depth := effectiveDepth currentDepthBound depth, order := es.map (·.1), state := NMap.ofList (es.map fun e => (e.1, e.2.2.2)) }
    pure (st.setSlotN node slot, s!"ok {slot.state.length} conflicts={c}")
  | "W" => do
    let m ← nat
    let es ← repeatP m wordsEntry
    let c := es.foldl (fun (c : Nat) e => if currentHasher.words e.1 == e.2 then c else c + 1) 0
    pure (st, s!"ok conflicts={c}")
  | "MNEW" => do
    let node ← nodeTok
    let rid ← nat
    let depth ← nat
    let limit ← nat
    let interval ← nat
    let auto ← nat
    pure (st.setMgr node (Mgr.new rid depth limit interval (auto != 0)), "ok")
  | "MWRITE" => do
    let node ← nodeTok
    let m := (st.mgr node).onLocalWrite
    pure (st.setMgr node m, s!"gen={m.generation}")
  | "MDUE" => do
    let node ← nodeTok
    let peer ← nat
    let now ← nat
    let r := match (st.mgr node).shouldSync peer now with | .yes => "yes" | .no => "no" | .underflow => "underflow"
    pure (st, s!"due={r}")
  | "MHEAL" => do
    let node ← nodeTok
    let peer ← nat
    let m := (st.mgr node).onPartitionHealed peer
    pure (st.setMgr node m, s!"dp={showSet m.divergentPeers}")
  | "MNEED" => do
    let node ← nodeTok
    let now ← nat
    match (st.mgr node).peersNeedingSync now with
    | some l => pure (st, s!"need {showSet l}")
    | none => pure (st, "need underflow")
  | "MDIG" => do
    let id ← nat
    let node ← nodeTok
    let sl := st.slotN node
    let d := (st.mgr node).generateDigest st.hasher sl.order sl.state
    pure ({ st with digs := put st.digs id d }, s!"dg rid={d.rid} gen={d.generation} root={d.d.rootHash} count={d.d.keyCount} nb={d.d.buckets.length}")
  | "MPROC" => do
    let node ← nodeTok
    let id ← nat
    match st.digs.lookup id with
    | none => failure
    | some pd =>
      let sl := st.slotN node
      let m := st.mgr node
      let ours := m.generateDigest st.hasher sl.order sl.state
      let (m', v) := m.processPeerDigest pd ours
      let vs := match v with | none => "none" | some l => "div=" ++ showSet l
      pure ({ (st.setMgr node m') with verdicts := put st.verdicts node v }, s!"proc {vs} dp={showSet m'.divergentPeers}")
  | "MREQ" => do
    let id ← nat
    let node ← nodeTok
    let peer ← nat
    let full ← nat
    let now ← nat
    let sl := st.slotN node
    let m := st.mgr node
    let ours := m.generateDigest st.hasher sl.order sl.state
    let buckets := if full != 0 then none else ((st.verdicts.lookup node).getD none)
    let (m', rq) := m.createSyncRequest peer ours buckets now
    let bs := match rq.buckets with | none => "none" | some l => showSet l
    pure ({ (st.setMgr node m') with reqs := put st.reqs id rq }, s!"req from={rq.fromR} to={rq.toR} buckets={bs} root={rq.digest.d.rootHash} gen={rq.digest.generation}")
  | "MHANDLE" => do
    let rid ← nat
    let node ← nodeTok
    let qid ← nat
    match st.reqs.lookup qid with
    | none => failure
    | some rq =>
      let sl := st.slotN node
      let (m', rs) := (st.mgr node).handleSyncRequest st.hasher rq sl.order sl.state
      pure ({ (st.setMgr node m') with resps := put st.resps rid rs },
        s!"resp from={rs.fromR} keys={",".intercalate (rs.deltas.map fun p => showKey p.1)} root={rs.digest.d.rootHash} dp={showSet m'.divergentPeers}")
  | "MAPPLY" => do
    let node ← nodeTok
    let rid ← nat
    match st.resps.lookup rid with
    | none => failure
    | some rs =>
      let sl := st.slotN node
      let s' := applyDeltas sl.state rs.deltas
      pure (st.setSlotN node (sl.withState s'), showState "s" s')
  | "D" => do
    let isA ← slotTok
    pure (st, showDigest (slotDigest st (st.slot isA)))
  | "CMP" => do
    let x ← slotTok
    let y ← slotTok
    let dx := slotDigest st (st.slot x)
    let dy := slotDigest st (st.slot y)
    let d := if differsFrom dx dy then "1" else "0"
    pure (st, s!"differs={d} div=" ++ ",".intercalate ((divergentBuckets dx dy).map toString))
  | "G" => do
    let isA ← slotTok
    let limit := effectiveLimit currentLimitAtLeastOne (← nat)
    let nb ← nat
    let bs ← repeatP nb nat
    let s := st.slot isA
    let ks := getKeysInBuckets (arrangeOf currentSimOrder keyLe) st.hasher currentStream s.depth limit s.order s.state bs
    pure (st, " ".intercalate ("g" :: ks.map (fun p => showKey p.1)))
  | "SYNC" => do
    let limit := effectiveLimit currentLimitAtLeastOne (← nat)
    let (a', b') := syncRound keyLe st.hasher st.a.depth limit st.a.order st.b.order st.a.state st.b.state
    let st' := { st with a := st.a.withState a', b := st.b.withState b' }
    pure (st', showState "a" a' ++ " | " ++ showState "b" b')
  | "SYNC3" => do
    -- `run_full_anti_entropy` on three connected nodes: the pairs (a,b), (a,c), (b,c) in this order
    let limit := effectiveLimit currentLimitAtLeastOne (← nat)
    let (a1, b1) := syncRound keyLe st.hasher st.a.depth limit st.a.order st.b.order st.a.state st.b.state
    let (a2, c1) := syncRound keyLe st.hasher st.a.depth limit (NMap.keys a1) st.c.order a1 st.c.state
    let (b2, c2) := syncRound keyLe st.hasher st.a.depth limit (NMap.keys b1) (NMap.keys c1) b1 c1
    let st' := { st with a := st.a.withState a2, b := st.b.withState b2, c := st.c.withState c2 }
    pure (st', showState "a" a2 ++ " | " ++ showState "b" b2 ++ " | " ++ showState "c" c2)
  | "HEAL" => do
    -- `heal_partition(a, b)`: a sync iff the pair was partitioned and `auto_anti_entropy` is on
    let was ← nat
    let auto ← nat
    let limit := effectiveLimit currentLimitAtLeastOne (← nat)
    let (a', b') := if was != 0 && auto != 0 then
        syncRound keyLe st.hasher st.a.depth limit st.a.order st.b.order st.a.state st.b.state
      else (st.a.state, st.b.state)
    let st' := { st with a := st.a.withState a', b := st.b.withState b' }
    pure (st', showState "a" a' ++ " | " ++ showState "b" b')
  | "PULL" => do
    let isA ← slotTok
    let full ← nat
    let limit := effectiveLimit currentLimitAtLeastOne (← nat)
    let rq := st.slot isA
    let pr := st.slot (!isA)
    let (d, div, resp, r') := pull st.hasher rq.depth limit (full != 0) rq.order pr.order rq.state pr.state
    let slot' : Slot := rq.withState r'
    let st' := if isA then { st with a := slot' } else { st with b := slot' }
    pure (st', s!"differs={if d then 1 else 0} div=" ++ ",".intercalate (div.map toString)
      ++ " resp=" ++ ",".intercalate (resp.map (fun p => showKey p.1)) ++ " | " ++ showState (if isA then "a" else "b") r')
  | "ALLOC" => do
    let d ← nat
    -- the harness builds /repo with overflow checks on (harness/Cargo.toml)
    match digestAlloc currentDepthBound true d with
    | .buckets n => pure (st, s!"buckets {n}")
    | .capacityOverflowPanic => pure (st, "panic capacity-overflow")
    | .shiftOverflowPanic => pure (st, "panic shift-overflow")
  | _ => failure

def step (st : St) (line : String) : St × String :=
  match (cmd st).run (tokens line) with
  | some ((st', out), []) => (st', out)
  | _ => (st, "bad-op")

end RedisVerif.Driver.C18
