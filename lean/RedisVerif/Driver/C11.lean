import RedisVerif.Driver.Codec
import RedisVerif.Props.C11
import RedisVerif.Model.Apply

/-
  C11 sub-driver (stateful): a store image, an in-memory manifest built through the manifest
  API, a WAL entry list.
    RESET <rid>                                   → ok
    MADD <id> <count> <size> <min> <max>          → man …      (Manifest::add_segment)
    MCOMPACT <name> <last>                        → man …      (Manifest::compact_segments)
    MALLOC                                        → id <n>     (Manifest::allocate_segment_id)
    MSAVE                                         → ok         (ManifestManager::save)
    SEG <id> <n> (<key> <rv>)*                    → ok         (segment object)
    DELSEG <id>                                   → ok
    TORNSEG <id>                                  → ok         (truncated segment object)
    CHK <name> <last> <n> (<key> <rv>)*           → ok         (checkpoint object)
    WAL <n> (<ts> <key> <rv>)*                    → ok         (recover_all_entries, in order)
    REC                                           → ok chk=<-|n> (<key> <rv> ;)* deltas <n> (<key> <rv> ;)* fold <n> (<key> <rv> ;)*
                                                    | err <class>
    RECWAL                                        → same, through recover_with_wal
    APPLY                                         → applied <n> (<key> <rv> ;)*   the replication-state value of
                                                    every key after recover + apply_recovered_state on a
                                                    fresh node (sorted by key), | err <class>
    APPLYWAL                                      → same after recover_with_wal
    APPLY2                                        → same for the production start-up sequence: recover + apply, then the
                                                    WAL entries through a second apply_recovered_state(None, ..)
    RECP                                          → as REC, through recover_with_progress
    NEEDSREC                                      → needs_recovery(): 0|1
    MLOAD                                         → the manifest load_or_create returns from the store
    MMADD <id> <count> <size> <min> <max>         → ManifestManager::add_segment / update on the store: man … | err
    MSEGAFTER <ts>                                → Manifest::segments_after ids, total_size_bytes, total_record_count
    SHOULDCHK <min_segments> <interval_ms> <now>  → CheckpointManager::should_checkpoint: 0|1
-/
namespace RedisVerif.Driver.C11
open RedisVerif RedisVerif.Driver RedisVerif.Stream

structure St where
  store : Store
  man : Manifest
  rid : Nat
  wal : List (Nat × Delta)
  deriving Inhabited

def init : St := { store := [], man := Manifest.new 0, rid := 0, wal := [] }

def b01 (b : Bool) : String := if b then "1" else "0"

def showMan (m : Manifest) : String :=
  let chk := match m.checkpoint with
    | none => "-"
    | some c => s!"{c.name}:{c.last}"
  let segs := ",".intercalate (m.segments.map (fun s => s!"{s.id}:{s.count}:{s.size}:{s.minTs}:{s.maxTs}"))
  s!"man v={m.version} next={m.next} chk={chk} segs=[{segs}] inv={b01 (decide (RedisVerif.C11.ManifestInv m))}"

def showDeltas (l : List Delta) : String :=
  " ".intercalate (toString l.length :: l.map (fun p => s!"{showKey p.1} {showRV p.2} ;"))

def showRec : Except RecErr Recovered → String
  | .error .manifest => "err manifest"
  | .error .io => "err io"
  | .error .checkpoint => "err checkpoint"
  | .error .segment => "err segment"
  | .ok r =>
    let chk := match r.chk with
      | none => "-"
      | some m => showDeltas m
    s!"ok chk={chk} deltas {showDeltas r.deltas} fold {showDeltas (foldState r.updates)}"

/-- the applied state, listed for every key that has a recovered update (router: any — the
    per-key result does not depend on it, `C11.apply_recovered_equals_fold`) -/
def showApplied (rid : Nat) : Except RecErr Recovered → String
  | .error e => showRec (.error e)
  | .ok r =>
    let route : Nat → Nat := fun k => k % 16
    let n := applyRecoveredState route (Node.fresh rid false) r.chk r.deltas
    let keys := (foldState r.updates).map (·.1)
    let vs : List Delta := keys.filterMap (fun k => (n.value route k).map (fun v => (k, v)))
    s!"applied {showDeltas vs}"

def deltaP : P Delta := do
  let k ← strKey
  let v ← rv
  pure (k, v)

inductive Cmd where
  | seg (id : Nat) (ds : List Delta)
  | chk (name last : Nat) (ds : List Delta)
  | wal (es : List (Nat × Delta))

def parseCmd : P Cmd := do
  let t ← tok
  match t with
  | "SEG" => do
    let id ← nat; let n ← nat
    let ds ← repeatP n deltaP
    pure (.seg id ds)
  | "CHK" => do
    let name ← nat; let last ← nat; let n ← nat
    let ds ← repeatP n deltaP
    pure (.chk name last ds)
  | "WAL" => do
    let n ← nat
    let es ← repeatP n (do let ts ← nat; let d ← deltaP; pure (ts, d))
    pure (.wal es)
  | _ => failure

def step (s : St) (line : String) : St × String :=
  match tokens line with
  | ["RESET", r] =>
    match r.toNat? with
    | some rid => ({ store := [], man := Manifest.new rid, rid := rid, wal := [] }, "ok")
    | none => (s, "bad-op")
  | ["MADD", a, b, c, d, e] =>
    match a.toNat?, b.toNat?, c.toNat?, d.toNat?, e.toNat? with
    | some id, some count, some size, some lo, some hi =>
      let m := s.man.addSegment { id := id, count := count, size := size, minTs := lo, maxTs := hi }
      ({ s with man := m }, showMan m)
    | _, _, _, _, _ => (s, "bad-op")
  | ["MCOMPACT", a, b] =>
    match a.toNat?, b.toNat? with
    | some name, some last =>
      let m := s.man.compactSegments { name := name, last := last }
      ({ s with man := m }, showMan m)
    | _, _ => (s, "bad-op")
  | ["MALLOC"] =>
    let (id, m) := s.man.allocate
    ({ s with man := m }, s!"id {id}")
  | ["MSAVE"] => ({ s with store := NMap.insert manifestName (.manifest s.man) s.store }, "ok")
  | ["DELSEG", a] =>
    match a.toNat? with
    | some id => ({ s with store := NMap.erase (segName id) s.store }, "ok")
    | none => (s, "bad-op")
  | ["TORNSEG", a] =>
    match a.toNat? with
    | some id => ({ s with store := NMap.insert (segName id) .torn s.store }, "ok")
    | none => (s, "bad-op")
  | ["REC"] => (s, showRec (recover s.store s.rid))
  | ["RECP"] => (s, showRec (recover s.store s.rid))     -- recover_with_progress: the same function
  | ["NEEDSREC"] => (s, b01 (NMap.get s.store manifestName).isSome)
  | ["MLOAD"] =>
    (s, match NMap.get s.store manifestName with
        | some (.manifest m) => showMan m
        | some _ => "err"
        | none => showMan (Manifest.new s.rid))
  | ["MMADD", a, b, c, d, e] =>
    match a.toNat?, b.toNat?, c.toNat?, d.toNat?, e.toNat? with
    | some id, some count, some size, some lo, some hi =>
      let r := managerAddSegment (fun _ => .ok) (World.init s.store) { id := id, count := count, size := size, minTs := lo, maxTs := hi }
      match r.2 with
      | some m => ({ s with store := r.1.store, man := m }, showMan m)
      | none => ({ s with store := r.1.store }, "err")
    | _, _, _, _, _ => (s, "bad-op")
  | ["MSEGAFTER", a] =>
    match a.toNat? with
    | some ts =>
      (s, "[" ++ ",".intercalate ((s.man.segments.filter (fun sg => sg.maxTs ≥ ts)).map (fun sg => toString sg.id)) ++ "]"
          ++ s!" bytes={s.man.segments.foldl (fun a sg => a + sg.size) 0} records={s.man.segments.foldl (fun a sg => a + sg.count) 0}")
    | none => (s, "bad-op")
  | ["SHOULDCHK", a, b, c] =>
    match a.toNat?, b.toNat?, c.toNat? with
    | some minSegs, some iv, some now =>
      (s, match NMap.get s.store manifestName with
          | some (.manifest m) => b01 (shouldCheckpoint m minSegs iv now)
          | some _ => "err"
          | none => b01 (shouldCheckpoint (Manifest.new 0) minSegs iv now))
    | _, _, _ => (s, "bad-op")
  | ["APPLY2"] =>
    -- the production start-up sequence (server_persistent.rs): StreamingIntegration::recover, then
    -- the WAL entries through a SECOND apply_recovered_state(None, deltas)
    (s, match recover s.store s.rid with
        | .error e => showRec (.error e)
        | .ok r =>
          let route : Nat → Nat := fun k => k % 16
          let n1 := applyRecoveredState route (Node.fresh s.rid false) r.chk r.deltas
          let n2 := applyRecoveredState route n1 none (s.wal.map (·.2))
          let keys := (foldState (r.updates ++ s.wal.map (·.2))).map (·.1)
          let vs : List Delta := keys.filterMap (fun k => (n2.value route k).map (fun v => (k, v)))
          s!"applied {showDeltas vs}")
  | ["RECWAL"] => (s, showRec (recoverWithWal s.store s.rid s.wal))
  | ["APPLY"] => (s, showApplied s.rid (recover s.store s.rid))
  | ["APPLYWAL"] => (s, showApplied s.rid (recoverWithWal s.store s.rid s.wal))
  | _ =>
    match runP parseCmd line with
    | some (.seg id ds) => ({ s with store := NMap.insert (segName id) (.segment ds) s.store }, "ok")
    | some (.chk name last ds) =>
      ({ s with store := NMap.insert (chkName name) (.checkpoint (NMap.ofList ds) last) s.store }, "ok")
    | some (.wal es) => ({ s with wal := es }, "ok")
    | none => (s, "bad-op")

end RedisVerif.Driver.C11
