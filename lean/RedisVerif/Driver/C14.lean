import RedisVerif.Driver.Codec
import RedisVerif.Driver.Crc32
import RedisVerif.Driver.C10
import RedisVerif.Model.Codec
import RedisVerif.Driver.Bincode
import RedisVerif.Driver.Json

/-
  C14 sub-driver (stateful: base segment image, base checkpoint image).
  `ser`/`de` are the identity on payload bytes here: the op lines carry the bytes bincode
  produced, and a decoded payload is reported as the index of the equal payload of the
  pristine base image (`?` if there is none).
    V <format 1|2> <strict 0|1>  → which WAL format / segment iterator the code under test has (default 2 1)
    S <n> {<ts> <hex>}*          → segment image written by the model (`none` for the empty batch)
    IS <hex>                     → set base segment image; read it
    st <len> | sx <pos> <val>    → read the truncated / byte-substituted base segment
    sw <pos> <hex> | sta <len> <hex>   → bytes written over pos.. (clipped) / cut to len then bytes appended
    cw <pos> <hex> | cta <len> <hex>   → the same for the base checkpoint
    C <k> <t> <l> <hex>          → checkpoint image written by the model
    IC <hex>                     → set base checkpoint image; read it
    ct <len> | cx <pos> <val> | ca <hex>   → read the truncated / substituted / extended base checkpoint
    g <variant> <len>            → the round-trip law of the gossip codec ("roundtrip ok")
    W <ts> <hex>                 → encoded WAL entry for the payload (from_delta + encode)
    wd <hex>                     → WalEntry::decode
    SH | CH                      → header / footer fields of the base segment / base checkpoint (the readers' accessors)
    cl <len> | clx <pos> <val>   → `CheckpointReader::open` + `load` WITHOUT `validate` on the cut / substituted base checkpoint
    sxf <pos> <val>              → base segment with one RECORD byte replaced and the footer's data checksum
                                   recomputed (the damage reaches the deserialiser): decoded deltas, field by field
    cxf <pos> <val>              → the same for a payload byte of the base checkpoint (data and footer checksums recomputed)
    V … <checked 0|1>            → third field: `CheckpointReader::load` bounds-checks (1) or panics (0) on a short image
    BD <hex> | BS <hex> | U8 <hex>   → the concrete bincode model (`Driver/Bincode.lean`): a delta payload /
                                 a checkpoint payload decoded and printed field by field; UTF-8 validity
-/
namespace RedisVerif.Driver.C14
open RedisVerif RedisVerif.Driver RedisVerif.Wal RedisVerif.Codec

def crc : Bytes → Nat := crc32

def errName : Codec.Err → String
  | .eof => "eof" | .magic => "magic" | .version => "version" | .checksum => "checksum"
  | .compression => "compression" | .ser => "ser" | .tooSmall => "tooSmall"
  | .noLength => "noLength" | .noFooter => "noFooter" | .size => "size" | .truncated => "truncated"

structure St where
  fmt : Format := .v2
  strict : Bool := true
  loadChecked : Bool := false
  seg : Bytes := []
  segPayloads : List Bytes := []
  chk : Bytes := []
  chkPayload : Option Bytes := none
  /-- canonical text of the state the base checkpoint's payload decodes to (model's bincode decoder) -/
  chkState : Option String := none

def idxOf (ps : List Bytes) (p : Bytes) : String :=
  match ps.findIdx? (· == p) with
  | some i => toString i
  | none => "?"

def readSeg (strict : Bool) (data : Bytes) : Res (List Bytes) := readSegment strict crc (fun b => some b) data

def showSeg (base : List Bytes) : Res (List Bytes) → String
  | .error e => s!"err {errName e}"
  | .ok ps => " ".intercalate ("ok" :: toString ps.length :: ps.map (idxOf base))

def readChk (data : Bytes) : Res Bytes := readCheckpoint crc (fun b => some b) data

def showChk (base : Option Bytes) : Res Bytes → String
  | .error e => s!"err {errName e}"
  | .ok p => if some p == base then "ok same" else "ok diff"

def showLoad (base : Option String) : LoadRes Bincode.WState → String
  | .crash => "crash"
  | .error e => s!"err {errName e}"
  | .ok st => if some (Bin.showState st) == base then "ok same" else "ok diff"

def step (s : St) (line : String) : St × String :=
  match Bin.step? (tokens line) with
  | some o => (s, o)
  | none =>
  match Js.step? (tokens line) with
  | some o => (s, o)
  | none =>
  match tokens line with
  | ["V", v, k] => ({ s with fmt := if v == "1" then .v1 else .v2, strict := k != "0" },
      s!"format {if v == "1" then 1 else 2} strict {if k != "0" then 1 else 0}")
  | ["V", v, k, c] => ({ s with fmt := if v == "1" then .v1 else .v2, strict := k != "0", loadChecked := c != "0" },
      s!"format {if v == "1" then 1 else 2} strict {if k != "0" then 1 else 0} load-checked {if c != "0" then 1 else 0}")
  | ["FMT"] =>
    -- computed from what the model's WRITERS produce (not literals of the driver)
    let sh := segHeader crc 0 0 0
    let ch := chkHeader crc 0 0 0
    (s, s!"seg-magic {hexOfBytes (sh.take 4)} foot-magic {hexOfBytes ((segFooter crc []).drop 20)} seg-version {(sh.drop 4).headD 0} seg-header {sh.length} seg-footer {(segFooter crc []).length} chk-magic {hexOfBytes (ch.take 4)} chk-version {(ch.drop 4).headD 0} chk-header {ch.length}")
  | ["SH"] =>
    let b := s.seg
    let n := b.length
    (s, s!"count {leVal ((b.drop 6).take 4)} min {leVal ((b.drop 10).take 8)} max {leVal ((b.drop 18).take 8)} hcrc {leVal ((b.drop 26).take 4)} dcrc {leVal ((b.drop (n - 24)).take 4)} usize {leVal ((b.drop (n - 20)).take 8)} csize {leVal ((b.drop (n - 12)).take 8)} total {n}")
  | ["CH"] =>
    let b := s.chk
    (s, s!"keys {leVal ((b.drop 8).take 8)} ts {leVal ((b.drop 16).take 8)} last {leVal ((b.drop 24).take 8)} compressed {if ((b.drop 5).take 1).any (fun x => x % 2 = 1) then 1 else 0}")
  | ["cl", l] =>
    (match l.toNat? with
    | some n => (s, showLoad s.chkState (loadCheckpoint s.loadChecked crc Bincode.deState (s.chk.take n)))
    | none => (s, "bad-op"))
  | ["clx", p, v] =>
    (match p.toNat?, v.toNat? with
    | some p, some v => (s, showLoad s.chkState (loadCheckpoint s.loadChecked crc Bincode.deState (s.chk.set p v)))
    | _, _ => (s, "bad-op"))
  | ["sxf", p, v] =>
    (match p.toNat?, v.toNat? with
    | some p, some v =>
      let img := s.seg.set p v
      let n := img.length
      let recs := (img.drop 40).take (n - 64)
      let fixed := img.take (n - 24) ++ (le 4 (crc recs) ++ img.drop (n - 20))
      (s, match readSegment s.strict crc Bincode.deDelta fixed with
          | .error e => s!"err {errName e}"
          | .ok ds => " | ".intercalate (s!"ok {ds.length}" :: ds.map Bin.showDelta))
    | _, _ => (s, "bad-op"))
  | ["cxf", p, v] =>
    (match p.toNat?, v.toNat? with
    | some p, some v =>
      let img := s.chk.set p v
      let n := img.length
      let payload := (img.drop 52).take (n - 68)
      let fixed := img.take (n - 16) ++ chkFooter crc payload
      (s, match readCheckpoint crc Bincode.deState fixed with
          | .error e => s!"err {errName e}"
          | .ok st => s!"ok {Bin.showState st}")
    | _, _ => (s, "bad-op"))
  | "g" :: _ =>
    -- gossip codec instance (`Codec.gossip`): serde_json itself is not modelled; the line states the
    -- law `de (ser m) = some m` and the implementation's answer is compared with it
    (s, "roundtrip ok")
  | "S" :: rest =>
    let p : P (List (Nat × Bytes)) := do
      let n ← nat
      repeatP n (do let t ← nat; let b ← bytesTok; pure (t, b))
    (match p.run rest with
    | some (l, []) =>
      (s, match writeSegment crc (l.map (·.2)) (l.map (·.1)) with
          | none => "none"
          | some img => hexOfBytes img)
    | _ => (s, "bad-op"))
  | ["IS", h] =>
    (match (bytesTok.run [h]) with
    | some (img, _) =>
      let r := readSeg s.strict img
      let base := match r with | .ok ps => ps | .error _ => []
      ({ s with seg := img, segPayloads := base }, showSeg base r)
    | none => (s, "bad-op"))
  | ["st", l] =>
    (match l.toNat? with
    | some n => (s, showSeg s.segPayloads (readSeg s.strict (s.seg.take n)))
    | none => (s, "bad-op"))
  | ["sw", p, h] =>
    (match p.toNat?, bytesTok.run [h] with
    | some p, some (b, _) => (s, showSeg s.segPayloads (readSeg s.strict (C10.overwrite s.seg p b)))
    | _, _ => (s, "bad-op"))
  | ["sta", l, h] =>
    (match l.toNat?, bytesTok.run [h] with
    | some l, some (b, _) => (s, showSeg s.segPayloads (readSeg s.strict (s.seg.take l ++ b)))
    | _, _ => (s, "bad-op"))
  | ["cw", p, h] =>
    (match p.toNat?, bytesTok.run [h] with
    | some p, some (b, _) => (s, showChk s.chkPayload (readChk (C10.overwrite s.chk p b)))
    | _, _ => (s, "bad-op"))
  | ["cta", l, h] =>
    (match l.toNat?, bytesTok.run [h] with
    | some l, some (b, _) => (s, showChk s.chkPayload (readChk (s.chk.take l ++ b)))
    | _, _ => (s, "bad-op"))
  | ["sx", p, v] =>
    (match p.toNat?, v.toNat? with
    | some p, some v => (s, showSeg s.segPayloads (readSeg s.strict (s.seg.set p v)))
    | _, _ => (s, "bad-op"))
  | ["C", k, t, l, h] =>
    (match k.toNat?, t.toNat?, l.toNat?, bytesTok.run [h] with
    | some k, some t, some l, some (b, _) => (s, hexOfBytes (writeCheckpoint crc k t l b))
    | _, _, _, _ => (s, "bad-op"))
  | ["IC", h] =>
    (match bytesTok.run [h] with
    | some (img, _) =>
      let r := readChk img
      let base := match r with | .ok p => some p | .error _ => none
      ({ s with chk := img, chkPayload := base,
                chkState := base.bind (fun p => (Bincode.deState p).map Bin.showState) }, showChk base r)
    | none => (s, "bad-op"))
  | ["ct", l] =>
    (match l.toNat? with
    | some n => (s, showChk s.chkPayload (readChk (s.chk.take n)))
    | none => (s, "bad-op"))
  | ["cx", p, v] =>
    (match p.toNat?, v.toNat? with
    | some p, some v => (s, showChk s.chkPayload (readChk (s.chk.set p v)))
    | _, _ => (s, "bad-op"))
  | ["ca", h] =>
    (match bytesTok.run [h] with
    | some (b, _) => (s, showChk s.chkPayload (readChk (s.chk ++ b)))
    | none => (s, "bad-op"))
  | ["W", t, h] =>
    (match t.toNat?, bytesTok.run [h] with
    | some t, some (b, _) => (s, hexOfBytes (Entry.mk' s.fmt crc b t).encode)
    | _, _ => (s, "bad-op"))
  | ["wd", h] =>
    (match bytesTok.run [h] with
    | some (b, _) =>
      (s, match decode s.fmt crc b with
          | none => "none"
          | some (e, n) => s!"{C10.showEntry e} {n}")
    | none => (s, "bad-op"))
  | _ => (s, "bad-op")

end RedisVerif.Driver.C14
