import RedisVerif.Driver.Codec
import RedisVerif.Driver.Crc32
import RedisVerif.Driver.C10
import RedisVerif.Model.Codec
import RedisVerif.Driver.Bincode

/-
  C14 sub-driver (stateful: base segment image, base checkpoint image).
  `ser`/`de` are the identity on payload bytes here: the op lines carry the bytes bincode
  produced, and a decoded payload is reported as the index of the equal payload of the
  pristine base image (`?` if there is none).
    V <format 1|2> <strict 0|1>  → which WAL format / segment iterator the code under test has (default 2 1)
    S <n> {<ts> <hex>}*          → segment image written by the model (`none` for the empty batch)
    IS <hex>                     → set base segment image; read it
    st <len> | sx <pos> <val>    → read the truncated / byte-substituted base segment
    sw <pos> <hex> | sta <len> <hex>   → bytes written over pos.. (clipped) / cut to len then bytes appended
    cw <pos> <hex> | cta <len> <hex>   → the same for the base checkpoint
    C <k> <t> <l> <hex>          → checkpoint image written by the model
    IC <hex>                     → set base checkpoint image; read it
    ct <len> | cx <pos> <val> | ca <hex>   → read the truncated / substituted / extended base checkpoint
    g <variant> <len>            → the round-trip law of the gossip codec ("roundtrip ok")
    W <ts> <hex>                 → encoded WAL entry for the payload (from_delta + encode)
    wd <hex>                     → WalEntry::decode
    BD <hex> | BS <hex> | U8 <hex>   → the concrete bincode model (`Driver/Bincode.lean`): a delta payload /
                                 a checkpoint payload decoded and printed field by field; UTF-8 validity
-/
namespace RedisVerif.Driver.C14
open RedisVerif RedisVerif.Driver RedisVerif.Wal RedisVerif.Codec

def crc : Bytes → Nat := crc32

def errName : Codec.Err → String
  | .eof => "eof" | .magic => "magic" | .version => "version" | .checksum => "checksum"
  | .compression => "compression" | .ser => "ser" | .tooSmall => "tooSmall"
  | .noLength => "noLength" | .noFooter => "noFooter" | .size => "size"

structure St where
  fmt : Format := .v2
  strict : Bool := true
  seg : Bytes := []
  segPayloads : List Bytes := []
  chk : Bytes := []
  chkPayload : Option Bytes := none

def idxOf (ps : List Bytes) (p : Bytes) : String :=
  match ps.findIdx? (· == p) with
  | some i => toString i
  | none => "?"

def readSeg (strict : Bool) (data : Bytes) : Res (List Bytes) := readSegment strict crc (fun b => some b) data

def showSeg (base : List Bytes) : Res (List Bytes) → String
  | .error e => s!"err {errName e}"
  | .ok ps => " ".intercalate ("ok" :: toString ps.length :: ps.map (idxOf base))

def readChk (data : Bytes) : Res Bytes := readCheckpoint crc (fun b => some b) data

def showChk (base : Option Bytes) : Res Bytes → String
  | .error e => s!"err {errName e}"
  | .ok p => if some p == base then "ok same" else "ok diff"

def step (s : St) (line : String) : St × String :=
  match Bin.step? (tokens line) with
  | some o => (s, o)
  | none =>
  match tokens line with
  | ["V", v, k] => ({ s with fmt := if v == "1" then .v1 else .v2, strict := k != "0" },
      s!"format {if v == "1" then 1 else 2} strict {if k != "0" then 1 else 0}")
  | "g" :: _ =>
    -- gossip codec instance (`Codec.gossip`): serde_json itself is not modelled; the line states the
    -- law `de (ser m) = some m` and the implementation's answer is compared with it
    (s, "roundtrip ok")
  | "S" :: rest =>
    let p : P (List (Nat × Bytes)) := do
      let n ← nat
      repeatP n (do let t ← nat; let b ← bytesTok; pure (t, b))
    (match p.run rest with
    | some (l, []) =>
      (s, match writeSegment crc (l.map (·.2)) (l.map (·.1)) with
          | none => "none"
          | some img => hexOfBytes img)
    | _ => (s, "bad-op"))
  | ["IS", h] =>
    (match (bytesTok.run [h]) with
    | some (img, _) =>
      let r := readSeg s.strict img
      let base := match r with | .ok ps => ps | .error _ => []
      ({ s with seg := img, segPayloads := base }, showSeg base r)
    | none => (s, "bad-op"))
  | ["st", l] =>
    (match l.toNat? with
    | some n => (s, showSeg s.segPayloads (readSeg s.strict (s.seg.take n)))
    | none => (s, "bad-op"))
  | ["sw", p, h] =>
    (match p.toNat?, bytesTok.run [h] with
    | some p, some (b, _) => (s, showSeg s.segPayloads (readSeg s.strict (C10.overwrite s.seg p b)))
    | _, _ => (s, "bad-op"))
  | ["sta", l, h] =>
    (match l.toNat?, bytesTok.run [h] with
    | some l, some (b, _) => (s, showSeg s.segPayloads (readSeg s.strict (s.seg.take l ++ b)))
    | _, _ => (s, "bad-op"))
  | ["cw", p, h] =>
    (match p.toNat?, bytesTok.run [h] with
    | some p, some (b, _) => (s, showChk s.chkPayload (readChk (C10.overwrite s.chk p b)))
    | _, _ => (s, "bad-op"))
  | ["cta", l, h] =>
    (match l.toNat?, bytesTok.run [h] with
    | some l, some (b, _) => (s, showChk s.chkPayload (readChk (s.chk.take l ++ b)))
    | _, _ => (s, "bad-op"))
  | ["sx", p, v] =>
    (match p.toNat?, v.toNat? with
    | some p, some v => (s, showSeg s.segPayloads (readSeg s.strict (s.seg.set p v)))
    | _, _ => (s, "bad-op"))
  | ["C", k, t, l, h] =>
    (match k.toNat?, t.toNat?, l.toNat?, bytesTok.run [h] with
    | some k, some t, some l, some (b, _) => (s, hexOfBytes (writeCheckpoint crc k t l b))
    | _, _, _, _ => (s, "bad-op"))
  | ["IC", h] =>
    (match bytesTok.run [h] with
    | some (img, _) =>
      let r := readChk img
      let base := match r with | .ok p => some p | .error _ => none
      ({ s with chk := img, chkPayload := base }, showChk base r)
    | none => (s, "bad-op"))
  | ["ct", l] =>
    (match l.toNat? with
    | some n => (s, showChk s.chkPayload (readChk (s.chk.take n)))
    | none => (s, "bad-op"))
  | ["cx", p, v] =>
    (match p.toNat?, v.toNat? with
    | some p, some v => (s, showChk s.chkPayload (readChk (s.chk.set p v)))
    | _, _ => (s, "bad-op"))
  | ["ca", h] =>
    (match bytesTok.run [h] with
    | some (b, _) => (s, showChk s.chkPayload (readChk (s.chk ++ b)))
    | none => (s, "bad-op"))
  | ["W", t, h] =>
    (match t.toNat?, bytesTok.run [h] with
    | some t, some (b, _) => (s, hexOfBytes (Entry.mk' s.fmt crc b t).encode)
    | _, _ => (s, "bad-op"))
  | ["wd", h] =>
    (match bytesTok.run [h] with
    | some (b, _) =>
      (s, match decode s.fmt crc b with
          | none => "none"
          | some (e, n) => s!"{C10.showEntry e} {n}")
    | none => (s, "bad-op"))
  | _ => (s, "bad-op")

end RedisVerif.Driver.C14
