import RedisVerif.Driver.Codec
import RedisVerif.Model.SimRng
import RedisVerif.Model.SimKernel
import RedisVerif.Model.SimHarness
import RedisVerif.Model.SimTyped
import RedisVerif.Model.SimMore
import RedisVerif.Model.SimMulti
import RedisVerif.Model.SimBuggify

/-
  C20 sub-driver (stateful).

  Part A — kernel (one RNG / Simulation / timer context at a time):
    RNG det|sim <seed>            DeterministicRng::new / SimulatedRng::new                → ok
    U64                           next_u64                                                → <u64>
    RANGE <min> <max>             gen_range of the current wrapper                        → <u64> | fuel
    BOOL <f64 bits>               gen_bool                                                → t | f | crash
    SHUF <n>                      shuffle of [0..n)                                       → p a,b,c…
    BUG                           simulator::buggify(rng)  (det only)                     → t | f
    SB <supp> <prob bits>         buggify::should_buggify given config.get() = prob       → t | f
    SBP <supp> <enabled> <bits>   buggify::should_buggify_with_prob                       → t | f
    SIM <seed>                    Simulation::new                                         → ok
    HOST                          add_host                                                → <id>
    TIMER <host> <delay>          schedule_timer                                          → <timer id>
    DROP <bits>                   set_network_drop_rate                                   → ok
    PART <a> <b> | HEAL <a> <b>   partition_hosts / heal_partition                        → ok
    SEND <from> <to> <len>        send_message                                            → ok
    RUNTO <max>                   run_until(max, record)                                  → now=<t> ev <time>:<host>:<kind>…
    CTX                           SimulationContext::new                                  → ok
    TADD <wake>                   add_timer                                               → <id>
    TADV <t> | TBY <d>            advance_to / advance_by                                 → <now>
    TPROC                         process_timers                                          → w id,id…
    TNEXT                         next_timer_time                                         → <t> | -
    CLK <fixed> <ppm> <anchor> <global>   ClockOffset::apply (signed decimal)             → <local>

  Part B — whole harness runs (the model PREDICTS the trace of the real harness):
    RUN <harness> <preset> <seed> <ops>                                                   → trace text
-/
namespace RedisVerif.Driver.C20
open RedisVerif RedisVerif.Driver RedisVerif.SimRng RedisVerif.SimKernel

inductive Kind where
  | det | sim
  deriving DecidableEq

structure St where
  kind : Kind := .sim
  rng : Rng := Rng.new 0
  sim : Sim := Sim.new 0
  tq : TimerQ := {}
  /-- the generator of the `SimulationContext` (`SimulatedRuntime::rng()`) -/
  crng : Rng := Rng.new 0
  /-- `clock_offsets`: node ↦ (fixed, ppm, anchor); a `HashMap` that is only looked up -/
  offsets : NMap (Int × Int × Int) := []
  /-- `SimulationConfig::simulation_start_epoch` -/
  epoch : Int := 0
  /-- the `FaultConfig` under construction (ops `FC`, `FSET`, …) and the thread-local BUGGIFY context -/
  fcfg : SimBuggify.FaultCfg := .new
  bctx : SimBuggify.Ctx := {}

def St.init : St := {}

def int : P Int := do
  let t ← tok
  match t.toInt? with
  | some n => pure n
  | none => failure

/-- all remaining tokens as naturals (the configuration numbers of a `RUN` line) -/
def restNats : P (List Nat) := do
  let ts ← get
  set ([] : List String)
  match ts.mapM String.toNat? with
  | some l => pure l
  | none => failure

def showBool (b : Bool) : String := if b then "t" else "f"

def showDrawNat : Draw Nat → String
  | .ok v => toString v
  | .fuel => "fuel"

def showDrawBool : Draw Bool → String
  | .ok v => showBool v
  | .fuel => "fuel"

def showList (l : List Nat) : String := ",".intercalate (l.map toString)

def showKind : EvKind → String
  | .hostStart => "start"
  | .timer id => s!"timer{id}"
  | .msg s d l => s!"msg{s}>{d}#{l}"

def showEvents (l : List Event) : String :=
  " ".intercalate (l.map fun e => s!"{e.time}:{e.host}:{showKind e.kind}")

/-- one call of the BUGGIFY layer on the driver's context and generator (`SimulatedRng`) -/
def fcall (st : St) (c : SimBuggify.Call) : P (St × String) :=
  match st.kind with
  | .det => failure
  | .sim =>
    match st.bctx.call SimHarness.chacha c st.rng with
    | .error e => pure (st, e)
    | .ok (d, ctx, r) => pure ({ st with bctx := ctx, rng := r }, match d with | some b => showBool b | none => "ok")

def cmd (st : St) : P (St × String) := do
  let op ← tok
  match op with
  | "RNG" =>
    let k ← tok
    let seed ← nat
    let kind ← (match k with | "det" => pure Kind.det | "sim" => pure Kind.sim | _ => failure : P Kind)
    pure ({ st with kind := kind, rng := Rng.new seed.toUInt64 }, "ok")
  | "U64" =>
    let (v, r) := st.rng.nextU64
    pure ({ st with rng := r }, toString v.toNat)
  | "RANGE" =>
    let lo ← nat
    let hi ← nat
    match st.kind with
    | .det => let (v, r) := detGenRange lo hi st.rng; pure ({ st with rng := r }, toString v)
    | .sim => let (v, r) := simGenRange lo hi st.rng; pure ({ st with rng := r }, showDrawNat v)
  | "BOOL" =>
    let bits ← nat
    match st.kind with
    | .det => let (v, r) := detGenBool (F64.ofBits bits) st.rng; pure ({ st with rng := r }, showBool v)
    | .sim =>
      let (v, r) := simGenBool (F64.ofBits bits) st.rng
      pure ({ st with rng := r }, match v with | .crash => "crash" | .val b => showBool b)
  | "SHUF" =>
    let n ← nat
    let a := (List.range n).toArray
    match st.kind with
    | .det => let (a, r) := detShuffle a st.rng; pure ({ st with rng := r }, "p " ++ showList a.toList)
    | .sim =>
      match simShuffle a st.rng with
      | (.ok a, r) => pure ({ st with rng := r }, "p " ++ showList a.toList)
      | (.fuel, r) => pure ({ st with rng := r }, "fuel")
  | "BUG" =>
    let (v, r) := detBuggify st.rng
    pure ({ st with rng := r }, showBool v)
  | "SB" =>
    let supp ← nat
    let bits ← nat
    let (v, r) := shouldBuggify (supp == 1) (F64.ofBits bits) st.rng
    pure ({ st with rng := r }, showDrawBool v)
  | "SBP" =>
    let supp ← nat
    let en ← nat
    let bits ← nat
    let (v, r) := shouldBuggifyWithProb (supp == 1) (en == 1) (F64.ofBits bits) st.rng
    pure ({ st with rng := r }, showDrawBool v)
  | "SIM" =>
    let seed ← nat
    pure ({ st with sim := Sim.new seed.toUInt64 }, "ok")
  | "HOST" =>
    let (id, s) := st.sim.addHost
    pure ({ st with sim := s }, toString id)
  | "TIMER" =>
    let h ← nat
    let d ← nat
    let (id, s) := st.sim.scheduleTimer h d
    pure ({ st with sim := s }, toString id)
  | "DROP" =>
    let bits ← nat
    pure ({ st with sim := { st.sim with dropRate := clamp01 (F64.ofBits bits) } }, "ok")
  | "PART" =>
    let a ← nat
    let b ← nat
    pure ({ st with sim := st.sim.partition a b }, "ok")
  | "HEAL" =>
    let a ← nat
    let b ← nat
    pure ({ st with sim := st.sim.heal a b }, "ok")
  | "SEND" =>
    let a ← nat
    let b ← nat
    let l ← nat
    let (_, s) := st.sim.sendMessage a b l
    pure ({ st with sim := s }, "ok")
  | "RUNTO" =>
    let m ← nat
    let (s, evs) := st.sim.runUntil m
    pure ({ st with sim := s }, s!"now={s.now} ev {showEvents evs}")
  | "SIME" =>
    let seed ← nat
    let e ← int
    pure ({ st with sim := Sim.new seed.toUInt64, epoch := e }, "ok")
  | "EPOCH" => pure (st, toString st.epoch)
  | "SRNG" =>
    let (v, r) := st.sim.rng.nextU64
    pure ({ st with sim := { st.sim with rng := r } }, toString v.toNat)
  | "RUNALL" =>
    let (s, evs) := st.sim.runUntil (2 ^ 64 - 1)
    pure ({ st with sim := s }, s!"now={s.now} n={evs.length} {" ".intercalate (evs.map fun e => s!"{e.time}:{e.host}")}")
  | "CTX" => pure ({ st with tq := {}, crng := Rng.new 0, offsets := [] }, "ok")
  | "CTXS" =>
    let seed ← nat
    pure ({ st with tq := {}, crng := Rng.new seed.toUInt64, offsets := [] }, "ok")
  | "OFFSET" =>
    let node ← nat
    let f ← int
    let p ← int
    let a ← int
    pure ({ st with offsets := NMap.insert node (f, p, a) st.offsets }, "ok")
  | "LOCAL" =>
    let node ← nat
    match st.offsets.get node with
    | some (f, p, a) => pure (st, toString (clockApply f p a st.tq.now))
    | none => pure (st, toString st.tq.now)
  | "NID" =>
    -- `next_id()` is the counter `add_timer` takes its ids from
    pure ({ st with tq := { st.tq with nextId := st.tq.nextId + 1 } }, toString st.tq.nextId)
  | "CRANGE" =>
    let lo ← nat
    let hi ← nat
    let (v, r) := simGenRange lo hi st.crng
    pure ({ st with crng := r }, showDrawNat v)
  | "DBG" =>
    let node ← nat
    let lt := match st.offsets.get node with
      | some (f, p, a) => clockApply f p a st.tq.now
      | none => st.tq.now
    pure (st, s!"SimulationContext \{ time: Timestamp({st.tq.now}) } | SimulatedRuntime \{ node_id: NodeId({node}) } | SimulatedTimeSource \{ node_id: NodeId({node}), time_ms: {lt} }")
  | "TADD" =>
    let w ← nat
    let (id, q) := st.tq.addTimer w
    pure ({ st with tq := q }, toString id)
  | "TADV" =>
    let t ← nat
    let q := st.tq.advanceTo t
    pure ({ st with tq := q }, toString q.now)
  | "TBY" =>
    let d ← nat
    let q := st.tq.advanceBy d
    pure ({ st with tq := q }, toString q.now)
  | "TPROC" =>
    let (ids, q) := st.tq.process
    pure ({ st with tq := q }, "w " ++ showList ids)
  | "TNEXT" =>
    pure (st, match st.tq.nextTime with | some t => toString t | none => "-")
  | "CLK" =>
    let f ← int
    let p ← int
    let a ← int
    let g ← int
    pure (st, toString (clockApply f p a g))
  | "RUN" =>
    let h ← tok
    let _preset ← tok
    let seed ← nat
    let ops ← nat
    let cfg ← restNats
    match (((SimMulti.run h seed cfg).orElse (fun _ => SimTyped.run h seed ops cfg)).orElse (fun _ => SimMore.run h seed ops cfg)).orElse (fun _ => SimHarness.run h seed ops cfg) with
    | some t => pure (st, t)
    | none => failure
  | "FC" =>
    let name ← tok
    match SimBuggify.presetOf name with
    | none => failure
    | some c =>
      let probs := ",".intercalate (c.probs.map fun p => s!"{p.1}:{p.2}")
      pure ({ st with fcfg := c }, s!"en={if c.enabled then 1 else 0} mult={c.mult} probs={probs}")
  | "FSET" =>
    let id ← nat
    let bits ← nat
    pure ({ st with fcfg := st.fcfg.set id bits }, "ok")
  | "FWITH" =>
    let k ← nat
    let l := if k == 0 then SimFaultTable.builderWithNetworkFaults else if k == 1 then SimFaultTable.builderWithTimerFaults else SimFaultTable.builderWithProcessFaults
    pure ({ st with fcfg := st.fcfg.setAll l }, "ok")
  | "FMULT" =>
    let m ← nat
    let c := st.fcfg.withMultiplier m
    pure ({ st with fcfg := c }, toString c.mult)
  | "FEN" =>
    let b ← nat
    pure ({ st with fcfg := { st.fcfg with enabled := b == 1 } }, "ok")
  | "FGET" =>
    let id ← nat
    pure (st, toString (st.fcfg.get id))
  | "FTRIG" =>
    let id ← nat
    let v ← nat
    pure (st, showBool (st.fcfg.shouldTrigger id v))
  | "FINSTALL" => fcall st (.setConfig st.fcfg)
  | "FSUP" =>
    let b ← nat
    fcall st (.suppress (b == 1))
  | "FRESET" => fcall st .resetStats
  | "FSB" =>
    let id ← nat
    fcall st (.check id)
  | "FSBP" =>
    let id ← nat
    let bits ← nat
    fcall st (.checkProb id bits)
  | "FMAC" =>
    let k ← nat
    let id ← nat
    -- buggify_rarely! 0.001, buggify_sometimes! 0.05, buggify_often! 0.20, buggify!(rng, id), buggify!(rng, id, 0.5)
    fcall st (match k with
      | 0 => .checkProb id 0x3F50624DD2F1A9FC
      | 1 => .checkProb id 0x3FA999999999999A
      | 2 => .checkProb id 0x3FC999999999999A
      | 3 => .check id
      | _ => .checkProb id 0x3FE0000000000000)
  | "FHERE" =>
    let bits ← nat
    fcall st (.checkProb 2000 bits)
  | "FSTATS" =>
    let sh (m : NMap Nat) : String := ",".intercalate (m.map fun p => s!"{p.1}:{p.2}")
    pure (st, s!"checks {sh st.bctx.checks} triggers {sh st.bctx.triggers}")
  | "DELTAS" =>
    -- `get_all_deltas()` given the map order of this process: <sorted flag> <key indices in map order…>
    let flag ← nat
    let pi ← restNats
    pure (st, showList (SimMore.getAllDeltas (flag == 1) pi))
  | "BSTATS" =>
    -- `SimulationResult.buggify_stats` (checks of process.crash): <resets flag> <on the thread before> <this run's own>
    let flag ← nat
    let prev ← nat
    let own ← nat
    let m := SimMore.finalizeStats (flag == 1) (if prev == 0 then [] else [(0, prev)]) (if own == 0 then [] else [(0, own)])
    pure (st, toString ((NMap.get m 0).getD 0))
  | "RUNL" =>
    -- debugging aid: the predicted trace itself (families of Model/SimMore), lines joined by " ¦ "
    let h ← tok
    let _preset ← tok
    let seed ← nat
    let ops ← nat
    let cfg ← restNats
    match SimMore.runLines h seed ops cfg with
    | some (.ok l) => pure (st, " ¦ ".intercalate l)
    | some (.error e) => pure (st, e)
    | none => failure
  | _ => failure

def step (st : St) (line : String) : St × String :=
  match runP (cmd st) line with
  | some (st', o) => (st', o)
  | none => (st, "bad-op")

end RedisVerif.Driver.C20
