import RedisVerif.Driver.Codec
import RedisVerif.Model.Resp

/-
  C15 sub-driver.  One line in, one line out:
    Z                          → elemsize=<size_of RespValueZeroCopy assumed by the model>
    D1 <hex> | D2 <hex>        → outcome of decoder 1 / 2 (value, consumed) + big allocation requests
    N1 <depth> <stack> | N2 …  → decode `*1\r\n` × depth ++ `:1\r\n` on a thread with <stack> bytes
                                  of stack (model: at most stack/16 frames fit)
    E1|E2|E3|E4|E5 <value>     → encoder output (hex); EE / EE5 <hex text> → error encoders
    CE <hex arg> …             → a command as a frame (client-side encoders 6 and 7)
    PN <hex>                   → the command name the shadow proxy extracts: `none` | `name=<hex>` |
                                 `name=~` (a name out of a buffer with non-ASCII bytes: Unicode upper-casing is not modelled)
    F1|F2 <hex> <cuts>         → frames produced by the buffer loop when the bytes arrive cut at
                                  the given offsets (`-` = one piece)
    L <hex>                    → String::from_utf8_lossy
    I <hex>                    → str::parse::<i64>()
  Decoder environment of D/F ops: 1 000 000 frames of stack (the harness decodes on a thread with
  a large stack and never nests deeper), single allocation requests ≥ 2^30 bytes are refused
  (the harness allocator does exactly that; refused = abort).
-/
namespace RedisVerif.Driver.C15
open RedisVerif.Driver RedisVerif.Resp

def memLimit : Nat := 1073741824
def bigThreshold : Nat := 1048576
def envD : Env := { depth := 1000000, mem := memLimit }

def showInt' (n : Int) : String := if n < 0 then "-" ++ toString n.natAbs else toString n.toNat

partial def showVal : Val → String
  | .simple s => "S " ++ hexOfBytes s
  | .error s => "E " ++ hexOfBytes s
  | .int n => "I " ++ showInt' n
  | .nullBulk => "N"
  | .bulk b => "B " ++ hexOfBytes b
  | .nullArray => "Z"
  | .array a => " ".intercalate (("A " ++ toString a.length) :: a.map showVal)

def intTok : P Int := do
  let t ← tok
  match t.toList with
  | '-' :: cs => match (String.ofList cs).toNat? with
    | some n => pure (- Int.ofNat n)
    | none => failure
  | _ => match t.toNat? with
    | some n => pure (Int.ofNat n)
    | none => failure

partial def valP : P Val := do
  let t ← tok
  match t with
  | "S" => do let b ← bytesTok; pure (.simple b)
  | "E" => do let b ← bytesTok; pure (.error b)
  | "I" => do let n ← intTok; pure (.int n)
  | "N" => pure .nullBulk
  | "B" => do let b ← bytesTok; pure (.bulk b)
  | "Z" => pure .nullArray
  | "A" => do
    let n ← nat
    let rec go (k : Nat) (acc : List Val) : P (List Val) :=
      if k = 0 then pure acc.reverse else do
        let v ← valP
        go (k - 1) (v :: acc)
    let vs ← go n []
    pure (.array vs)
  | _ => failure

def showInc (codec : Nat) : Inc → String
  | .empty => if codec = 1 then "incomplete" else "err:empty"
  | .noCrlf => if codec = 1 then "incomplete" else "err:nocrlf"
  | .short => if codec = 1 then "incomplete" else "err:short"
  | .elems => "incomplete"

def showErr : Err → String
  | .unknownType => "err:unknown-type"
  | .badInt => "err:bad-int"
  | .badLen => "err:bad-len"
  | .tooDeep => "err:too-deep"

def showCrash : Crash → String
  | .sliceOOB => "crash:slice"
  | .capacityOverflow => "crash:capacity"
  | .allocAbort => "abort:alloc"
  | .stackOverflow => "abort:stack"

def showOutcome (codec : Nat) : Outcome → String
  | .ok v k => s!"ok {showVal v} {k}"
  | .incomplete k => showInc codec k
  | .error k => showErr k
  | .crash k => showCrash k

def showBig (allocs : List Nat) : String :=
  "big=[" ++ ",".intercalate ((allocs.filter (· ≥ bigThreshold)).map toString) ++ "]"

def showRes (codec : Nat) (r : Res) : String := s!"{showOutcome codec r.out} {showBig r.allocs}"

def codecOf (n : Nat) : Codec := if n = 1 then codec1 else codec2

def nested (depth : Nat) : Bytes :=
  (List.replicate depth [42, 49, 13, 10]).flatten ++ [58, 49, 13, 10]

def showFrame : Frame → String
  | .val v => "V " ++ showVal v
  | .err k => "ERR:" ++ showErr k
  | .crashed k => "CRASH:" ++ showCrash k

/-- split `bs` at the (ascending) absolute offsets -/
def cutAt (bs : Bytes) (cuts : List Nat) : List Bytes :=
  let rec go (rest : Bytes) (base : Nat) (cs : List Nat) (acc : List Bytes) : List Bytes :=
    match cs with
    | [] => (rest :: acc).reverse
    | c :: cs' => go (rest.drop (c - base)) c cs' (rest.take (c - base) :: acc)
  go bs 0 cuts []

def cutsP : P (List Nat) := do
  let t ← tok
  if t == "-" then pure [] else
    let parts := t.splitOn ","
    let ns := parts.filterMap (·.toNat?)
    if ns.length = parts.length then pure ns else failure

def showFeed (st : FeedSt) : String :=
  s!"n={st.frames.length} [{" ; ".intercalate (st.frames.map showFrame)}] rest={st.buf.length} dead={if st.dead then 1 else 0}"

def decodeOp (codec : Nat) (args : List String) : String :=
  match args with
  | [h] => match runP bytesTok h with
    | some bs => showRes codec (parseG (codecOf codec) envD bs)
    | none => "bad-op"
  | _ => "bad-op"

def nestedOp (codec : Nat) (args : List String) : String :=
  match args with
  | [d, s] => match d.toNat?, s.toNat? with
    | some depth, some stack =>
      showRes codec (parseG (codecOf codec) { depth := stack / 16, mem := memLimit } (nested depth))
    | _, _ => "bad-op"
  | _ => "bad-op"

def feedOp (codec : Nat) (args : List String) : String :=
  match args with
  | [h, c] => match runP bytesTok h, runP cutsP c with
    | some bs, some cuts =>
      let p := fun b => (parseG (codecOf codec) envD b).out
      showFeed (feedAll p FeedSt.init (cutAt bs cuts))
    | _, _ => "bad-op"
  | _ => "bad-op"

def encodeOp (k : Nat) (args : List String) : String :=
  match valP.run args with
  | some (v, []) => hexOfBytes (if k = 2 then encode2 v else if k = 1 then encode1 v else if k = 3 then encode3 v else if k = 4 then encode4 v else encode5 v)
  | _ => "bad-op"

def step (line : String) : String :=
  match tokens line with
  | ["Z"] => s!"elemsize={elemSize}"
  | "D1" :: args => decodeOp 1 args
  | "D2" :: args => decodeOp 2 args
  | "N1" :: args => nestedOp 1 args
  | "N2" :: args => nestedOp 2 args
  | "F1" :: args => feedOp 1 args
  | "F2" :: args => feedOp 2 args
  | "E1" :: args => encodeOp 1 args
  | "E2" :: args => encodeOp 2 args
  | "E3" :: args => encodeOp 3 args
  | "E4" :: args => encodeOp 4 args
  | "E5" :: args => encodeOp 5 args
  | ["EE5", h] =>
    match runP bytesTok h with
    | some bs => hexOfBytes (encodeErr5 bs)
    | none => "bad-op"
  | "CE" :: args =>
    -- encoder 6 (client side): a command as an array of bulk strings
    match args.mapM (fun a => runP bytesTok a) with
    | some as => hexOfBytes (encode2 (.array (as.map Val.bulk)))
    | none => "bad-op"
  | ["EE", h] =>
    match runP bytesTok h with
    | some bs => hexOfBytes (encodeErr bs)
    | none => "bad-op"
  | ["PN", h] =>
    match runP bytesTok h with
    | some bs =>
      match proxyName bs with
      | none => "none"
      | some n => if bs.all (fun b => b < 128) then "name=" ++ hexOfBytes n else "name=~"
    | none => "bad-op"
  | ["L", h] =>
    match runP bytesTok h with
    | some bs => hexOfBytes (utf8Lossy bs)
    | none => "bad-op"
  | ["I", h] =>
    match runP bytesTok h with
    | some bs => match parseI64 bs with
      | some n => showInt' n
      | none => "none"
    | none => "bad-op"
  | _ => "bad-op"

end RedisVerif.Driver.C15
