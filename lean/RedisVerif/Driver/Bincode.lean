import RedisVerif.Driver.Codec
import RedisVerif.Model.Bincode

/-
  Printing of bincode-decoded wire values (`Model/Bincode.lean`) in the canonical text the
  harness prints for the REAL decoded values (`harness/src/enc.rs: MRv::show`): the wire value is
  turned into the M1 value (`RV`: maps keyed by the injective `keyCode`, later pairs win — what
  `HashMap::insert` does) and printed by the printer every other sub-driver uses.
-/
namespace RedisVerif.Driver.Bin
open RedisVerif RedisVerif.Driver RedisVerif.Bincode

/-- `UniqueTag { replica_id, sequence }` as the harness' u128 code -/
def tagCode (p : Nat × Nat) : Nat := p.1 * 2 ^ 64 + p.2

def toLww (r : WLww) : Lww := ⟨r.value, ⟨r.time, r.rid⟩, r.tomb⟩

def toCrdt : WCrdt → Crdt
  | .lww r => .lww (toLww r)
  | .gcounter c => .gcounter (NMap.ofList c)
  | .pncounter p n => .pncounter (NMap.ofList p) (NMap.ofList n)
  | .gset s => .gset (NSet.ofList (s.map keyCode))
  | .orset e nx =>
    .orset (NMap.ofList (e.map (fun p => (keyCode p.1, NSet.ofList (p.2.map tagCode))))) (NMap.ofList nx)
  | .hash h => .hash (NMap.ofList (h.map (fun p => (keyCode p.1, toLww p.2))))

def toRV (v : WRv) : RV :=
  { crdt := toCrdt v.crdt, vc := v.vc.map NMap.ofList, expiry := v.expiry, ts := ⟨v.time, v.rid⟩, rf := v.rf }

def showDelta (d : WDelta) : String := s!"{hexOfBytes d.key} {d.source} {showRV (toRV d.value)}"

def showState (s : WState) : String :=
  let m : NMap RV := NMap.ofList (s.map (fun p => (keyCode p.1, toRV p.2)))
  ";".intercalate (m.map (fun p => s!"{showKey p.1}={showRV p.2}"))

/-- ops shared by the C14 / C10 sub-drivers:
    BD <hex> → `bincode::deserialize::<ReplicationDelta>`;  BS <hex> → `…::<CheckpointData>`;
    U8 <hex> → `std::str::from_utf8(..).is_ok()` -/
def step? (toks : List String) : Option String :=
  match toks with
  | ["BD", h] =>
    (match bytesTok.run [h] with
    | some (b, _) => some (match deDelta b with | some d => s!"ok {showDelta d}" | none => "err")
    | none => some "bad-op")
  | ["BS", h] =>
    (match bytesTok.run [h] with
    | some (b, _) => some (match deState b with | some s => s!"ok {(NMap.ofList (s.map (fun p => (keyCode p.1, ())))).length} {showState s}" | none => "err")
    | none => some "bad-op")
  | ["U8", h] =>
    (match bytesTok.run [h] with
    | some (b, _) => some (if utf8Valid b then "1" else "0")
    | none => some "bad-op")
  | _ => none

end RedisVerif.Driver.Bin
