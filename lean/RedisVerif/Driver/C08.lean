import RedisVerif.Driver.Codec
import RedisVerif.Props.C08
import RedisVerif.Props.C08Clock

/-
  C08 sub-driver (stateful): one shard's replication state.
    NEW <rid> <causal01>            → ok
    W <key> <val> <exp|->           → eff=1 delta <rv>
    D <key>                         → eff=<b> delta <rv> | eff=0 none
    HW <key> <n> (<field> <val>)*   → eff=<b> delta <rv>
    HD <key> <n> <field>*           → eff=<b> delta <rv> | eff=0 none
    R <key> <rv>                    → ok      (remote delta)
    REC <key> <rv>                  → ok      (recovered checkpoint value)
    FLUSH                           → ok      (FLUSHDB / FLUSHALL: `Shard.flush`, replication state untouched)
    SNAP                            → <n> (<key> <rv> ;)*   sorted by key code

  node level (a `ShardedNode` = all shards of one ReplicatedShardedState):
    NN <rid> <causal01> <nshards>   → ok          fresh node
    NS <shard> <op as above>        → as above    one message to shard actor <shard>
    NRECOVER <c> (<shard> <key> <rv>)^c <d> (<shard> <key> <rv>)^d → ok
                                    `apply_recovered_state(Some(checkpoint), deltas)`; the checkpoint
                                    entries come in the implementation's map iteration order (a
                                    relation: the line carries the implementation's choice); the shard
                                    given with each key is the routing function
    NFLUSH                          → ok      FLUSHDB / FLUSHALL on every shard
    NSNAP                           → <n> (<key> <rv> ;)*   all shards, sorted by key code

  the u64 boundary of the Lamport time (`Props/C08Clock.lean`):
    KU <checked01> <start> <n> (T | U <t>)^n → <final time> | overflow
                                    checked = 1: `overflow-checks` on (panic), 0: wrapping release arithmetic
-/
namespace RedisVerif.Driver.C08
open RedisVerif RedisVerif.Driver RedisVerif.Shard

def parseOp : P (Option Op × String) := do
  let t ← tok
  match t with
  | "W" => do
    let k ← strKey; let v ← bytesTok; let e ← optNat
    pure (some (.write k v e), "")
  | "D" => do let k ← strKey; pure (some (.delete k), "")
  | "HW" => do
    let k ← strKey; let n ← nat
    let fs ← repeatP n (do let f ← strKey; let v ← bytesTok; pure (f, v))
    pure (some (.hwrite k fs), "")
  | "HD" => do
    let k ← strKey; let n ← nat
    let fs ← repeatP n strKey
    pure (some (.hdelete k fs), "")
  | "R" => do let k ← strKey; let v ← rv; pure (some (.remote k v), "")
  | "REC" => do let k ← strKey; let v ← rv; pure (some (.recovered k v), "")
  | _ => failure

def b01 (b : Bool) : String := if b then "1" else "0"

def step (s : Shard) (line : String) : Shard × String :=
  match tokens line with
  | ["NEW", r, c] =>
    match r.toNat?, c.toNat? with
    | some rid, some cz => (Shard.init rid (cz != 0), "ok")
    | _, _ => (s, "bad-op")
  | ["FLUSH"] => (Shard.flush s, "ok")
  | ["SNAP"] =>
    (s, " ".intercalate (toString s.keys.length :: s.keys.map (fun p => s!"{showKey p.1} {showRV p.2} ;")))
  | _ =>
    match runP parseOp line with
    | some (some op, _) =>
      let eff := Shard.effective s op
      let (s', d) := Shard.step s op
      match op with
      | .remote _ _ => (s', "ok")
      | .recovered _ _ => (s', "ok")
      | _ =>
        match d with
        | some dv => (s', s!"eff={b01 eff} delta {showRV dv}")
        | none => (s', s!"eff={b01 eff} none")
    | _ => (s, "bad-op")

/-! ## node level -/

structure DState where
  s : Shard
  nd : ShardedNode

def DState.init : DState := { s := Shard.init 0 false, nd := [] }

def entries (n : Nat) : P (List (Nat × Nat × RV)) :=
  repeatP n (do let sh ← nat; let k ← strKey; let v ← rv; pure (sh, k, v))

def insertKey (p : Nat × RV) : List (Nat × RV) → List (Nat × RV)
  | [] => [p]
  | q :: l => if p.1 ≤ q.1 then p :: q :: l else q :: insertKey p l

def nstep (nd : ShardedNode) (line : String) : ShardedNode × String :=
  match tokens line with
  | ["NN", r, c, n] =>
    match r.toNat?, c.toNat?, n.toNat? with
    | some rid, some cz, some n => (ShardedNode.init rid (cz != 0) n, "ok")
    | _, _, _ => (nd, "bad-op")
  | ["NFLUSH"] => (nd.map Shard.flush, "ok")
  | ["NSNAP"] =>
    let all := (nd.flatMap (·.keys)).foldr insertKey []
    (nd, " ".intercalate (toString all.length :: all.map (fun p => s!"{showKey p.1} {showRV p.2} ;")))
  | "NS" :: sh :: rest =>
    match sh.toNat? with
    | some i =>
      match nd[i]? with
      | some s0 =>
        let r := step s0 (" ".intercalate rest)
        if r.2 == "bad-op" then (nd, "bad-op") else (nd.set i r.1, r.2)
      | none => (nd, "bad-op")
    | none => (nd, "bad-op")
  | "NRECOVER" :: _ =>
    match runP (do expect "NRECOVER"; let c ← nat; let ck ← entries c; let d ← nat; let ds ← entries d; pure (ck, ds)) line with
    | some (ck, ds) =>
      let table := (ck ++ ds).map (fun e => (e.2.1, e.1))
      let route := fun k => match table.find? (fun q => q.1 == k) with | some q => q.2 | none => 0
      (ShardedNode.recoverNode false route nd (ck.map (·.2)) (ds.map (·.2)), "ok")
    | none => (nd, "bad-op")
  | _ => (nd, "bad-op")

def clockOps : P (Bool × Nat × List RedisVerif.C08.ClockOp) := do
  expect "KU"
  let ck ← nat
  let c0 ← nat
  let n ← nat
  let ops ← repeatP n (do
    let t ← tok
    if t == "T" then pure RedisVerif.C08.ClockOp.tick
    else if t == "U" then do let x ← nat; pure (RedisVerif.C08.ClockOp.update x)
    else failure)
  pure (ck != 0, c0, ops)

def stepAll (d : DState) (line : String) : DState × String :=
  match tokens line with
  | "KU" :: _ =>
    match runP clockOps line with
    | some (ck, c0, ops) =>
      if ck then
        (d, match RedisVerif.C08.clockRunChecked c0 ops with | some v => toString v | none => "overflow")
      else (d, toString (RedisVerif.C08.clockRunWrap c0 ops))
    | none => (d, "bad-op")
  | t :: _ =>
    if t == "NN" || t == "NS" || t == "NRECOVER" || t == "NSNAP" || t == "NFLUSH" then
      let r := nstep d.nd line
      ({ d with nd := r.1 }, r.2)
    else
      let r := step d.s line
      ({ d with s := r.1 }, r.2)
  | [] => (d, "bad-op")

end RedisVerif.Driver.C08
