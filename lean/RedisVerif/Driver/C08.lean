import RedisVerif.Driver.Codec
import RedisVerif.Props.C08

/-
  C08 sub-driver (stateful): one shard's replication state.
    NEW <rid> <causal01>            → ok
    W <key> <val> <exp|->           → eff=1 delta <rv>
    D <key>                         → eff=<b> delta <rv> | eff=0 none
    HW <key> <n> (<field> <val>)*   → eff=<b> delta <rv>
    HD <key> <n> <field>*           → eff=<b> delta <rv> | eff=0 none
    R <key> <rv>                    → ok      (remote delta)
    REC <key> <rv>                  → ok      (recovered checkpoint value)
    SNAP                            → <n> (<key> <rv> ;)*   sorted by key code
-/
namespace RedisVerif.Driver.C08
open RedisVerif RedisVerif.Driver RedisVerif.Shard

def parseOp : P (Option Op × String) := do
  let t ← tok
  match t with
  | "W" => do
    let k ← strKey; let v ← bytesTok; let e ← optNat
    pure (some (.write k v e), "")
  | "D" => do let k ← strKey; pure (some (.delete k), "")
  | "HW" => do
    let k ← strKey; let n ← nat
    let fs ← repeatP n (do let f ← strKey; let v ← bytesTok; pure (f, v))
    pure (some (.hwrite k fs), "")
  | "HD" => do
    let k ← strKey; let n ← nat
    let fs ← repeatP n strKey
    pure (some (.hdelete k fs), "")
  | "R" => do let k ← strKey; let v ← rv; pure (some (.remote k v), "")
  | "REC" => do let k ← strKey; let v ← rv; pure (some (.recovered k v), "")
  | _ => failure

def b01 (b : Bool) : String := if b then "1" else "0"

def step (s : Shard) (line : String) : Shard × String :=
  match tokens line with
  | ["NEW", r, c] =>
    match r.toNat?, c.toNat? with
    | some rid, some cz => (Shard.init rid (cz != 0), "ok")
    | _, _ => (s, "bad-op")
  | ["SNAP"] =>
    (s, " ".intercalate (toString s.keys.length :: s.keys.map (fun p => s!"{showKey p.1} {showRV p.2} ;")))
  | _ =>
    match runP parseOp line with
    | some (some op, _) =>
      let eff := Shard.effective s op
      let (s', d) := Shard.step s op
      match op with
      | .remote _ _ => (s', "ok")
      | .recovered _ _ => (s', "ok")
      | _ =>
        match d with
        | some dv => (s', s!"eff={b01 eff} delta {showRV dv}")
        | none => (s', s!"eff={b01 eff} none")
    | _ => (s, "bad-op")

end RedisVerif.Driver.C08
