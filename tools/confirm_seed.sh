#!/bin/bash
# Confirm a seeded change the way the task asks: in a scratch worktree of /repo the demonstration
# FAILS with the patch and PASSES without it, and the pinned suite passes with the patch.
#   tools/confirm_seed.sh <dir with patch.diff + seeded_demo*.rs>   → prints CONFIRMED / REJECTED: why
# Uses one shared target dir (/work/confirm-target): run one confirmation at a time.
d=$(realpath "$1"); id=$(basename "$d")
wt=/tmp/confirm-$id
export RUSTC_WRAPPER= CARGO_NET_OFFLINE=true CARGO_TARGET_DIR=/work/confirm-target
[ -d /work/confirm-target ] || cp -r /repo/target /work/confirm-target 2>/dev/null
git -C /repo worktree remove --force "$wt" 2>/dev/null
git -C /repo worktree add -q --detach "$wt" HEAD || { echo "REJECTED: worktree"; exit 2; }
trap 'git -C /repo worktree remove --force "$wt" >/dev/null 2>&1' EXIT
cd "$wt" || exit 2
demo=$(ls "$d"/seeded_demo*.rs | head -1); t=$(basename "$demo" .rs)
git apply --check "$d/patch.diff" || { echo "REJECTED: patch does not apply"; exit 1; }
[ -z "$(git apply --numstat "$d/patch.diff" | awk '{print $3}' | grep -v '^src/')" ] || { echo "REJECTED: patch touches files outside src/"; exit 1; }
cp "$demo" tests/
cargo test -j6 --offline --test "$t" > "$d/confirm-without.log" 2>&1 || { echo "REJECTED: demo fails WITHOUT the patch"; exit 1; }
git apply "$d/patch.diff"
if cargo test -j6 --offline --test "$t" > "$d/confirm-with.log" 2>&1; then echo "REJECTED: demo passes WITH the patch"; exit 1; fi
grep -q 'test result: FAILED\|panicked' "$d/confirm-with.log" || { echo "REJECTED: demo did not run with the patch (compile error?)"; exit 1; }
cargo nextest run --workspace --no-fail-fast --offline --test-threads 6 --build-jobs 6 -E "not binary($t)" > "$d/confirm-suite.log" 2>&1
s=$(grep -E '^\s*Summary' "$d/confirm-suite.log" | tail -1)
echo "$s" | grep -q ' 691 passed' && ! echo "$s" | grep -q 'failed' || { echo "REJECTED: suite with the patch: $s"; exit 1; }
echo "CONFIRMED $id: demo fails with / passes without; suite: $s"
