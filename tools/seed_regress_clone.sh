#!/bin/bash
# Seed regression on a PRIVATE clone pair, so that /repo and /verif stay untouched and usable:
#   tools/seed_regress_clone.sh <k> <n> [filter-regex]
# shard k of n (seed directories taken round-robin); clones /repo to /work/regress-<k>/repo, makes a
# worktree-free copy of /verif's committed tree at /work/regress-<k>/verif (with the warm build
# output copied in), points its harness at the clone, and for every seeded change applies the
# patch to the clone, runs the property's quick check there, reverts.  Results:
# /work/regress-<k>/result.tsv (name, property, CAUGHT | CAUGHT-NO-INPUT | MISSED | NOT-APPLICABLE).
k=$1; n=$2; filter="${3:-.}"
W=/work/regress-$k
rm -rf "$W"; mkdir -p "$W"
git clone -q /repo "$W/repo" || exit 2
git -C /verif worktree prune
git clone -q /verif "$W/verif" || exit 2
cp -r /verif/.build "$W/verif/.build" 2>/dev/null
mkdir -p "$W/verif/lean/.lake"; cp -r /verif/lean/.lake/. "$W/verif/lean/.lake/"
sed -i "s#path = \"/repo\"#path = \"$W/repo\"#" "$W/verif/harness/Cargo.toml"
cd "$W/verif" || exit 2
out=$W/result.tsv; : > "$out"
i=0
for d in /verif/seeded/*/; do
  name=$(basename "$d")
  echo "$name" | grep -Eq "$filter" || continue
  i=$((i+1)); [ $((i % n)) -eq $((k % n)) ] || continue
  prop=${name%%-*}
  patch="$d/patch.diff"
  git -C "$W/repo" apply --check "$patch" 2>/dev/null || {
    alt=$(ls "$d"/patch-on-*.diff 2>/dev/null | tail -n 1)
    if [ -n "$alt" ] && git -C "$W/repo" apply --check "$alt" 2>/dev/null; then patch="$alt"
    else printf "%s\t%s\tNOT-APPLICABLE\n" "$name" "$prop" >> "$out"; continue; fi
  }
  git -C "$W/repo" apply "$patch"
  log=$W/seedrun-$name.log
  ./check "$prop" > "$log" 2>&1
  rc=$?
  git -C "$W/repo" checkout -- .
  v=$(grep -c '^VIOLATION' "$log")
  nfi=$(grep -c 'no-failing-input-found' "$log")
  concrete=$(grep -c 'impl-violates-property' "$log")
  status=CAUGHT
  if [ "$rc" -eq 0 ] || [ "$v" -eq 0 ]; then status=MISSED
  elif [ "$nfi" -gt 0 ]; then status=CAUGHT-NO-INPUT; fi
  printf "%s\t%s\t%s\trc=%s\tconcrete=%s\n" "$name" "$prop" "$status" "$rc" "$concrete" >> "$out"
done
rm -rf "$W/verif/.build/harness-target" "$W/repo/target"
echo done >> "$out"
