#!/usr/bin/env python3
"""Regenerate harness/src/c16_shapes.txt (the model's shape table as the C16 harness embeds it) from the
Lean model: run after a change to the grammar tables (lean/RedisVerif/Model/Grammar*.lean), then rebuild.
The copy cannot drift silently: `./check C16` compares it line by line with the live model (SH / FA ops)."""
import os
import subprocess
import sys

ROOT = os.path.dirname(os.path.dirname(os.path.abspath(__file__)))
DRIVER = os.path.join(ROOT, "lean", ".lake", "build", "bin", "rvdriver")


def rows(prefix, op):
    out = []
    i = 0
    while True:
        r = subprocess.run([DRIVER, "C16"], input=f"{op} {i}\n", capture_output=True, text=True, check=True).stdout.strip()
        if r == "end":
            return out
        if r == "bad-op" or not r:
            sys.exit(f"driver answered {r!r} for {op} {i}")
        out.append(f"{prefix} {r}")
        i += 1


def main():
    subprocess.run(["lake", "build", "rvdriver"], cwd=os.path.join(ROOT, "lean"), check=True)
    lines = rows("R", "SH R") + rows("L", "SH L") + rows("F", "FA") + rows("H", "HL")
    d = subprocess.run([DRIVER, "C16"], input="DF\n", capture_output=True, text=True, check=True).stdout.strip()
    lines.append("D " + d)
    path = os.path.join(ROOT, "harness", "src", "c16_shapes.txt")
    with open(path, "w") as f:
        f.write("\n".join(lines) + "\n")
    print(f"{path}: {len(lines)} rows")


if __name__ == "__main__":
    main()
