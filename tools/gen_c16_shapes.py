#!/usr/bin/env python3
"""Regenerate harness/src/c16_shapes.txt (the model's shape table as the C16 harness embeds it) AND
lean/RedisVerif/Model/GrammarShapesNF.lean (the same rows as first-order `Grammar.SRow` literals with byte
strings spelled out: the kernel-cheap normal form of the model's table) from the Lean model: run after a change to
the grammar tables (lean/RedisVerif/Model/Grammar*.lean), then rebuild.
Neither copy can drift silently: `./check C16` compares c16_shapes.txt line by line with the live model (SH / FA
ops); Props/C16Src.lean proves `rowsDescribe respRowsNF (shapeRows table)` (and the translator / family / default-arm
counterparts) by kernel evaluation at build time, so a stale normal form does not build."""
import os
import re
import subprocess
import sys

ROOT = os.path.dirname(os.path.dirname(os.path.abspath(__file__)))
DRIVER = os.path.join(ROOT, "lean", ".lake", "build", "bin", "rvdriver")


def rows(prefix, op):
    out = []
    i = 0
    while True:
        r = subprocess.run([DRIVER, "C16"], input=f"{op} {i}\n", capture_output=True, text=True, check=True).stdout.strip()
        if r == "end":
            return out
        if r == "bad-op" or not r:
            sys.exit(f"driver answered {r!r} for {op} {i}")
        out.append(f"{prefix} {r}")
        i += 1


# ---- the rows as Lean `SRow` literals (the same printer as harness/src/c16_shape.rs `lean_row`)

def lbytes(b):
    return "[" + ", ".join(str(c) for c in b) + "]"


def lhex(h):
    if not h.startswith("x") or len(h) % 2 != 1:
        raise ValueError(h)
    return lbytes(bytes.fromhex(h[1:]))


def lword(w):
    return lbytes(w.encode())


def larity(a):
    if a == "any":
        return ".any"
    for pre, ctor in (("even-ge", ".evenAtLeast"), ("odd-ge", ".oddAtLeast"), ("eq", ".exact"), ("ge", ".atLeast")):
        if a.startswith(pre):
            return f"{ctor} {int(a[len(pre):])}"
    if a.startswith("in"):
        lo, hi = a[2:].split("-")
        return f".between {int(lo)} {int(hi)}"
    raise ValueError(a)


def larg(a):
    k, _, e = a.partition("!")
    if k not in ("str", "sds", "int", "u64", "flt", "usz", "kw", "u32", "pos"):
        raise ValueError(a)
    return f"⟨.k .{k}, {'some ' + lhex(e) if e else 'none'}⟩"


def largs(s):
    return "[]" if s == "-" else "[" + ", ".join(larg(a) for a in s.split(",")) + "]"


def ltail(s):
    if s in ("none", "ignore", "raw", "scan"):
        return "." + s
    p = s.split(":")
    if p[0] == "many" and len(p) == 2:
        return f".many {larg(p[1])}"
    if p[0] == "pairs" and len(p) == 3:
        return f".pairs {larg(p[1])} {larg(p[2])}"
    if p[0] == "flags" and len(p) == 4:
        return f".flags {larg(p[1])} {larg(p[2])} {lhex(p[3])}"
    raise ValueError(s)


def lopts(s):
    if s == "-":
        return "[]"
    out = []
    for o in s.split("|"):
        p = o.split(":")
        m = p[2][2:]
        mm = {"-": ".na", "crash": ".crash", "ignore": ".ignore"}.get(m) or f".text {lhex(m)}"
        r = f"some {lhex(p[3][2:])}" if len(p) > 3 else "none"
        out.append(f"⟨{lword(p[0])}, {largs(p[1])}, {mm}, {r}⟩")
    return "[" + ", ".join(out) + "]"


def lunk(s):
    if s == "-":
        return ".na"
    if s == "break":
        return ".brk"
    k, _, h = s.partition(":")
    return f".{k} {lhex(h)}"


def lhexlist(s, sep):
    return "[]" if s in ("-", "") else "[" + ", ".join(lhex(h) for h in s.split(sep)) + "]"


def lcond(s):
    def go(i):
        if s[i] == "(":
            l, i = go(i + 1)
            op = {"&&": ".and", "||": ".or"}[s[i:i + 2]]
            r, i = go(i + 2)
            assert s[i] == ")"
            return f"({op} {l} {r})", i + 1
        if s.startswith("count(", i):
            j = s.index(")", i)
            ws = ", ".join(lword(w) for w in s[i + 6:j].split(","))
            m = re.match(r">(\d+)", s[j + 1:])
            return f"(.countGt [{ws}] {int(m.group(1))})", j + 1 + m.end()
        m = re.match(r"[A-Za-z0-9_-]+", s[i:])
        return f"(.kw {lword(m.group(0))})", i + m.end()
    r, i = go(0)
    assert i == len(s), s
    return r


def lchecks(s):
    if s == "-":
        return "[]"
    parts, cur, d = [], "", 0
    for c in s:
        if c == "(":
            d += 1
        elif c == ")":
            d -= 1
        if c == "|" and d == 0:
            parts.append(cur)
            cur = ""
        else:
            cur += c
    parts.append(cur)
    out = []
    for p in parts:
        c, _, t = p.rpartition(":")
        out.append(f"({lcond(c)}, {lhex(t)})")
    return "[" + ", ".join(out) + "]"


def fields(line):
    return dict(tok.split("=", 1) for tok in line.split(" ") if "=" in tok)


def lrow(line):
    f = fields(line)
    ctors = "[" + ", ".join(lword(c) for c in f["ctor"].split("|") if c) + "]"
    return (f"⟨{lword(f['name'])}, {larity(f['arity'])}, {lhex(f['aerr'])}, {ctors}, {largs(f['slots'])}, {largs(f['opt'])}, "
            f"{ltail(f['tail'])}, {lopts(f['opts'])}, {lunk(f['unk'])}, {lhexlist(f['flits'], ';')}, {lchecks(f['checks'])}⟩")


def lprobe(p):
    if p.startswith("ERR_"):
        return f"(.error {lhex(p[4:])})"
    parts = p[3:].split("_")
    return f"(.ok ({lword(parts[0])}, [{', '.join(lhex(t[1:]) for t in parts[1:])}]))"


def write_nf(lines):
    def body(xs):
        return "[\n" + ",\n".join("  " + x for x in xs) + "\n]"
    resp = [lrow(l[2:]) for l in lines if l.startswith("R ")]
    lua = [lrow(l[2:]) for l in lines if l.startswith("L ")]
    fam = []
    for l in lines:
        if l.startswith("F "):
            f = fields(l[2:])
            fam.append(f"⟨{lword(f['name'])}, {lhex(f['aerr'])}, {lprobe(f['probe'])}⟩")
    d = fields([l for l in lines if l.startswith("D ")][0][2:])
    text = f"""import RedisVerif.Model.GrammarSrc

/-
  M7 / GrammarShapesNF — GENERATED by tools/gen_c16_shapes.py from the Lean model (driver ops SH / FA / DF): the rows of
  `shapeRows table` / `shapeRows luaTable`, the families and the default arms as first-order `SRow` / `SFamily`
  literals with every byte string spelled out.  It is the kernel-cheap normal form of the hand-written tables
  (`String.toList` on a literal costs the kernel milliseconds per character; a list of numerals costs nothing):
  `Props/C16Src.lean` proves ONCE, at build time, that these literals describe the hand-written tables
  (`respRowsNF_describes` …), and the tables regenerated from the source on every run are then compared with the
  literals (equality of literals: seconds).  Do not edit; regenerate after a change to the grammar tables.
-/
namespace RedisVerif.Grammar

def respRowsNF : List SRow := {body(resp)}

def luaRowsNF : List SRow := {body(lua)}

def familiesNF : List SFamily := {body(fam)}

def respDefaultNF : Except Bytes (Bytes × List Bytes) := {lprobe(d['resp'])}
def luaDefaultNF : Except Bytes (Bytes × List Bytes) := {lprobe(d['lua'])}

end RedisVerif.Grammar
"""
    path = os.path.join(ROOT, "lean", "RedisVerif", "Model", "GrammarShapesNF.lean")
    with open(path, "w") as f:
        f.write(text)
    print(f"{path}: {len(resp)} + {len(lua)} rows, {len(fam)} families")


def main():
    subprocess.run(["lake", "build", "rvdriver"], cwd=os.path.join(ROOT, "lean"), check=True)
    lines = rows("R", "SH R") + rows("L", "SH L") + rows("F", "FA") + rows("H", "HL")
    d = subprocess.run([DRIVER, "C16"], input="DF\n", capture_output=True, text=True, check=True).stdout.strip()
    lines.append("D " + d)
    path = os.path.join(ROOT, "harness", "src", "c16_shapes.txt")
    with open(path, "w") as f:
        f.write("\n".join(lines) + "\n")
    print(f"{path}: {len(lines)} rows")
    write_nf(lines)


if __name__ == "__main__":
    main()
