#!/bin/bash
# Run quick checks against ONE patch on a private clone pair (leaves /repo and /verif alone):
#   tools/seed_test_clone.sh <slot> <patch.diff> <prop> [<prop>...]
# slot = name of the clone pair /work/seedtest-<slot> (created on first use from /repo HEAD and
# /verif HEAD + uncommitted changes of /verif's working tree are NOT included; re-synced with
# `git pull` on every call).  Prints one line per property: CAUGHT / CAUGHT-NO-INPUT / MISSED.
slot=$1; patch=$(realpath "$2"); shift 2
W=/work/seedtest-$slot
if [ ! -d "$W/verif" ]; then
  mkdir -p "$W"; git clone -q /repo "$W/repo"; git clone -q /verif "$W/verif"
  cp -r /verif/.build "$W/verif/.build" 2>/dev/null; rm -rf "$W/verif/.build/run" "$W/verif/.build/logs"
  mkdir -p "$W/verif/lean/.lake"; cp -r /verif/lean/.lake/. "$W/verif/lean/.lake/"
fi
git -C "$W/repo" checkout -q -- . ; git -C "$W/repo" pull -q 2>/dev/null
git -C "$W/verif" checkout -q -- . ; git -C "$W/verif" pull -q 2>/dev/null
sed -i "s#path = \"/repo\"#path = \"$W/repo\"#" "$W/verif/harness/Cargo.toml"
git -C "$W/repo" apply "$patch" 2>/dev/null || git -C "$W/repo" apply --3way "$patch" || { echo "patch does not apply"; exit 2; }
cd "$W/verif"
for prop in "$@"; do
  log=$W/$(basename $(dirname $(dirname "$patch")))-$(basename $(dirname "$patch"))-$prop.log
  ./check "$prop" --tier quick > "$log" 2>&1; rc=$?
  v=$(grep -c '^VIOLATION' "$log"); nfi=$(grep -c 'no-failing-input-found' "$log")
  st=CAUGHT; if [ "$rc" -eq 0 ] || [ "$v" -eq 0 ]; then st=MISSED; elif [ "$nfi" -gt 0 ]; then st=CAUGHT-NO-INPUT; fi
  echo "$prop $st rc=$rc log=$log"
  grep -m3 'impl-violates-property\|model-disagreement\|proof-obligation' "$log" | cut -c1-300
done
git -C "$W/repo" checkout -q -- .
