#!/usr/bin/env python3
"""Regenerates MANIFEST.json from tools/props.py + tools/manifest_meta.py (keeps it valid)."""
import json, os, sys
ROOT = os.path.dirname(os.path.dirname(os.path.abspath(__file__)))
sys.path.insert(0, os.path.join(ROOT, "tools"))
from props import PROPS
from manifest_meta import NOT_APPLICABLE, HOOK_COMMITS

checks = []
for pid in sorted(PROPS):
    m = PROPS[pid]["manifest"]
    checks.append({
        "property_id": pid,
        "quick_cmd": f"./check {pid} --tier quick",
        "thorough_cmd": f"./check {pid} --tier thorough",
        "evidence_file": f"/verif/evidence/{pid}.json",
        "replay_cmd_template": f"./check {pid} --replay {{path}}",
        "engine": "lean4-proof+correspondence",
        "level_claimed": {"category": "proof", "text": m["text"], "design_ref": m["design_ref"]},
        "level_note": m["note"],
        "technique": m["technique"],
    })
manifest = {
    "version": 1,
    "setup_cmd": "./setup.sh",
    "hooks": {
        "guard": "--cfg redis_rust_verif",
        "enable": "harness/.cargo/config.toml sets [build] rustflags = [\"--cfg\", \"redis_rust_verif\"]; the harness crate has a path dependency on /repo, so /repo's library is rebuilt from its current working tree with the hooks on",
        "baseline_off_cmd": "cd /repo && RUSTC_WRAPPER= cargo nextest run --workspace --no-fail-fast --tool-config-file pb:/w/lib/nextest.toml --profile pb --test-threads 8 --offline || (cd /repo && RUSTC_WRAPPER= cargo test --workspace --no-fail-fast --offline)",
        "source_commits": HOOK_COMMITS,
        "add_only": True,
    },
    "engines": [{
        "name": "lean4-proof+correspondence",
        "path": "/verif/check",
        "serves_properties": sorted(PROPS),
        "kind_free_text": "Lean 4 theorems about hand-written executable models (lean/RedisVerif) + differential correspondence check between the models (compiled driver rvdriver) and the real code called in-process (harness/, Rust) + direct property oracle on the real code as failing-input search",
    }],
    "checks": checks,
    "not_applicable": NOT_APPLICABLE(PROPS),
    "notes": "See DESIGN.md. known_findings.json lists recorded genuine defects (by failing-case signature) and fixed ones.",
}
json.dump(manifest, open(os.path.join(ROOT, "MANIFEST.json"), "w"), indent=1)
print("MANIFEST.json:", len(checks), "checks,", len(manifest["not_applicable"]), "not applicable")
