#!/usr/bin/env python3
"""tools/adopt_seed.py <srcdir> <slug> <round> : copy a CONFIRMED seeded change (patch.diff, demo,
meta.json written by the seeding agent, confirm-*.log written by tools/confirm_seed.sh) into
seeded/<Cxx>-<slug>/ and extend meta.json with the confirmation record."""
import json, os, shutil, sys, glob, subprocess, re
src, slug, rnd = sys.argv[1], sys.argv[2], int(sys.argv[3])
meta = json.load(open(os.path.join(src, "meta.json")))
pid = meta["property"]
dst = os.path.join(os.path.dirname(os.path.dirname(os.path.abspath(__file__))), "seeded", f"{pid}-{slug}")
os.makedirs(dst, exist_ok=True)
shutil.copy(os.path.join(src, "patch.diff"), dst)
for f in glob.glob(os.path.join(src, "seeded_demo*.rs")):
    shutil.copy(f, dst)
suite = ""
p = os.path.join(src, "confirm-suite.log")
if os.path.exists(p):
    m = [l for l in open(p, errors="replace") if "Summary" in l]
    suite = m[-1].strip() if m else ""
head = subprocess.check_output(["git", "-C", "/repo", "rev-parse", "--short", "HEAD"], text=True).strip()
out = {
    "property": pid,
    "title": meta.get("title", ""),
    "needs_to_manifest": meta.get("needs_to_manifest", ""),
    "files_changed": meta.get("files_changed", []),
    "agent_ran": meta.get("what_i_ran", ""),
    "what_i_ran": f"confirmed by me with tools/confirm_seed.sh in a scratch worktree of /repo at {head}: the demonstration "
                  f"PASSES without patch.diff, FAILS with it; `cargo nextest run --workspace --no-fail-fast --offline` with the patch "
                  f"(demo excluded): {suite or 'see confirm-suite.log'}; then the patch was applied to a private clone pair "
                  f"(tools/seed_test_clone.sh) / the builders' clones and the checks run",
    "caught_by": {},
    "base_commit_of_repo": head,
    "round": rnd,
}
json.dump(out, open(os.path.join(dst, "meta.json"), "w"), indent=1, ensure_ascii=False)
print(dst)
