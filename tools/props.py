"""Per-property configuration of ./check (which theorem modules are the proof obligations,
how many correspondence cases per tier, trusted base, assumptions)."""

KERNEL = "Lean 4.33.0 kernel; axioms per theorem audited by #print axioms ⊆ {propext, Classical.choice, Quot.sound}; no sorry/admit/axiom/native_decide/bv_decide"
TIE = "correspondence harness rvharness (Rust, in-process calls into /repo's current tree) + line protocol + compiled Lean driver rvdriver (Lean compiler/C toolchain trusted to evaluate model definitions as the kernel would)"

PROPS = {
    "C07": {
        "prop_modules": ["RedisVerif.Props.C07"],
        "required_theorems": [
            "RedisVerif.C07.rv_merge_idem", "RedisVerif.C07.rv_merge_comm",
            "RedisVerif.C07.rv_merge_assoc_partial", "RedisVerif.C07.rv_merge_wf",
            "RedisVerif.C07.assoc_cross_kind_counterexample", "RedisVerif.C07.C07_assoc_false",
            "RedisVerif.C07.obs_comm", "RedisVerif.C07.obs_idem", "RedisVerif.C07.obs_assoc_partial",
        ],
        "n_quick": 3000,
        "n_thorough": 300000,
        "trusted_base": [
            KERNEL, TIE,
            "model M1 (lean/RedisVerif/Model/Crdt.lean) is hand-written; HashMap/HashSet are modelled as canonical sorted Nat-keyed lists with keys injectively encoded by the driver",
            "serde (serde_json) is used by the harness to build and read back real ReplicatedValues, including private fields",
        ],
        "assumptions": [
            "commutativity is claimed for tie-consistent pairs only (decidable predicate TieConsistent; discharged for reachable values by the C08 invariant)",
            "associativity is proved for same-kind triples; cross-kind triples are a known finding (C07:assoc:cross-kind:crdt)",
            "u64 overflow of counters / Lamport times is not modelled (Nat)",
        ],
    },
}
