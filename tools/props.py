"""Per-property configuration of ./check: one JSON file per claimed property in tools/props/.
Fields: prop_modules (Lean theorem modules = proof obligations), required_theorems,
n_quick / n_thorough (correspondence cases), timeout, trusted_base, assumptions,
manifest {text, design_ref, note, technique}."""
import glob
import json
import os

KERNEL = "Lean 4.33.0 kernel; axioms per theorem audited by #print axioms ⊆ {propext, Classical.choice, Quot.sound}; no sorry/admit/axiom/native_decide/bv_decide"
TIE = "correspondence harness rvharness (Rust, in-process calls into /repo's current tree) + line protocol + compiled Lean driver rvdriver (Lean compiler/C toolchain trusted to evaluate model definitions as the kernel would)"

PROPS = {}
for _f in sorted(glob.glob(os.path.join(os.path.dirname(os.path.abspath(__file__)), "props", "C*.json"))):
    _c = json.load(open(_f))
    _c["trusted_base"] = [KERNEL, TIE] + _c.get("trusted_base", [])
    PROPS[os.path.basename(_f)[:-5]] = _c
