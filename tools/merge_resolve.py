#!/usr/bin/env python3
"""Resolve the registry-file conflicts of merging a builder branch: additive files keep both
sides; known_findings.json is merged structurally (ours wins on equal signatures, entries that
were removed on main — i.e. fixed — stay removed if listed in `fixed` by signature text);
MANIFEST.json is regenerated."""
import json, re, subprocess, sys, os
ROOT = os.path.dirname(os.path.dirname(os.path.abspath(__file__)))

def both_sides(path):
    s = open(path).read()
    out, i = [], 0
    lines = s.split("\n")
    mode = None
    ours, theirs = [], []
    for ln in lines:
        if ln.startswith("<<<<<<< "):
            mode = "ours"; ours, theirs = [], []
        elif ln.startswith("=======") and mode == "ours":
            mode = "theirs"
        elif ln.startswith(">>>>>>> ") and mode == "theirs":
            mode = None
            seen = set()
            for x in ours + theirs:
                if x.strip() == "" or x not in seen:
                    out.append(x)
                seen.add(x)
        elif mode == "ours":
            ours.append(ln)
        elif mode == "theirs":
            theirs.append(ln)
        else:
            out.append(ln)
    open(path, "w").write("\n".join(out))

def git_show(stage, path):
    return subprocess.check_output(["git", "show", f":{stage}:{path}"], cwd=ROOT, text=True)

def merge_findings():
    """3-way by signature: keep what either side has, drop what either side removed since base"""
    p = "known_findings.json"
    ours = json.loads(git_show(2, p)); theirs = json.loads(git_show(3, p)); base = json.loads(git_show(1, p))
    base_sigs = {f["signature"] for f in base["findings"]}
    our_sigs = {f["signature"] for f in ours["findings"]}
    their_sigs = {f["signature"] for f in theirs["findings"]}
    removed = (base_sigs - our_sigs) | (base_sigs - their_sigs)
    res = dict(ours)
    res["findings"] = [f for f in ours["findings"] if f["signature"] not in removed]
    for f in theirs["findings"]:
        if f["signature"] in our_sigs or f["signature"] in removed:
            continue
        res["findings"].append(f)
    for x in theirs.get("fixed", []):
        if x not in res["fixed"]:
            res["fixed"].append(x)
    json.dump(res, open(os.path.join(ROOT, p), "w"), indent=1, ensure_ascii=False)

conf = subprocess.check_output(["git", "diff", "--name-only", "--diff-filter=U"], cwd=ROOT, text=True).split()
for f in conf:
    if f in ("lean/Main.lean", "lean/RedisVerif.lean", "harness/src/main.rs", ".gitignore"):
        both_sides(os.path.join(ROOT, f)); print("both sides:", f)
    elif f == "known_findings.json":
        merge_findings(); print("merged:", f)
    elif f == "MANIFEST.json" or f.startswith("evidence/"):
        subprocess.run(["git", "checkout", "--ours", f], cwd=ROOT); print("ours (regenerated later):", f)
    else:
        print("UNRESOLVED:", f)
