#!/bin/bash
# Regression run over every seeded change under /verif/seeded: apply the patch to /repo, run the
# check of the property the change was aimed at, expect exit 1 + a VIOLATION line (and, unless
# ALLOW_NFI=1, no `no-failing-input-found`), undo the patch straight afterwards.
# Usage: tools/run_all_seeds.sh [filter-regex]        (results: .build/seed-regression.tsv)
# /repo must be clean when this starts; evidence files are restored from git at the end.
cd "$(dirname "$0")/.." || exit 2
filter="${1:-.}"
out=.build/seed-regression.tsv
mkdir -p .build
: > "$out"
[ -z "$(git -C /repo status --short)" ] || { echo "/repo is not clean"; exit 2; }
fail=0
for d in seeded/*/; do
  name=$(basename "$d")
  echo "$name" | grep -Eq "$filter" || continue
  prop=${name%%-*}
  patch="$d/patch.diff"
  git -C /repo apply --check "/verif/$patch" 2>/dev/null || {
    # a later fix: commit rewrote the code under the patch; a refreshed patch may sit next to it
    alt=$(ls "$d"/patch-on-*.diff 2>/dev/null | tail -n 1)
    if [ -n "$alt" ] && git -C /repo apply --check "/verif/$alt" 2>/dev/null; then patch="$alt"
    else printf "%s\t%s\tNOT-APPLICABLE\n" "$name" "$prop" | tee -a "$out"; continue; fi
  }
  git -C /repo apply "/verif/$patch"
  log=.build/seedrun-$name.log
  ./check "$prop" > "$log" 2>&1
  rc=$?
  git -C /repo checkout -- .
  v=$(grep -c '^VIOLATION' "$log")
  nfi=$(grep -c 'no-failing-input-found' "$log")
  concrete=$(grep -c 'impl-violates-property' "$log")
  status=CAUGHT
  if [ "$rc" -eq 0 ] || [ "$v" -eq 0 ]; then status=MISSED; fail=1
  elif [ "$nfi" -gt 0 ] && [ "${ALLOW_NFI:-0}" != 1 ]; then status=CAUGHT-NO-INPUT; fail=1; fi
  printf "%s\t%s\t%s\trc=%s\tconcrete=%s\n" "$name" "$prop" "$status" "$rc" "$concrete" | tee -a "$out"
done
git checkout -- evidence 2>/dev/null
[ -z "$(git -C /repo status --short)" ] || { echo "/repo left dirty!"; exit 2; }
exit $fail
