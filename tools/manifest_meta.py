"""Human-written parts of MANIFEST.json, per property."""

HOOK_COMMITS = []

META = {
    "C07": {
        "text": "Machine-checked Lean 4 theorems about the model of ReplicatedValue::merge (all six CRDT kinds, outer stamp, expiry, vector clock, rf): idempotence for every well-formed value, commutativity for every tie-consistent pair (incl. cross-kind, tombstones, equal times from different replicas), associativity for same-kind triples; the full associativity statement is refuted by a kernel-checked counterexample (known finding). No bound on map sizes, stamps or payloads. The model is tied to /repo on every run by a differential correspondence check against the real merge on generated values (reachable through ShardReplicaState ops + delivery, boundary stamps, CRDT API, nested merges).",
        "design_ref": "DESIGN.md §4 C07, §3 M1",
        "note": "Trusted: Lean kernel; hand-written model M1 + correspondence harness (differential testing, bounded by generator quality); serde for reading private fields. Commutativity needs TieConsistent (decidable; reachable values satisfy it when C08 holds). Cross-kind associativity is a recorded known finding.",
        "technique": "Lean 4 proof (algebraic laws via extensionality of canonical sorted maps) + model/implementation correspondence check",
    },
}

_NA = {
    "C20": "Reproducibility relates two runs of the Rust harnesses whose only possible difference is hidden process state (RandomState seeds, wall clock, scheduling); a Lean model is a pure function of (seed, config), so the theorem would be true for the wrong reason and no code change could break it — see DESIGN.md §7.",
}

_PENDING = "not yet claimed in this revision: model + theorems + correspondence for it are still being built (DESIGN.md §4 gives the planned theorem); no check is registered, so nothing is asserted about it"


def NOT_APPLICABLE(props):
    out = []
    for i in range(1, 21):
        pid = f"C{i:02d}"
        if pid in props:
            continue
        out.append({"property_id": pid, "reason": _NA.get(pid, _PENDING)})
    return out
