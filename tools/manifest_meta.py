"""Human-written parts of MANIFEST.json, per property."""

HOOK_COMMITS = ["7cfbf74", "a872241", "857830e", "501693b"]

_NA = {
}

_PENDING = "not yet claimed in this revision: model + theorems + correspondence for it are still being built (DESIGN.md §4 gives the planned theorem); no check is registered, so nothing is asserted about it"


def NOT_APPLICABLE(props):
    out = []
    for i in range(1, 21):
        pid = f"C{i:02d}"
        if pid in props:
            continue
        out.append({"property_id": pid, "reason": _NA.get(pid, _PENDING)})
    return out
