#!/bin/bash
# Measures which lines of /repo/src the correspondence harness actually executes (per property and
# in total): the tie between the Lean models and the code is differential, so what the tie can see
# is bounded by what the harness drives — this makes that bound a measured number instead of a
# claim. Not a check (needs the nightly toolchain's llvm-tools; never part of MANIFEST commands).
#   tools/tie_coverage.sh [scratch-dir]      → .build/tie-coverage/{summary.tsv,uncovered/<file>.txt}
set -e
ROOT="$(cd "$(dirname "$0")/.." && pwd)"
W="${1:-/work/cov}"
TOOLS=$(dirname "$(rustc +nightly --print target-libdir)")/bin
mkdir -p "$W" && rm -rf "$W/harness" "$W/prof" "$W/run" && cp -r "$ROOT/harness" "$W/harness"
cat > "$W/harness/.cargo/config.toml" <<EOC
[net]
offline = true
[build]
rustflags = ["--cfg", "redis_rust_verif", "-C", "instrument-coverage"]
target-dir = "$W/target"
EOC
(cd "$W/harness" && cargo +nightly build --release --offline -j 8)
B="$W/target/release/rvharness"
mkdir -p "$W/prof" "$W/run" "$ROOT/.build/tie-coverage"
for p in $(cd "$ROOT/tools/props" && ls C*.json | sed 's/.json//'); do
  n=$(python3 -c "import json;print(json.load(open('$ROOT/tools/props/$p.json'))['n_quick'])")
  ( LLVM_PROFILE_FILE="$W/prof/$p-%p-%m.profraw" timeout 1500 "$B" "$p" --seed 1 --n "$n" --out "$W/run/$p" --tier quick > "$W/run/$p.log" 2>&1 || echo "$p harness rc=$?" ) &
  while [ "$(jobs -r | wc -l)" -ge 6 ]; do sleep 1; done
done
wait
out="$ROOT/.build/tie-coverage"
: > "$out/per-property.tsv"
for p in $(cd "$ROOT/tools/props" && ls C*.json | sed 's/.json//'); do
  ls "$W/prof/$p-"*.profraw >/dev/null 2>&1 || continue
  "$TOOLS/llvm-profdata" merge -sparse "$W/prof/$p-"*.profraw -o "$W/prof/$p.profdata"
  "$TOOLS/llvm-cov" export "$B" -instr-profile="$W/prof/$p.profdata" -summary-only -ignore-filename-regex='(\.cargo|rustc|/verif/|/work/cov/harness)' > "$W/prof/$p.json"
done
"$TOOLS/llvm-profdata" merge -sparse "$W/prof/"*.profraw -o "$W/prof/all.profdata"
"$TOOLS/llvm-cov" export "$B" -instr-profile="$W/prof/all.profdata" -format=lcov -ignore-filename-regex='(\.cargo|rustc|/verif/|/work/cov/harness)' > "$W/prof/all.lcov"
python3 "$ROOT/tools/tie_coverage_report.py" "$W/prof" "$out"
