#!/usr/bin/env python3
"""Regenerate the two tables of DESIGN.md section 10 that mirror known_findings.json:
   10.2 (fixed entries) and 10.2b (findings per property).  Everything between the
   `<!-- gen:fixed -->` / `<!-- gen:findings -->` markers and their `<!-- /gen -->` is rewritten."""
import json, re, os
ROOT = os.path.dirname(os.path.dirname(os.path.abspath(__file__)))
kf = json.load(open(os.path.join(ROOT, "known_findings.json")))

def esc(s):
    return s.replace("|", "\\|")

rows = []
for line in kf["fixed"]:
    m = re.match(r"fixed: property=(C\d\d) (\S+) (.*)$", line)
    if not m:
        continue
    what = m.group(3)
    if len(what) > 330:
        what = what[:327] + "…"
    rows.append("| %s | %s | %s |" % (m.group(1), m.group(2), esc(what)))
fixed = ("%d entries (a commit may cover several signatures); the pinned 691-test suite passes "
         "unedited on /repo main with all of them. Full text: `known_findings.json` → `fixed`.\n\n"
         "| property | commit | what failed |\n|----------|--------|-------------|\n" % len(rows)
         + "\n".join(rows) + "\n")

byp = {}
for f in kf["findings"]:
    byp.setdefault(f["property"], []).append(f["signature"])
findings = "\n".join("* **%s**: %s" % (p, ", ".join("`%s`" % s for s in byp[p])) for p in sorted(byp)) + "\n"

p = os.path.join(ROOT, "DESIGN.md")
t = open(p).read()
for tag, body in (("fixed", fixed), ("findings", findings)):
    pat = re.compile(r"(<!-- gen:%s -->\n).*?(<!-- /gen -->)" % tag, re.S)
    assert pat.search(t), "marker gen:%s missing in DESIGN.md" % tag
    t = pat.sub(lambda m: m.group(1) + body + m.group(2), t)
open(p, "w").write(t)
print("DESIGN.md: %d fixed rows, %d findings in %d properties" % (len(rows), len(kf["findings"]), len(byp)))
