#!/usr/bin/env python3
"""Regenerate the two tables of DESIGN.md section 10 that mirror known_findings.json:
   10.2 (fixed entries) and 10.2b (findings per property).  Everything between the
   `<!-- gen:fixed -->` / `<!-- gen:findings -->` markers and their `<!-- /gen -->` is rewritten."""
import json, re, os
ROOT = os.path.dirname(os.path.dirname(os.path.abspath(__file__)))
kf = json.load(open(os.path.join(ROOT, "known_findings.json")))

def esc(s):
    return s.replace("|", "\\|")

rows = []
for line in kf["fixed"]:
    m = re.match(r"fixed: property=(C\d\d) (\S+) (.*)$", line)
    if not m:
        continue
    what = m.group(3)
    if len(what) > 330:
        what = what[:327] + "…"
    rows.append("| %s | %s | %s |" % (m.group(1), m.group(2), esc(what)))
fixed = ("%d entries (a commit may cover several signatures); the pinned 691-test suite passes "
         "unedited on /repo main with all of them. Full text: `known_findings.json` → `fixed`.\n\n"
         "| property | commit | what failed |\n|----------|--------|-------------|\n" % len(rows)
         + "\n".join(rows) + "\n")

byp = {}
for f in kf["findings"]:
    byp.setdefault(f["property"], []).append(f["signature"])
findings = "\n".join("* **%s**: %s" % (p, ", ".join("`%s`" % s for s in byp[p])) for p in sorted(byp)) + "\n"

import glob
def seed_table(rnd):
    rows = []
    for m in sorted(glob.glob(os.path.join(ROOT, "seeded", "*", "meta.json"))):
        d = json.load(open(m))
        if d.get("round", 1) != rnd:
            continue
        name = os.path.basename(os.path.dirname(m))
        caught = "; ".join("`./check %s`: %s" % (k, v) for k, v in d["caught_by"].items())
        rows.append("| `%s`: %s | %s | %s | %s |" % (name, esc(d["title"]), d["property"],
                    esc(d["needs_to_manifest"]), esc(caught)))
    return ("| seeded change | breaks | needs | caught by |\n|---|---|---|---|\n" + "\n".join(rows) + "\n", len(rows))

p = os.path.join(ROOT, "DESIGN.md")
t = open(p).read()
s2, n2 = seed_table(2)
s3, n3 = seed_table(3)
s4, n4 = seed_table(4)
s5, n5 = seed_table(5)
for tag, body in (("fixed", fixed), ("findings", findings), ("seeds2", s2), ("seeds3", s3), ("seeds4", s4), ("seeds5", s5)):
    pat = re.compile(r"(<!-- gen:%s -->\n).*?(<!-- /gen -->)" % tag, re.S)
    assert pat.search(t), "marker gen:%s missing in DESIGN.md" % tag
    t = pat.sub(lambda m: m.group(1) + body + m.group(2), t)
open(p, "w").write(t)
print("DESIGN.md: seeds round2=%d round3=%d round4=%d round5=%d;" % (n2, n3, n4, n5), end=" ")
print("%d fixed rows, %d findings in %d properties" % (len(rows), len(kf["findings"]), len(byp)))
