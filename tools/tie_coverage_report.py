#!/usr/bin/env python3
"""Turns the llvm-cov output of tools/tie_coverage.sh into (1) summary.tsv: per source file of the
repository — lines instrumented, lines executed by ANY property's harness, which properties anchor
the file (properties.jsonl) and which properties' harness runs execute it most; (2) uncovered/:
for every anchored file the uncovered line ranges with the enclosing fn name, i.e. the code of a
property's anchors that the model/implementation tie never sees."""
import json, os, re, sys, glob, collections
prof, out = sys.argv[1], sys.argv[2]
ROOT = os.path.dirname(os.path.dirname(os.path.abspath(__file__)))
anch = collections.defaultdict(set)
for l in open(os.path.join(ROOT, "properties.jsonl")):
    p = json.loads(l)
    for f in p.get("anchors", {}).get("files", []):
        anch[f].add(p["id"])
# per-property file summaries
perprop = collections.defaultdict(dict)
for jf in glob.glob(os.path.join(prof, "C??.json")):
    pid = os.path.basename(jf)[:-5]
    d = json.load(open(jf))
    for f in d["data"][0]["files"]:
        name = f["filename"]
        m = re.search(r"/(src/.*)$", name)
        if not m: continue
        s = f["summary"]["lines"]
        perprop[m.group(1)][pid] = (s["covered"], s["count"])
# total, from lcov
files = {}
cur = None
for l in open(os.path.join(prof, "all.lcov")):
    l = l.strip()
    if l.startswith("SF:"):
        m = re.search(r"/(src/.*)$", l[3:]); cur = m.group(1) if m else None
        if cur: files[cur] = {"path": l[3:], "lines": {}}
    elif l.startswith("DA:") and cur:
        a, b = l[3:].split(",")[:2]; files[cur]["lines"][int(a)] = int(b)
os.makedirs(os.path.join(out, "uncovered"), exist_ok=True)
rows = []
for f, d in sorted(files.items()):
    tot = len(d["lines"]); cov = sum(1 for v in d["lines"].values() if v > 0)
    best = sorted(((c, p) for p, (c, n) in perprop.get(f, {}).items() if c), reverse=True)[:4]
    rows.append((f, tot, cov, ",".join(sorted(anch.get(f, []))), " ".join(f"{p}:{c}" for c, p in best)))
    if f in anch and tot:
        src = open(d["path"], errors="replace").read().split("\n")
        unc = sorted(n for n, v in d["lines"].items() if v == 0)
        # group into ranges, name the enclosing fn
        rngs = []
        for n in unc:
            if rngs and n <= rngs[-1][1] + 1: rngs[-1][1] = n
            else: rngs.append([n, n])
        def fn_of(n):
            for i in range(min(n, len(src)) - 1, -1, -1):
                m = re.match(r"\s*(?:pub(?:\([^)]*\))?\s+)?(?:async\s+)?(?:const\s+)?(?:unsafe\s+)?fn\s+(\w+)", src[i])
                if m: return m.group(1)
                if re.match(r"\s*#\[cfg\(test\)\]", src[i]): return "#[cfg(test)]"
            return "?"
        with open(os.path.join(out, "uncovered", f.replace("/", "__") + ".txt"), "w") as w:
            w.write(f"# {f}: {cov}/{tot} lines executed by the harness; anchors of {sorted(anch[f])}\n")
            byfn = collections.OrderedDict()
            for a, b in rngs:
                byfn.setdefault(fn_of(a), []).append((a, b))
            for fn, rs in byfn.items():
                w.write(f"{fn}: " + " ".join(f"{a}-{b}" if a != b else str(a) for a, b in rs) + "\n")
with open(os.path.join(out, "summary.tsv"), "w") as w:
    w.write("file\tlines\texecuted\tpct\tanchored_by\ttop_harness_runs\n")
    for f, tot, cov, a, best in rows:
        w.write(f"{f}\t{tot}\t{cov}\t{(100*cov//tot) if tot else 0}\t{a}\t{best}\n")
at = sum(r[1] for r in rows if r[3]); ac = sum(r[2] for r in rows if r[3])
tt = sum(r[1] for r in rows); tc = sum(r[2] for r in rows)
print(f"anchored files: {ac}/{at} lines executed ({100*ac//max(at,1)}%); whole src: {tc}/{tt} ({100*tc//max(tt,1)}%)")
