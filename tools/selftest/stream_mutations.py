# Session-3 self-test mutations for C11 / C12 / C13 (one site each; all caught, see DESIGN §4).
# Usage: git clone /repo /work/mut-stream; point harness/Cargo.toml at it; python3 tools/selftest/stream_mutations.py A1 A2 …
# (A*: C12 thresholds / pipeline / LocalFs / manifest fields; B*: config copy, C13 threshold, C11 entry points; C*: shutdown flush,
#  compact_if_needed error mapping, mailbox capacity constant, a new pub fn)
import sys,subprocess
R='/work/mut-stream'
def sub(path, old, new, nth=1):
    p=f'{R}/{path}'
    s=open(p).read()
    idx=-1
    for _ in range(nth):
        idx=s.index(old, idx+1)
    s=s[:idx]+new+s[idx+len(old):]
    open(p,'w').write(s)
M={
 'A1': lambda: sub('src/streaming/persistence.rs','if self.buffer.len() >= self.config.max_deltas {','if self.buffer.len() > self.config.max_deltas {'),
 'A2': lambda: sub('src/streaming/integration.rs','    if !remaining.is_empty() {\n        actor_handle.push_deltas(remaining);','    if false && !remaining.is_empty() {\n        actor_handle.push_deltas(remaining);'),
 'A3': lambda: sub('src/streaming/write_buffer.rs','if inner.deltas.len() >= self.config.max_deltas {','if inner.deltas.len() > self.config.max_deltas {'),
 'A4': lambda: sub('src/streaming/object_store.rs','Err(e) if e.kind() == ErrorKind::NotFound => Ok(()), // Already deleted','Err(e) if e.kind() == ErrorKind::NotFound => Err(e),'),
 'A5': lambda: sub('src/streaming/persistence.rs','            .map(|d| d.value.timestamp.time)\n            .min()','            .map(|d| d.value.timestamp.time)\n            .max()'),
 'B1': lambda: (sub('src/streaming/integration.rs','min_segments_to_compact: self.config.compaction.min_segments_to_compact,','min_segments_to_compact: self.config.compaction.max_segments_per_compaction,'), sub('src/streaming/integration.rs','max_segments_per_compaction: self.config.compaction.max_segments_per_compaction,','max_segments_per_compaction: self.config.compaction.min_segments_to_compact,')),
 'B2': lambda: sub('src/streaming/compaction.rs','Ok(manifest.segments.len() >= self.config.max_segments)','Ok(manifest.segments.len() > self.config.max_segments)'),
 'B3': lambda: sub('src/streaming/recovery.rs','segments_to_load.sort_by_key(|s| s.min_timestamp);','segments_to_load.sort_by_key(|s| s.max_timestamp);',2),
 'B4': lambda: sub('src/streaming/manifest.rs','        manifest.add_segment(info);\n        self.save(&manifest).await?;','        manifest.add_segment(info);'),
 'B5': lambda: sub('src/streaming/checkpoint.rs','if elapsed_ms < interval_ms {','if elapsed_ms <= interval_ms {'),
 'B6': lambda: sub('src/streaming/persistence.rs','if self.buffer_size >= self.config.backpressure_threshold_bytes {','if self.buffer_size > self.config.backpressure_threshold_bytes {'),
 'C1': lambda: sub('src/streaming/integration.rs','                    if let Err(e) = self.persistence.flush().await {\n                        error!("Failed final flush: {}", e);','                    if let Err(e) = Ok::<(), String>(()) {\n                        error!("Failed final flush: {}", e);'),
 'C2': lambda: sub('src/streaming/compaction.rs','                Err(CompactionError::NothingToCompact) => Ok(None),','                Err(CompactionError::NothingToCompact) => Err(CompactionError::NothingToCompact),'),
 'C3': lambda: sub('src/streaming/integration.rs','const PERSISTENCE_CHANNEL_CAPACITY: usize = 10_000;','const PERSISTENCE_CHANNEL_CAPACITY: usize = 9_000;'),
 'C4': lambda: sub('src/streaming/persistence.rs','    /// Get pending delta count\n','    /// Take everything that is buffered\n    pub fn drain_buffer(&mut self) -> Vec<ReplicationDelta> {\n        self.buffer_size = 0;\n        std::mem::take(&mut self.buffer)\n    }\n\n    /// Get pending delta count\n'),
}
subprocess.run(['git','-C',R,'checkout','-q','.'],check=True)
for m in sys.argv[1:]:
    M[m]()
print(subprocess.run(['git','-C',R,'diff','--stat'],capture_output=True,text=True).stdout)
