#!/bin/bash
# Regression of a list of patches against the property checks on a PRIVATE clone pair:
#   tools/patch_regress_clone.sh <slot> <listfile>
# listfile: one line per job "<name> <patch-file> <prop> [<prop>...]".  For every job the patch is
# applied (plain, then --3way) to a clone of /repo HEAD, every named property's quick check runs on a
# clone of /verif HEAD pointed at it, the patch is reverted.  Result lines in /work/pregress-<slot>/result.tsv:
#   <name> <prop> rc=<rc> violations=<n> nfi=<n> concrete=<n>
# (seeded changes are expected to give rc=1 with concrete>0, harmless rewrites rc=0 / violations=0).
slot=$1; list=$(realpath "$2")
W=/work/pregress-$slot
rm -rf "$W"; mkdir -p "$W"
git clone -q /repo "$W/repo" || exit 2
git clone -q /verif "$W/verif" || exit 2
cp -r /verif/.build "$W/verif/.build" 2>/dev/null; rm -rf "$W/verif/.build/run" "$W/verif/.build/logs"
mkdir -p "$W/verif/lean/.lake"; cp -r /verif/lean/.lake/. "$W/verif/lean/.lake/"
sed -i "s#path = \"/repo\"#path = \"$W/repo\"#" "$W/verif/harness/Cargo.toml"
cd "$W/verif" || exit 2
out=$W/result.tsv; : > "$out"
while read -r name patch props; do
  [ -z "$name" ] && continue
  git -C "$W/repo" apply "$patch" 2>/dev/null || git -C "$W/repo" apply --3way "$patch" 2>/dev/null || { echo "$name - NOT-APPLICABLE" >> "$out"; git -C "$W/repo" reset -q --hard HEAD; git -C "$W/repo" clean -qfd src; continue; }
  for prop in $props; do
    log=$W/$name-$prop.log
    ./check "$prop" --tier quick > "$log" 2>&1; rc=$?
    echo "$name $prop rc=$rc violations=$(grep -c '^VIOLATION' "$log") nfi=$(grep -c 'no-failing-input-found' "$log") concrete=$(grep -c 'impl-violates-property' "$log") $(grep -m1 'impl-violates-property\|model-disagreement\|proof-obligation\|harness-build' "$log" | cut -c1-160)" >> "$out"
  done
  git -C "$W/repo" reset -q --hard HEAD; git -C "$W/repo" clean -qfd src
done < "$list"
rm -rf "$W/verif/.build/harness-target" "$W/repo/target"
echo done >> "$out"
