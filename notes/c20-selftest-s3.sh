#!/bin/bash
# Session-3 self-test of C20: throw-away mutations on a private clone of /repo, each run against
#   NEW = this worktree's harness, OLD = the harness as it was before the session (worktree at 0afddff).
# prerequisites (all removed afterwards):
#   git clone /repo /work/mut-sim
#   git -C /verif worktree add /work/old-sim 0afddff --detach ; cp -r .build lean/.lake into it (warm)
# usage: notes/c20-selftest-s3.sh [case …]     (no argument: all cases)
set -u
NEW=${NEW:-/work/build-sim}
OLD=${OLD:-/work/old-sim}
MUT=/work/mut-sim
export CARGO_BUILD_JOBS=4
for W in $NEW $OLD; do sed -i "s#path = \"/repo\"#path = \"$MUT\"#" $W/harness/Cargo.toml; done
restore() { for W in $NEW $OLD; do sed -i "s#path = \"$MUT\"#path = \"/repo\"#" $W/harness/Cargo.toml; done; }
trap restore EXIT

run_one() { # $1 = worktree, $2 = label
  (cd $1 && ./check C20 --tier quick --seed 1 > /tmp/c20_s3_$2.out 2>&1; echo "  $2: exit=$?")
  grep -v '^KNOWN-FINDING' /tmp/c20_s3_$2.out | grep -E "VIOLATION|impl-violates|model-disagreement|C20 \[quick\]" | sed 's/^ *//' | cut -c1-260 | awk '!seen[substr($0,1,90)]++' | head -${3:-5} | sed "s/^/    $2| /"
}
run_check() { run_one $NEW new 6; run_one $OLD old 3; cd $MUT; git checkout -q .; git clean -qfd; }
want() { [ $# -eq 0 ] && return 0; return 1; }
CASES="$*"
sel() { [ -z "$CASES" ] && return 0; for c in $CASES; do [ "$c" = "$1" ] && return 0; done; return 1; }
edit() { python3 - "$@"; }

cd $MUT
if sel baseline; then echo "== baseline (clone of the unchanged tree)"; run_check; fi

if sel a; then echo "== (a) class 1: a new DST harness that nobody runs twice (src/redis/foo_dst.rs: FooDSTHarness, run_foo_batch)"
cat > src/redis/foo_dst.rs <<'RS'
//! a new harness
use crate::io::simulation::SimulatedRng;
use crate::io::Rng;
pub struct FooDSTHarness { rng: SimulatedRng, pub total: u64 }
impl FooDSTHarness {
    pub fn new(seed: u64) -> Self { FooDSTHarness { rng: SimulatedRng::new(seed), total: 0 } }
    pub fn run(&mut self, ops: usize) { for _ in 0..ops { self.total += self.rng.gen_range(0, 10); } }
}
pub fn run_foo_batch(start: u64, n: usize, ops: usize) -> Vec<u64> {
    (0..n).map(|i| { let mut h = FooDSTHarness::new(start + i as u64); h.run(ops); h.total }).collect()
}
RS
sed -i 's/^pub mod hash_dst;/pub mod hash_dst;\npub mod foo_dst;/' src/redis/mod.rs
run_check; fi

if sel b; then echo "== (b) class 1 / 4: a new preset constructor SetDSTConfig::tiny and a new configuration field ExecutorDSTConfig.burst"
edit <<'PY'
p='src/redis/set_dst.rs'; s=open(p).read()
s=s.replace('''    /// Configuration with small member space (more collisions)''','''    /// Tiny
    pub fn tiny(seed: u64) -> Self {
        SetDSTConfig { seed, num_members: 2, ..Default::default() }
    }

    /// Configuration with small member space (more collisions)''',1)
open(p,'w').write(s)
p='src/redis/executor_dst.rs'; s=open(p).read()
s=s.replace('''    pub weight_expiry: u64,
}''','''    pub weight_expiry: u64,
    /// burst length
    pub burst: usize,
}''',1)
s=s.replace('''            weight_expiry: 10,
        }
    }
}''','''            weight_expiry: 10,
            burst: 1,
        }
    }
}''',1)
open(p,'w').write(s)
PY
grep -q "pub fn tiny" src/redis/set_dst.rs || echo "  (mutation b: set preset not applied)"
run_check; fi

if sel c; then echo "== (c) static scan: WalDSTHarness::run reads the wall clock (a branch no run ever takes: > 1 hour elapsed)"
edit <<'PY'
p='src/streaming/wal_dst.rs'; s=open(p).read()
s=s.replace('''        // Track acknowledged writes (shadow state)
        let mut acked_timestamps: Vec<u64> = Vec::new();
        let mut failed_writes = 0;''','''        // Track acknowledged writes (shadow state)
        let started = std::time::Instant::now();
        let mut acked_timestamps: Vec<u64> = Vec::new();
        let mut failed_writes = if started.elapsed().as_secs() > 3600 { 1 } else { 0 };''',1)
open(p,'w').write(s)
PY
run_check; fi

if sel d; then echo "== (d) static scan: Compactor::compact no longer sorts the merged deltas (HashMap order into the segment; same lengths)"
edit <<'PY'
p='src/streaming/compaction.rs'; s=open(p).read()
s=s.replace('''        deltas.sort_by_key(|d| d.value.timestamp.time);
''','''''',1)
s=s.replace("let mut deltas: Vec<ReplicationDelta> = key_to_delta.into_values().collect();","let deltas: Vec<ReplicationDelta> = key_to_delta.into_values().collect();",1)
open(p,'w').write(s)
PY
run_check; fi

if sel e; then echo "== (e) class 1: run_set_batch builds every run from the FIRST seed's configuration (seed s+i in a batch is not seed s+i alone)"
edit <<'PY'
p='src/redis/set_dst.rs'; s=open(p).read()
s=s.replace('''            let seed = start_seed + i as u64;
            let config = config_fn(seed);''','''            let seed = start_seed + (i as u64).min(1);
            let config = config_fn(seed);''',1)
open(p,'w').write(s)
PY
run_check; fi

if sel f; then echo "== (f) model-only: RedisDSTSimulation::do_write draws the value from gen_range(0, 10001) (the same in every process)"
sed -i 's/self.inner.rng().gen_range(0, 10000))/self.inner.rng().gen_range(0, 10001))/' src/simulator/dst_integration.rs
run_check; fi

if sel g; then echo "== (g) model-only: ScenarioBuilder::run_with_eviction draws once per eviction (shifts every later BUGGIFY delay)"
edit <<'PY'
p='src/simulator/harness.rs'; s=open(p).read()
s=s.replace('''                    harness.advance_time(next_eviction);
                    harness.evict_expired();''','''                    harness.advance_time(next_eviction);
                    let _ = harness.rng().next_u64();
                    harness.evict_expired();''',1)
open(p,'w').write(s)
PY
run_check; fi

if sel h; then echo "== (h) model-only: StreamingWorkload::next_operation draws the key from gen_range(0, 101)"
edit <<'PY'
p='src/streaming/dst.rs'; s=open(p).read()
s=s.replace('let key = format!("key_{:04}", self.rng.gen_range(0, 100));','let key = format!("key_{:04}", self.rng.gen_range(0, 101));',1)
open(p,'w').write(s)
PY
run_check; fi

if sel i; then echo "== (i) class 2: SetDSTHarness::new truncates the seed to 32 bits (seeds 1..5 unaffected)"
sed -i '0,/let rng = SimulatedRng::new(config.seed);/s//let rng = SimulatedRng::new(config.seed \& 0xFFFF_FFFF);/' src/redis/set_dst.rs
run_check; fi

if sel j; then echo "== (j) class 3: DSTSimulation::run_operations stops on '>' instead of '>=' the time limit"
edit <<'PY'
p='src/simulator/dst.rs'; s=open(p).read()
s=s.replace('''            // Check time limit
            if self.current_time.0 >= self.config.max_time_ms {''','''            // Check time limit
            if self.current_time.0 > self.config.max_time_ms {''',1)
open(p,'w').write(s)
PY
run_check; fi

if sel k; then echo "== (k) class 4: the CRDT harnesses cap the drop probability at 0.99 (presets use at most 0.3)"
sed -i 's/self.rng.gen_bool(self.config.message_drop_prob)/self.rng.gen_bool(self.config.message_drop_prob.min(0.99))/' src/replication/crdt_dst.rs
run_check; fi

if sel l; then echo "== (l) kernel: SimulationContext::next_id and add_timer use separate counters"
edit <<'PY'
p='src/io/simulation.rs'; s=open(p).read()
s=s.replace('''    pub fn add_timer(&self, wake_time: Timestamp, waker: Waker) -> u64 {
        let id = self.next_id();''','''    pub fn add_timer(&self, wake_time: Timestamp, waker: Waker) -> u64 {
        let id = self.timers.lock().expect("mutex poisoned").len() as u64 + 1000 * self.now().as_millis();''',1)
open(p,'w').write(s)
PY
run_check; fi

if sel m; then echo "== (m) static scan (required call): StreamingDSTHarness::new no longer installs its own BUGGIFY configuration"
edit <<'PY'
p='src/streaming/dst.rs'; s=open(p).read()
s=s.replace('''        crate::buggify::set_config(crate::buggify::FaultConfig::new());
''','',1)
open(p,'w').write(s)
PY
run_check; fi

if sel n; then echo "== (n) absorption: DSTSimulation::random_running_node picks through a HashSet (a DIFFERENT in-process divergence of dst-api must not hide behind the listed buggify-stats signature)"
edit <<'PY'
p='src/simulator/dst.rs'; s=open(p).read()
s=s.replace('''        let running: Vec<usize> = (0..self.config.node_count)
            .filter(|&i| self.is_node_running(i))
            .collect();

        if running.is_empty() {''','''        let running: Vec<usize> = (0..self.config.node_count)
            .filter(|&i| self.is_node_running(i))
            .collect::<std::collections::HashSet<usize>>()
            .into_iter()
            .collect();

        if running.is_empty() {''',1)
open(p,'w').write(s)
PY
run_check; fi

if sel o; then echo "== (o) the earlier cases still hold: (i of session 2) hash_dst picks the field to delete with expected_fields.iter().next()"
edit <<'PY'
p='src/redis/hash_dst.rs'; s=open(p).read()
s=s.replace('''            // Delete operation - pick an existing field
            let field = self.random_field();''','''            // Delete operation - pick an existing field
            let field = self.expected_fields.iter().next().cloned().unwrap();''',1)
open(p,'w').write(s)
PY
run_check; fi
