#!/bin/bash
# Session-4 self-test of the STATIC nondeterminism-source scan of C20 (harness/src/c20_src.rs), both
# directions, on a private clone:   git clone /repo /work/mut-sim-scan
#   N-cases: a nondeterminism source is injected into a simulation-reachable module; the scan must
#            name it exactly (kind, file, function, line);
#   H-cases: a harmless rewrite of the scanned code; the scan must stay quiet.
# The scan is lexical and needs no build of the clone: the harness binary is run with
# C20_SRC_ROOT=<clone> C20_ONLY=none.  With CHECK=1 every case is also compiled (`cargo check --lib`).
# usage: notes/c20-scan-selftest-s4.sh [case …]
set -u
MUT=${MUT:-/work/mut-sim-scan}
NEW=${NEW:-/work/build-sim}
B=$NEW/.build/harness-target/release/rvharness
OUT=$NEW/.build/run/scan
mkdir -p $OUT
CASES="$*"
sel() { [ -z "$CASES" ] && return 0; for c in $CASES; do [ "$c" = "$1" ] && return 0; done; return 1; }
rep() { # file, old, new
  python3 - "$1" "$2" "$3" <<'PY'
import sys
p,old,new=sys.argv[1:4]
s=open(p).read()
if s.count(old)<1: print("  (edit NOT applied: pattern not found in", p, ")")
else: open(p,'w').write(s.replace(old,new,1))
PY
}
scan() {
  if [ "${CHECK:-0}" = "1" ]; then
    (cd $MUT && RUSTC_WRAPPER= cargo check --offline -j2 --lib 2>&1 | grep -E "^error" -A6 | head -20 | sed 's/^/    cargo: /')
  fi
  C20_SRC_ROOT=$MUT C20_ONLY=none $B C20 --seed 1 --n 0 --out $OUT >/dev/null 2>&1
  python3 - $OUT/oracle.json <<'PY'
import json,sys
o=json.load(open(sys.argv[1]))
n=0
for x in o:
    s=x.get('signature','')
    if 'partial-run' in s: continue
    n+=1
    print("    ", s, "|", str(x.get('what',''))[:200])
print("    (%d scan violations)"%n)
PY
  (cd $MUT && git checkout -q . && git clean -qfd -e target)
}
cd $MUT

if sel baseline; then echo "== baseline"; scan; fi

# ------------------------------------------------------------------ N: must be flagged
if sel n1; then echo "== (n1) ahash with its default (per-process random) keys: a set harness picks its victim through an AHashSet"
rep src/redis/set_dst.rs "    fn run_single_op(&mut self) {" "    fn run_single_op(&mut self) {
        let pool: ahash::AHashSet<u64> = (0..self.config.num_members as u64).collect();
        let _victim = pool.iter().next().copied();"
scan; fi

if sel n1b; then echo "== (n1b) ahash::RandomState::default() hashes a key and the parity decides (no container at all)"
rep src/redis/set_dst.rs "    fn run_single_op(&mut self) {" "    fn run_single_op(&mut self) {
        use std::hash::BuildHasher;
        let _odd = ahash::RandomState::default().hash_one(self.result.total_operations) % 2 == 1;"
scan; fi

if sel n2; then echo "== (n2) std::env read in a harness: WAL DST takes its write count from the environment"
rep src/streaming/wal_dst.rs "        let store_rng = SimulatedRng::new(self.rng.next_u64());" "        let _extra: usize = std::env::var(\"WAL_DST_EXTRA\").ok().and_then(|s| s.parse().ok()).unwrap_or(0);
        let store_rng = SimulatedRng::new(self.rng.next_u64());"
scan; fi

if sel n2b; then echo "== (n2b) the same through an imported name: use std::env::var as getenv; … getenv(..); and current_dir()"
rep src/streaming/wal_dst.rs "        let store_rng = SimulatedRng::new(self.rng.next_u64());" "        use std::env::var as getenv;
        let _extra: usize = getenv(\"WAL_DST_EXTRA\").ok().and_then(|s| s.parse().ok()).unwrap_or(0);
        let _deep = std::env::current_dir().map(|p| p.components().count()).unwrap_or(0);
        let store_rng = SimulatedRng::new(self.rng.next_u64());"
scan; fi

if sel n3; then echo "== (n3) HashSet -> Vec collect order: hash_dst deletes the field at a drawn index of the shadow set"
rep src/redis/hash_dst.rs "            let field = self.random_field();
            self.result.last_op = Some(HashOp::Delete {" "            let pool: Vec<String> = self.expected_fields.iter().cloned().collect();
            let field = pool[self.rng.gen_range(0, pool.len() as u64) as usize].clone();
            self.result.last_op = Some(HashOp::Delete {"
scan; fi

if sel n3b; then echo "== (n3b) the same without naming an iterator method on the set: clone().into_iter(), Vec::from_iter, extend, for … in set.clone()"
rep src/redis/hash_dst.rs "            let field = self.random_field();
            self.result.last_op = Some(HashOp::Delete {" "            let pool: Vec<String> = self.expected_fields.clone().into_iter().collect();
            let pool2: Vec<String> = Vec::from_iter(self.expected_fields.clone());
            let mut pool3: Vec<String> = Vec::new();
            pool3.extend(self.expected_fields.clone());
            for f in self.expected_fields.clone() { pool3.push(f); }
            let _ = (pool2, pool3);
            let field = pool[self.rng.gen_range(0, pool.len() as u64) as usize].clone();
            self.result.last_op = Some(HashOp::Delete {"
scan; fi

if sel n4; then echo "== (n4) address-based ordering: DSTSimulation picks the running node whose state lives at the lowest address"
rep src/simulator/dst.rs "            let idx = self.rng.gen_range(0, running.len() as u64) as usize;
            Some(running[idx])" "            let idx = self.rng.gen_range(0, running.len() as u64) as usize;
            let mut by_addr = running.clone();
            by_addr.sort_by_key(|i| &self.result as *const _ as usize + *i);
            Some(by_addr[idx])"
scan; fi

if sel n4b; then echo "== (n4b) addresses without a cast in sight: Arc::as_ptr, Box::into_raw, ptr::from_ref(..).addr(), {:p} in a key"
rep src/simulator/dst.rs "            let idx = self.rng.gen_range(0, running.len() as u64) as usize;
            Some(running[idx])" "            let idx = self.rng.gen_range(0, running.len() as u64) as usize;
            let a = std::sync::Arc::new(idx);
            let salt = std::sync::Arc::as_ptr(&a) as usize;
            let salt2 = std::ptr::from_ref(&self.result).addr();
            let salt3 = format!(\"{:p}\", &self.result).len();
            Some(running[(idx + salt + salt2 + salt3) % running.len()])"
scan; fi

if sel n5; then echo "== (n5) thread timing: the streaming workload's next key comes from whichever of two threads answers first"
rep src/simulator/dst.rs "    pub fn run_operations(&mut self, count: usize) -> &SimulationResult {" "    pub fn run_operations(&mut self, count: usize) -> &SimulationResult {
        let (tx, rx) = std::sync::mpsc::channel();
        for w in 0..2u64 {
            let tx = tx.clone();
            std::thread::spawn(move || { let _ = tx.send(w); });
        }
        let _first = rx.recv().unwrap_or(0);"
scan; fi

if sel n5b; then echo "== (n5b) the same with scoped threads / a Builder / tokio::task::spawn (no thread::spawn token)"
rep src/simulator/dst.rs "    pub fn run_operations(&mut self, count: usize) -> &SimulationResult {" "    pub fn run_operations(&mut self, count: usize) -> &SimulationResult {
        let (tx, rx) = std::sync::mpsc::channel();
        std::thread::scope(|s| {
            for w in 0..2u64 {
                let tx = tx.clone();
                s.spawn(move || { let _ = tx.send(w); });
            }
        });
        let _h = std::thread::Builder::new().spawn(|| 1u64);
        let _first = rx.recv().unwrap_or(0);"
scan; fi

if sel n6; then echo "== (n6) the classics in one function each: thread_rng, SystemTime::now, Instant::now, RandomState::new, a new HashMap iteration"
rep src/replication/crdt_dst.rs "    fn should_drop_message(&mut self) -> bool {" "    fn jitter(&self) -> u64 {
        use rand::Rng as _;
        rand::thread_rng().gen_range(0..3)
    }
    fn stamp(&self) -> u128 {
        std::time::SystemTime::now().duration_since(std::time::UNIX_EPOCH).map(|d| d.as_nanos()).unwrap_or(0)
    }
    fn tick(&self) -> std::time::Instant {
        std::time::Instant::now()
    }
    fn salt(&self) -> u64 {
        use std::hash::BuildHasher;
        std::collections::hash_map::RandomState::new().hash_one(1u8)
    }
    fn first_replica_seen(&self) -> Option<u64> {
        let mut seen: std::collections::HashMap<u64, u64> = std::collections::HashMap::new();
        seen.insert(1, 1);
        seen.insert(2, 2);
        seen.keys().next().copied()
    }
    fn should_drop_message(&mut self) -> bool {"
scan; fi

if sel n7; then echo "== (n7) a sorted iteration loses its sort; a commutative fold becomes a first-match"
rep src/simulator/crash.rs "        nodes.sort_by_key(|id| id.0);
        nodes" "        nodes"
scan; fi

# ------------------------------------------------------------------ H: must stay quiet
if sel h1; then echo "== (h1) HARMLESS: functions with allow-listed sites are renamed / their body moves into a private helper"
python3 - <<'PY'
import re
p='/work/mut-sim-scan/src/redis/hash_dst.rs'
s=open(p).read()
s=s.replace("fn check_invariants(","fn verify_shadow(").replace("self.check_invariants()","self.verify_shadow()")
open(p,'w').write(s)
p='/work/mut-sim-scan/src/simulator/crash.rs'
s=open(p).read()
s=s.replace("pub fn crashed_nodes(&self)","pub fn crashed_nodes(&self) -> Vec<HostId> {\n        self.crashed_sorted()\n    }\n\n    fn crashed_sorted(&self)",1)
open(p,'w').write(s)
PY
scan; fi

if sel h2; then echo "== (h2) HARMLESS: container types change (HashMap -> BTreeMap in BuggifyStats, HashMap -> BTreeMap for CrashStats.crashes_by_reason), comments and formatting move lines"
python3 - <<'PY'
p='/work/mut-sim-scan/src/buggify/mod.rs'
s=open(p).read()
s=s.replace("use std::collections::HashMap;","use std::collections::BTreeMap as HashMapOrdered;\n\n\n// (lines moved)\n")
s=s.replace("pub checks: HashMap<String, u64>","pub checks: HashMapOrdered<String, u64>").replace("pub triggers: HashMap<String, u64>","pub triggers: HashMapOrdered<String, u64>")
open(p,'w').write(s)
p='/work/mut-sim-scan/src/simulator/crash.rs'
s=open(p).read()
s=s.replace("    pub crashes_by_reason: HashMap<String, u64>,","    pub crashes_by_reason: std::collections::BTreeMap<String, u64>,")
open(p,'w').write(s)
PY
scan; fi

if sel h3; then echo "== (h3) HARMLESS: a log line, a new private helper, a new unrelated pub fn in a non-simulation module, re-ordered match arms, a doc comment that MENTIONS Instant::now() and thread_rng()"
python3 - <<'PY'
p='/work/mut-sim-scan/src/simulator/dst.rs'
s=open(p).read()
s=s.replace("    pub fn random_running_node(&mut self) -> Option<usize> {","    /// Unlike `Instant::now()` or `rand::thread_rng()` this draws from the seeded generator;\n    /// never iterate `HashMap`s here (`for x in map.iter()`), use `std::env::var` or `thread::spawn`.\n    pub fn random_running_node(&mut self) -> Option<usize> {\n        tracing::trace!(\"picking a running node: SystemTime::now() is not used, {:?}\", self.current_time);",1)
s=s.replace("    /// Run a step of the simulation","    fn step_budget(&self) -> u64 {\n        let note = \"std::env::var(\\\"X\\\") and {:p} only inside a string\";\n        note.len() as u64\n    }\n\n    /// Run a step of the simulation",1)
open(p,'w').write(s)
p='/work/mut-sim-scan/src/redis/commands.rs' if __import__('os').path.exists('/work/mut-sim-scan/src/redis/commands.rs') else '/work/mut-sim-scan/src/lib.rs'
s=open(p).read()
s+="\n/// an unrelated public helper\npub fn kib(n: usize) -> usize {\n    n * 1024\n}\n"
open(p,'w').write(s)
PY
scan; fi

if sel h4; then echo "== (h4) HARMLESS: a simulation file is split — CrashSimulator::crashed_nodes / recovering_nodes move to a new file of the same directory; set_config is imported instead of path-qualified"
python3 - <<'PY'
import re
p='/work/mut-sim-scan/src/simulator/crash.rs'
s=open(p).read()
a=s.index("    /// Get all crashed nodes")
b=s.index("    /// ", s.index("pub fn recovering_nodes"))
moved=s[a:b]
s=s[:a]+s[b:]
s=s.replace("    node_states: HashMap<HostId, NodeState>,","    pub(super) node_states: HashMap<HostId, NodeState>,",1)
open(p,'w').write(s)
open('/work/mut-sim-scan/src/simulator/crash_query.rs','w').write("//! queries over the node map\nuse super::crash::{CrashSimulator, NodeState};\nuse super::HostId;\n\nimpl CrashSimulator {\n"+moved+"}\n")
p='/work/mut-sim-scan/src/simulator/mod.rs'
s=open(p).read()
s=s.replace("pub mod crash;","pub mod crash;\nmod crash_query;",1)
open(p,'w').write(s)
p='/work/mut-sim-scan/src/simulator/dst.rs'
s=open(p).read()
s=s.replace("buggify::set_config(","set_config(").replace("buggify::reset_stats(","reset_stats(")
s=s.replace("use crate::buggify::{self,","use crate::buggify::{self, set_config, reset_stats,",1)
open(p,'w').write(s)
PY
grep -n "use crate::buggify" src/simulator/dst.rs | head -3
scan; fi
