#!/bin/bash
# prerequisite: git clone /repo /tmp/sim-repo   (remove it afterwards; harness/Cargo.toml is restored to /repo at the end)
# throw-away mutations on the private clone /tmp/sim-repo (branch main = current /repo main)
set -u
cd /tmp/sim-repo
run_check() {
  cd /work/sim
  ./check C20 --tier quick --seed 1 > /tmp/c20_mut.out 2>&1
  echo "  exit=$?"
  grep -v '^KNOWN-FINDING' /tmp/c20_mut.out | cut -c1-330 | head -12
  cd /tmp/sim-repo
}
sed -i 's#path = "/repo"#path = "/tmp/sim-repo"#' /work/sim/harness/Cargo.toml
echo "== baseline (clone of the unchanged tree)"; run_check

echo "== (i) hash_dst picks the field to delete with expected_fields.iter().next()"
python3 - <<'PY'
p='src/redis/hash_dst.rs'
s=open(p).read()
s=s.replace('''            // Delete operation - pick an existing field
            let field = self.random_field();''','''            // Delete operation - pick an existing field
            let field = self.expected_fields.iter().next().cloned().unwrap();''',1)
open(p,'w').write(s)
PY
run_check; git checkout -q .

echo "== (ii) DeterministicRng::new mixes in SystemTime nanos"
python3 - <<'PY'
p='src/simulator/rng.rs'
s=open(p).read()
s=s.replace('''            rng: ChaCha8Rng::seed_from_u64(seed),''','''            rng: ChaCha8Rng::seed_from_u64(
                seed ^ std::time::SystemTime::now()
                    .duration_since(std::time::UNIX_EPOCH)
                    .map(|d| d.subsec_nanos() as u64)
                    .unwrap_or(0),
            ),''',1)
open(p,'w').write(s)
PY
run_check; git checkout -q .

echo "== (iii) TimerEntry::cmp drops the id tie-break"
python3 - <<'PY'
p='src/io/simulation.rs'
s=open(p).read()
s=s.replace('''        other
            .wake_time
            .cmp(&self.wake_time)
            .then_with(|| other.id.cmp(&self.id))''','''        other.wake_time.cmp(&self.wake_time)''',1)
open(p,'w').write(s)
PY
run_check; git checkout -q .

echo "== (iv) should_buggify draws from rand::thread_rng()"
python3 - <<'PY'
p='src/buggify/mod.rs'
s=open(p).read()
s=s.replace('''        // Use deterministic RNG
        let random_value = rng.gen_range(0, 1_000_000) as f64 / 1_000_000.0;''','''        // Use deterministic RNG
        let _ = &rng;
        let random_value = rand::Rng::gen_range(&mut rand::thread_rng(), 0..1_000_000u64) as f64 / 1_000_000.0;''',1)
open(p,'w').write(s)
PY
run_check; git checkout -q .


# the four landed fixes, each reverted on its own (reverse-applied, not committed)
for h in 3012c3c dc1be9d 7f8c4c6 474577c; do
  echo "== (revert) $(git log -1 --format='%h %s' $h | cut -c1-110)"
  git revert -n $h >/dev/null 2>&1 || { echo "  revert failed"; git revert --abort 2>/dev/null; git checkout -q .; continue; }
  run_check
  git revert --abort >/dev/null 2>&1; git reset -q --hard HEAD
done


# round-4 seeded change: pending deltas coalesced through a HashMap (only reached when one node
# takes > 100 writes between two gossip rounds: generated scenarios + corpus case)
echo "== (s4) seeded/C20-pending-deltas-coalesced-through-hashmap"
git apply /work/sim/seeded/C20-pending-deltas-coalesced-through-hashmap/patch.diff
run_check; git checkout -q .

# mutations that are THE SAME IN EVERY PROCESS (an off-by-one in a harness's op generator): the
# cross-process oracle is blind to them by construction, only the model's prediction disagrees.
# One per modelled harness family; expected: `model-disagreement`, VIOLATION … no-failing-input-found
mut() { # file, old, new
  python3 - "$1" "$2" "$3" <<'PY'
import sys
p,old,new=sys.argv[1:4]
s=open(p).read()
assert s.count(old)>=1,(p,old)
open(p,'w').write(s.replace(old,new,1))
PY
}
echo "== (m1) set_dst: random_member draws gen_range(0, num_members + 1)"
mut src/redis/set_dst.rs 'self.rng.gen_range(0, self.config.num_members as u64)' 'self.rng.gen_range(0, self.config.num_members as u64 + 1)'
run_check; git checkout -q .
echo "== (m2) hash_dst: random_value draws gen_range(0, num_values + 1)"
mut src/redis/hash_dst.rs 'self.rng.gen_range(0, self.config.num_values as u64)' 'self.rng.gen_range(0, self.config.num_values as u64 + 1)'
run_check; git checkout -q .
echo "== (m3) list_dst: op_type draws gen_range(0, 101)"
mut src/redis/list_dst.rs 'let op_type = self.rng.gen_range(0, 100);' 'let op_type = self.rng.gen_range(0, 101);'
run_check; git checkout -q .
echo "== (m4) sorted_set_dst: random_score draws one more value"
mut src/redis/sorted_set_dst.rs '.gen_range(0, (self.config.max_score * 100.0) as u64);' '.gen_range(0, (self.config.max_score * 100.0) as u64 + 1);'
run_check; git checkout -q .
echo "== (m5) transaction_dst: random_value draws gen_range(0, 101)"
mut src/redis/transaction_dst.rs 'let idx = self.rng.gen_range(0, 100);' 'let idx = self.rng.gen_range(0, 101);'
run_check; git checkout -q .
echo "== (m6) wal_dst: crash point drawn from 0..num_writes instead of 1..=num_writes"
mut src/streaming/wal_dst.rs 'self.rng.gen_range(1, (self.config.num_writes as u64).saturating_add(1)) as usize' 'self.rng.gen_range(0, self.config.num_writes as u64) as usize'
run_check; git checkout -q .

sed -i 's#path = "/tmp/sim-repo"#path = "/repo"#' /work/sim/harness/Cargo.toml
echo "== restored"; cd /work/sim && git diff --stat harness/Cargo.toml
