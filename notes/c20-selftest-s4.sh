#!/bin/bash
# Session-4 self-test of C20 (dynamic part): throw-away mutations on a private clone of /repo, run
# against a worktree of this branch whose harness points at the clone.
# prerequisites (removed afterwards):
#   git clone /repo /work/mut-sim
#   git -C /verif worktree add --detach /work/selftest-sim <this branch's head> ; cp -r .build lean/.lake into it (warm)
# usage: notes/c20-selftest-s4.sh [case …]     (no argument: all cases)
set -u
W=${W:-/work/selftest-sim}
MUT=/work/mut-sim
export CARGO_BUILD_JOBS=4
sed -i "s#path = \"/repo\"#path = \"$MUT\"#" $W/harness/Cargo.toml
restore() { sed -i "s#path = \"$MUT\"#path = \"/repo\"#" $W/harness/Cargo.toml; }
trap restore EXIT

run_check() {
  (cd $W && ./check C20 --tier quick --seed 1 > /tmp/c20_s4.out 2>&1; echo "  exit=$?")
  grep -v '^KNOWN-FINDING' /tmp/c20_s4.out | grep -E "VIOLATION|C20 \[quick\]" | sed 's/^ *//' | cut -c1-300 | awk '!seen[substr($0,1,110)]++' | head -${1:-6} | sed "s/^/    | /"
  cd $MUT; git checkout -q .; git clean -qfd
}
CASES="$*"
sel() { [ -z "$CASES" ] && return 0; for c in $CASES; do [ "$c" = "$1" ] && return 0; done; return 1; }
edit() { python3 - "$@"; }
rep() { # file, old, new : exactly one replacement or complain
  python3 - "$1" "$2" "$3" <<'PY'
import sys
p,old,new=sys.argv[1:4]
s=open(p).read()
if s.count(old)<1:
    print("  (mutation NOT applied: pattern not found in", p, ")")
else:
    open(p,'w').write(s.replace(old,new,1))
PY
}

cd $MUT
if sel baseline; then echo "== baseline (clone of the unchanged tree)"; run_check; fi

# ---- model-only mutations of the cluster simulation: identical in every process ----
if sel mn1; then echo "== (mn1) send_deltas draws the delay from [lo, hi) instead of [lo, hi]"
rep src/simulator/multi_node.rs ".gen_range(self.message_delay_range.0, self.message_delay_range.1 + 1);" ".gen_range(self.message_delay_range.0, self.message_delay_range.1);"
run_check; fi

if sel mn2; then echo "== (mn2) deliver_messages: a message is due when delivery_time < now (was <=)"
rep src/simulator/multi_node.rs "if msg.delivery_time <= self.current_time && self.can_communicate(msg.from, msg.to) {" "if msg.delivery_time < self.current_time && self.can_communicate(msg.from, msg.to) {"
run_check; fi

if sel mn3; then echo "== (mn3) enforce_pending_capacity drops the NEWEST deltas instead of the oldest"
rep src/replication/state/shard_state.rs "self.pending_deltas.drain(..overflow);" "let keep = self.pending_deltas.len() - overflow; self.pending_deltas.truncate(keep);"
run_check; fi

if sel mn4; then echo "== (mn4) get_keys_in_buckets sorts the selected keys in DESCENDING order (still sorted: the static scan is content)"
rep src/replication/anti_entropy.rs "selected.sort_by(|a, b| a.0.cmp(b.0));" "selected.sort_by(|a, b| b.0.cmp(a.0));"
run_check; fi

if sel mn5; then echo "== (mn5) LamportClock::update: max(local, remote + 1) instead of max(local, remote) + 1"
rep src/replication/lattice.rs "self.time = self.time.max(other.time) + 1;" "self.time = self.time.max(other.time + 1);"
run_check; fi

if sel mn6; then echo "== (mn6) heal_partition runs the anti-entropy exchange even when the pair was not partitioned"
rep src/simulator/multi_node.rs "if was_partitioned && self.auto_anti_entropy {" "if self.auto_anti_entropy {"
run_check; fi

if sel mn7; then echo "== (mn7) run_partition_test reports rounds_to_converge = round (was round + 1)"
rep src/simulator/partition_tests.rs "rounds_to_converge = round + 1;" "rounds_to_converge = round;"
run_check; fi

if sel mn8; then echo "== (mn8) gossip_round visits the routing table in DESCENDING target order (still sorted)"
rep src/simulator/multi_node.rs "routes.sort_by_key(|(target, _)| target.0);" "routes.sort_by_key(|(target, _)| std::cmp::Reverse(target.0));"
run_check; fi

if sel mn9; then echo "== (mn9) deliver_messages ignores partitions (a due message crosses a cut link)"
rep src/simulator/multi_node.rs "if msg.delivery_time <= self.current_time && self.can_communicate(msg.from, msg.to) {" "if msg.delivery_time <= self.current_time {"
run_check; fi

if sel mn10; then echo "== (mn10) run_anti_entropy_sync: the second side answers with its keys AFTER it applied the first side's"
edit <<'PY'
p='src/simulator/multi_node.rs'; s=open(p).read()
old='''                let deltas_b = self.nodes[node_b].anti_entropy.get_keys_in_buckets(
                    &self.nodes[node_b].replica_state.replicated_keys,
                    &divergent,
                );

                // Apply deltas bidirectionally
                self.nodes[node_b].apply_remote_deltas(deltas_a);
'''
new='''                // Apply deltas bidirectionally
                self.nodes[node_b].apply_remote_deltas(deltas_a);
                let deltas_b = self.nodes[node_b].anti_entropy.get_keys_in_buckets(
                    &self.nodes[node_b].replica_state.replicated_keys,
                    &divergent,
                );
'''
if old in s: open(p,'w').write(s.replace(old,new,1))
else: print("  (mutation NOT applied)")
PY
run_check; fi

# ---- reverts of the two map-order fixes: cross-process AND model ----
if sel rB; then echo "== (rB) get_keys_in_buckets no longer sorts (revert of dc1be9d)"
rep src/replication/anti_entropy.rs "selected.sort_by(|a, b| a.0.cmp(b.0));" ""
run_check 8; fi

if sel rB2; then echo "== (rB2) gossip_round visits the routing table in map order (revert of 7f8c4c6)"
rep src/simulator/multi_node.rs "routes.sort_by_key(|(target, _)| target.0);" ""
run_check 8; fi

# ---- harmless rewrites: the check must stay quiet ----
if sel h1; then echo "== (h1) HARMLESS: heal_partition hands the canonical pair (a, b) to run_anti_entropy_sync; a log line; a renamed private helper"
rep src/simulator/multi_node.rs "self.run_anti_entropy_sync(node_a, node_b);" "tracing::debug!(\"anti-entropy after heal {} {}\", a, b); self.run_anti_entropy_sync(a, b);"
sed -i 's/fn send_deltas(/fn enqueue_deltas(/; s/self\.send_deltas(/self.enqueue_deltas(/g' src/simulator/multi_node.rs
run_check; fi

if sel h2; then echo "== (h2) HARMLESS: container types — partitions: BTreeSet, replicated keys selected through a BTreeMap, message queue scanned by index"
edit <<'PY'
p='src/simulator/multi_node.rs'; s=open(p).read()
s=s.replace("pub partitions: HashSet<(usize, usize)>,","pub partitions: std::collections::BTreeSet<(usize, usize)>,")
s=s.replace("partitions: HashSet::new(),","partitions: std::collections::BTreeSet::new(),")
open(p,'w').write(s)
p='src/replication/anti_entropy.rs'; s=open(p).read()
old='''        let mut selected: Vec<(&String, &ReplicatedValue)> = keys
            .iter()
            .filter(|(key, value)| {
                let digest = KeyDigest::new(key, value);
                buckets.contains(&digest.bucket(depth))
            })
            .collect();
        // key order, not map order: the receiver's Lamport clock is advanced once per delta
        // (max(local, remote) + 1), so the order of the deltas is observable
        selected.sort_by(|a, b| a.0.cmp(b.0));
        selected
            .into_iter()'''
new='''        let selected: std::collections::BTreeMap<&String, &ReplicatedValue> = keys
            .iter()
            .filter(|(key, value)| {
                let digest = KeyDigest::new(key, value);
                buckets.contains(&digest.bucket(depth))
            })
            .collect();
        selected
            .into_iter()'''
if old in s: open(p,'w').write(s.replace(old,new,1))
else: print("  (mutation NOT applied: anti_entropy)")
PY
run_check; fi

if sel h3; then echo "== (h3) HARMLESS: SimulatedNode::execute hands its DEL arm to a new private helper; a new unrelated pub fn (free function) in multi_node.rs"
edit <<'PY'
p='src/simulator/multi_node.rs'; s=open(p).read()
old="""            Command::Del(keys) => {
                for key in keys {
                    self.replica_state.record_delete(key.clone());
                }
            }
"""
new="""            Command::Del(keys) => self.note_deletes(keys),
"""
if old in s:
    s=s.replace(old,new,1)
    s=s.replace("""    /// Collect pending deltas for gossip
    pub fn drain_deltas""","""    fn note_deletes(&mut self, keys: &[String]) {
        for key in keys {
            self.replica_state.record_delete(key.clone());
        }
    }

    /// Collect pending deltas for gossip
    pub fn drain_deltas""",1)
    s += "\n/// milliseconds in a second (unrelated helper)\npub fn millis_per_second() -> u64 {\n    1000\n}\n"
    open(p,'w').write(s)
else: print("  (mutation NOT applied)")
PY
run_check; fi
