use std::io::{Read, Write};
use std::time::Duration;
fn frame(parts: &[&[u8]]) -> Vec<u8> {
    let mut v = format!("*{}\r\n", parts.len()).into_bytes();
    for p in parts { v.extend(format!("${}\r\n", p.len()).into_bytes()); v.extend_from_slice(p); v.extend(b"\r\n"); }
    v
}
fn rt(s: &mut std::net::TcpStream, parts: &[&[u8]]) -> String {
    s.write_all(&frame(parts)).unwrap();
    let mut out = Vec::new(); let mut buf = [0u8; 4096];
    loop { match s.read(&mut buf) { Ok(0) => break, Ok(n) => out.extend_from_slice(&buf[..n]), Err(_) => break } }
    String::from_utf8_lossy(&out).replace("\r\n", "\\r\\n")
}
fn main() {
    std::env::set_var("PERF_CONFIG_PATH", "perf.toml");
    std::thread::spawn(move || {
        let rt = tokio::runtime::Builder::new_multi_thread().enable_all().build().unwrap();
        rt.block_on(async { let _ = redis_sim::production::OptimizedRedisServer::new("127.0.0.1:7392".to_string()).run().await; });
    });
    std::thread::sleep(Duration::from_millis(700));
    let mut a = std::net::TcpStream::connect("127.0.0.1:7392").unwrap(); a.set_read_timeout(Some(Duration::from_millis(150))).unwrap();
    let mut b = std::net::TcpStream::connect("127.0.0.1:7392").unwrap(); b.set_read_timeout(Some(Duration::from_millis(150))).unwrap();
    for (ty, setup, change) in [("string", vec![&b"SET"[..], b"w", b"1"], vec![&b"SET"[..], b"w", b"2"]), ("list", vec![&b"RPUSH"[..], b"w", b"1"], vec![&b"RPUSH"[..], b"w", b"2"])] {
        rt(&mut a, &[b"DEL", b"w"]); rt(&mut a, &setup);
        let w = rt(&mut a, &[b"WATCH", b"w"]);
        let ch = rt(&mut b, &change);
        rt(&mut a, &[b"MULTI"]); rt(&mut a, &[b"SET", b"marker", ty.as_bytes()]);
        let ex = rt(&mut a, &[b"EXEC"]);
        println!("C05 watched {} key: WATCH={:?} other-client-write={:?} EXEC={:?} (must be *-1)", ty, w, ch, ex);
    }
    std::process::exit(0);
}
