use redis_sim::production::{ReplicatedShardActor};
use redis_sim::redis::{Command, RespValue, SDS};
use redis_sim::replication::*;
use redis_sim::streaming::*;
use std::collections::HashMap;
use std::sync::Arc;
fn bulk(s: &str) -> RespValue { RespValue::BulkString(Some(s.as_bytes().to_vec())) }
fn cmd(parts: &[&str]) -> Command { Command::from_resp(&RespValue::Array(Some(parts.iter().map(|p| bulk(p)).collect()))).unwrap() }
fn delta(key: &str, val: &str, ts: u64, rid: u64) -> ReplicationDelta {
    let r = ReplicaId::new(rid);
    ReplicationDelta::new(key.to_string(), ReplicatedValue::with_value(SDS::from_str(val), LamportClock{time: ts, replica_id: r}), r)
}
#[tokio::main]
async fn main() {
    let r1 = ReplicaId::new(1);
    // ---- C08: recover from checkpoint then write again
    let a = ReplicatedShardActor::spawn(r1, ConsistencyLevel::Eventual, 0);
    for i in 0..50 { a.execute(cmd(&["SET", "k", &format!("old{}", i)])).await; }
    let snap = a.get_snapshot().await;
    println!("C08 pre-restart stamp of k = {:?}", snap["k"].timestamp);
    let b = ReplicatedShardActor::spawn(r1, ConsistencyLevel::Eventual, 0); // restarted node
    for (k, v) in snap.clone() { b.apply_recovered_state(k, v); }
    let (_, d) = b.execute(cmd(&["SET", "k", "NEW"])).await;
    let d = d.unwrap();
    println!("C08 post-restart write stamp = {:?}", d.value.timestamp);
    let merged = snap["k"].merge(&d.value);
    println!("C08 peer merging pre-restart value with post-restart delta serves {:?} (must be NEW)", merged.get().map(|s| s.to_string()));

    // ---- C06: failed SET NX is gossiped
    let n1 = ReplicatedShardActor::spawn(r1, ConsistencyLevel::Eventual, 0);
    let n2 = ReplicatedShardActor::spawn(ReplicaId::new(2), ConsistencyLevel::Eventual, 0);
    let (_, d0) = n1.execute(cmd(&["SET", "x", "first"])).await; n2.apply_remote_delta(d0.unwrap());
    let (r, d1) = n1.execute(cmd(&["SET", "x", "second", "NX"])).await;
    println!("C06 SET x second NX on existing -> reply {:?}, delta produced: {}", r, d1.is_some());
    if let Some(d) = d1 { n2.apply_remote_delta(d); }
    tokio::time::sleep(std::time::Duration::from_millis(30)).await;
    println!("C06 node1 GET x = {:?}; node2 GET x = {:?}", n1.execute_readonly(cmd(&["GET","x"])).await, n2.execute_readonly(cmd(&["GET","x"])).await);
    // DEL of a hash
    let (_, dh) = n1.execute(cmd(&["HSET", "h", "f", "1"])).await; n2.apply_remote_delta(dh.unwrap());
    let (_, dd) = n1.execute(cmd(&["DEL", "h"])).await; if let Some(d) = dd { n2.apply_remote_delta(d); }
    tokio::time::sleep(std::time::Duration::from_millis(30)).await;
    println!("C06 after DEL h on node1: node1 HGETALL = {:?}; node2 HGETALL = {:?}", n1.execute(cmd(&["HGETALL","h"])).await.0, n2.execute(cmd(&["HGETALL","h"])).await.0);
    // PX < 1000
    let (_, dp) = n1.execute(cmd(&["SET", "p", "v", "PX", "500"])).await; n2.apply_remote_delta(dp.unwrap());
    tokio::time::sleep(std::time::Duration::from_millis(30)).await;
    println!("C06 SET p v PX 500: node1 GET = {:?}; node2 GET = {:?}", n1.execute_readonly(cmd(&["GET","p"])).await, n2.execute_readonly(cmd(&["GET","p"])).await);

    // ---- C12: failed flush drops the buffer (store that fails puts)
    #[derive(Clone)] struct Failing(InMemoryObjectStore, Arc<std::sync::atomic::AtomicBool>);
    use std::future::Future; use std::pin::Pin; use std::io::Result as IoResult;
    impl ObjectStore for Failing {
        fn put<'a>(&'a self, key: &'a str, data: &'a [u8]) -> Pin<Box<dyn Future<Output = IoResult<()>> + Send + 'a>> {
            if self.1.load(std::sync::atomic::Ordering::SeqCst) && key.contains("segment") { return Box::pin(async { Err(std::io::Error::new(std::io::ErrorKind::Other, "injected")) }); }
            self.0.put(key, data)
        }
        fn get<'a>(&'a self, key: &'a str) -> Pin<Box<dyn Future<Output = IoResult<Vec<u8>>> + Send + 'a>> { self.0.get(key) }
        fn exists<'a>(&'a self, key: &'a str) -> Pin<Box<dyn Future<Output = IoResult<bool>> + Send + 'a>> { self.0.exists(key) }
        fn delete<'a>(&'a self, key: &'a str) -> Pin<Box<dyn Future<Output = IoResult<()>> + Send + 'a>> { self.0.delete(key) }
        fn list<'a>(&'a self, prefix: &'a str, token: Option<&'a str>) -> Pin<Box<dyn Future<Output = IoResult<ListResult>> + Send + 'a>> { self.0.list(prefix, token) }
        fn rename<'a>(&'a self, from: &'a str, to: &'a str) -> Pin<Box<dyn Future<Output = IoResult<()>> + Send + 'a>> { self.0.rename(from, to) }
        fn head<'a>(&'a self, key: &'a str) -> Pin<Box<dyn Future<Output = IoResult<ObjectMeta>> + Send + 'a>> { self.0.head(key) }
    }
    let flag = Arc::new(std::sync::atomic::AtomicBool::new(true));
    let store = Arc::new(Failing(InMemoryObjectStore::new(), flag.clone()));
    let mut p = StreamingPersistence::new(store.clone(), "t".to_string(), 1, WriteBufferConfig::test()).await.unwrap();
    p.push(delta("k1", "v1", 1, 1)).unwrap(); p.push(delta("k2", "v2", 2, 1)).unwrap();
    let r = p.flush().await;
    println!("C12 flush with failing put -> ok={}; pending_count after = {} (must still be 2)", r.is_ok(), p.pending_count());

    // ---- C11: WAL high-water-mark filter
    let store = InMemoryObjectStore::new();
    let mut p = StreamingPersistence::new(Arc::new(store.clone()), "t".to_string(), 1, WriteBufferConfig::test()).await.unwrap();
    p.push(delta("fast-shard-key", "a", 1000, 1)).unwrap(); p.flush().await.unwrap();
    use redis_sim::streaming::wal::{WalEntry, WalRotator}; use redis_sim::streaming::wal_store::InMemoryWalStore;
    let ws = InMemoryWalStore::new(); let mut rot = WalRotator::new(ws.clone(), 1<<20).unwrap();
    let slow = delta("slow-shard-key", "b", 5, 1); rot.append(&WalEntry::from_delta(&slow, 5).unwrap()).unwrap(); rot.sync().unwrap();
    let rm = RecoveryManager::new(store.clone(), "t", 1);
    let rec = rm.recover_with_wal(&rot).await.unwrap();
    println!("C11 recover_with_wal keys = {:?} (WAL holds slow-shard-key@5, segment max stamp 1000)", rec.deltas.iter().map(|d| d.key.clone()).collect::<Vec<_>>());

    // ---- C13: compaction vs recovery fold
    async fn fold(store: &InMemoryObjectStore) -> HashMap<String, (Option<String>, Option<u64>, bool)> {
        let rec = RecoveryManager::new(store.clone(), "c", 1).recover().await.unwrap();
        let mut m: HashMap<String, ReplicatedValue> = HashMap::new();
        for d in rec.deltas { let v = match m.remove(&d.key) { Some(x) => x.merge(&d.value), None => d.value }; m.insert(d.key, v); }
        m.into_iter().map(|(k, v)| (k, (v.get().map(|s| s.to_string()), v.expiry_ms, v.is_tombstone()))).collect()
    }
    let store = InMemoryObjectStore::new();
    let mut p = StreamingPersistence::new(Arc::new(store.clone()), "c".to_string(), 1, WriteBufferConfig::test()).await.unwrap();
    let mut d1 = delta("e", "v1", 1, 1); d1.value.expiry_ms = Some(100000); p.push(d1).unwrap(); p.flush().await.unwrap();
    p.push(delta("e", "v2", 2, 1)).unwrap(); p.flush().await.unwrap();                       // later write without expiry
    p.push(delta("t", "x", 3, 1)).unwrap(); p.push(delta("t", "y", 3, 2)).unwrap(); p.flush().await.unwrap(); // equal time, two replicas
    let mut tomb = delta("d", "z", 4, 1); let mut c = LamportClock{time: 4, replica_id: ReplicaId::new(1)}; tomb.value.delete(&mut c); p.push(tomb).unwrap(); p.flush().await.unwrap();
    let before = fold(&store).await;
    let mm = ManifestManager::new(store.clone(), "c");
    let mut cfg = CompactionConfig::test(); cfg.tombstone_ttl = std::time::Duration::from_secs(24*3600); cfg.max_segments_per_compaction = 10;
    let mut comp = Compactor::new(Arc::new(store.clone()), "c".to_string(), mm, cfg);
    let res = comp.compact().await;
    let after = fold(&store).await;
    let mut ks: Vec<_> = before.keys().chain(after.keys()).cloned().collect(); ks.sort(); ks.dedup();
    println!("C13 compaction result ok={} tombstones_removed={:?}", res.is_ok(), res.as_ref().map(|r| r.tombstones_removed).ok());
    for k in ks { println!("C13 key {:?}: before {:?} after {:?}", k, before.get(&k), after.get(&k)); }
    std::process::exit(0);
}
