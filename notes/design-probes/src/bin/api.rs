use redis_sim::production::{ShardedActorState, ShardConfig};
use redis_sim::redis::{Command, RespValue};
fn bulk(s: &str) -> RespValue { RespValue::BulkString(Some(s.as_bytes().to_vec())) }
fn cmd(parts: &[&str]) -> Command { Command::from_resp(&RespValue::Array(Some(parts.iter().map(|p| bulk(p)).collect()))).unwrap() }
#[tokio::main]
async fn main() {
    println!("header len = {}", b"*2\r\n$3\r\nGET\r\n".len());
    for n in [1usize, 4] {
        let st = ShardedActorState::with_config(ShardConfig::with_shards(n));
        let mut bad = 0;
        for i in 0..40 {
            let k = format!("key:{}", i);
            st.fast_set(bytes::Bytes::from(k.clone()), bytes::Bytes::from_static(b"hello")).await;
            let r = st.execute(&cmd(&["STRLEN", &k])).await;
            if r != RespValue::Integer(5) { bad += 1; }
        }
        println!("C03 shards={} fast_set then generic STRLEN wrong for {}/40 keys", n, bad);
        // two-key command
        st.execute(&cmd(&["SET", "a", "1"])).await;
        let mut lost = 0;
        for i in 0..20 { let d = format!("dst{}", i); st.execute(&cmd(&["SET", "a", "1"])).await; st.execute(&cmd(&["RENAME", "a", &d])).await; if st.execute(&cmd(&["GET", &d])).await != bulk("1") { lost += 1; } }
        println!("C03 shards={} RENAME a dst; GET dst wrong for {}/20", n, lost);
        // SCAN
        for i in 0..60 { st.execute(&cmd(&["SET", &format!("s{}", i), "v"])).await; }
        if let RespValue::Array(Some(p)) = st.execute(&cmd(&["SCAN", "0"])).await { if let RespValue::Array(Some(ks)) = &p[1] { println!("C03 shards={} SCAN 0 -> cursor {:?}, {} keys (DBSIZE {:?})", n, p[0], ks.len(), st.execute(&cmd(&["DBSIZE"])).await); } }
    }
}
