use std::io::{Read, Write};
use std::time::Duration;
fn frame(parts: &[&[u8]]) -> Vec<u8> {
    let mut v = format!("*{}\r\n", parts.len()).into_bytes();
    for p in parts { v.extend(format!("${}\r\n", p.len()).into_bytes()); v.extend_from_slice(p); v.extend(b"\r\n"); }
    v
}
fn send(addr: &str, data: &[u8], wait_ms: u64) -> String {
    let mut s = std::net::TcpStream::connect(addr).unwrap();
    s.set_read_timeout(Some(Duration::from_millis(wait_ms))).unwrap();
    s.write_all(data).unwrap();
    let mut out = Vec::new(); let mut buf = [0u8; 4096];
    loop { match s.read(&mut buf) { Ok(0) => break, Ok(n) => out.extend_from_slice(&buf[..n]), Err(_) => break } }
    String::from_utf8_lossy(&out).replace("\r\n", "\\r\\n")
}
fn main() {
    std::env::set_var("PERF_CONFIG_PATH", "perf.toml"); tracing_subscriber::fmt().with_max_level(tracing_subscriber::filter::LevelFilter::DEBUG).init();
    let addr = "127.0.0.1:7391";
    std::thread::spawn(move || {
        let rt = tokio::runtime::Builder::new_multi_thread().enable_all().build().unwrap();
        rt.block_on(async { let _ = redis_sim::production::OptimizedRedisServer::new("127.0.0.1:7391".to_string()).run().await; });
    });
    std::thread::sleep(Duration::from_millis(700));
    // C04: single GET with a 60-byte key (buffer >= 70 bytes, 1 GET < batch_threshold 6)
    let longkey = vec![b'k'; 60];
    println!("C04 PING -> {:?}", send(addr, &frame(&[b"PING"]), 300));
    println!("C04 GET <60-byte key> alone -> {:?}   (expected $-1)", send(addr, &frame(&[b"GET", &longkey]), 500));
    let mut p = Vec::new(); for k in [&b"aaaaaaaaaaaaaaaaaaaa"[..], b"bbbbbbbbbbbbbbbbbbbb", b"cccccccccccccccccccc"] { p.extend(frame(&[b"GET", k])); } p.extend(frame(&[b"PING"]));
    println!("C04 3 pipelined GETs + PING ({} bytes) -> {:?}   (expected 3 x $-1 then +PONG)", p.len(), send(addr, &p, 500));
    // C03: fast-path SET then generic STRLEN/APPEND on the same key, 4 shards
    let mut bad = 0; let mut total = 0;
    for i in 0..40 {
        let k = format!("key:{}", i);
        let r1 = send(addr, &frame(&[b"SET", k.as_bytes(), b"hello"]), 150);
        let r2 = send(addr, &frame(&[b"STRLEN", k.as_bytes()]), 150);
        total += 1; if r2 != ":5\\r\\n" { bad += 1; if bad <= 3 { println!("C03 SET {} -> {:?}; STRLEN -> {:?}", k, r1, r2); } }
    }
    println!("C03 with 4 shards: STRLEN after SET wrong for {}/{} keys", bad, total);
    // C04/C15: unknown command with CRLF in its name
    println!("C04 unknown cmd with CRLF -> {:?}", send(addr, &frame(&[b"FOO\r\n+INJECTED"]), 300));
    std::process::exit(0);
}
