use redis_sim::redis::{Command, CommandExecutor, RespCodec, RespParser, RespValue, SDS};
use redis_sim::replication::*;
use redis_sim::replication::anti_entropy::StateDigest;
use redis_sim::simulator::VirtualTime;
use std::collections::HashMap;
use std::sync::Arc;

fn bulk(s: &str) -> RespValue { RespValue::BulkString(Some(s.as_bytes().to_vec())) }
fn cmd(parts: &[&str]) -> Command {
    Command::from_resp(&RespValue::Array(Some(parts.iter().map(|p| bulk(p)).collect()))).unwrap()
}

fn main() {
    // ---- C07: outer stamp of merge
    let r1 = ReplicaId::new(1); let r2 = ReplicaId::new(2);
    let a = ReplicatedValue::with_value(SDS::from_str("a"), LamportClock{time:5, replica_id:r1});
    let b = ReplicatedValue::with_value(SDS::from_str("b"), LamportClock{time:3, replica_id:r2});
    println!("C07 stamp(merge(a,b))={:?} stamp(merge(b,a))={:?}", a.merge(&b).timestamp, b.merge(&a).timestamp);
    // assoc across kinds
    let mut ha = ReplicatedValue::new(r1); let mut c1 = LamportClock{time:0, replica_id:r1};
    ha.hash_set("f".into(), SDS::from_str("1"), &mut c1);           // Hash@1
    let lw = ReplicatedValue::with_value(SDS::from_str("s"), LamportClock{time:2, replica_id:r2}); // Lww@2
    let mut hc = ReplicatedValue::new(r1); let mut c3 = LamportClock{time:2, replica_id:r1};
    hc.hash_set("g".into(), SDS::from_str("2"), &mut c3);           // Hash@3
    let l = ha.merge(&lw).merge(&hc); let r = ha.merge(&lw.merge(&hc));
    let keys = |v: &ReplicatedValue| { let mut k: Vec<String> = v.get_hash().map(|h| h.keys().cloned().collect()).unwrap_or_default(); k.sort(); k };
    println!("C07 assoc mixed kinds: (a+b)+c fields={:?}  a+(b+c) fields={:?}", keys(&l), keys(&r));

    // ---- C15: negative bulk length
    for input in [&b"$-2\r\n"[..], b"*-5\r\n", b"*1\r\n$-9\r\n"] {
        let i = input.to_vec();
        let r = std::panic::catch_unwind(move || { let mut bm = bytes::BytesMut::from(&i[..]); format!("{:?}", RespCodec::parse(&mut bm)) });
        println!("C15 RespCodec {:?} -> {}", String::from_utf8_lossy(input), r.unwrap_or_else(|_| "PANIC".into()));
        let i = input.to_vec();
        let r = std::panic::catch_unwind(move || format!("{:?}", RespParser::parse(&i)));
        println!("C15 RespParser {:?} -> {}", String::from_utf8_lossy(input), r.unwrap_or_else(|_| "PANIC".into()));
    }

    // ---- C18: digest depends on map iteration order?
    let mut diffs = 0;
    for trial in 0..20 {
        let mut m1: HashMap<String, ReplicatedValue> = HashMap::new();
        let mut m2: HashMap<String, ReplicatedValue> = HashMap::new();
        let ks: Vec<String> = (0..40).map(|i| format!("key{}", i)).collect();
        for k in ks.iter() { m1.insert(k.clone(), ReplicatedValue::with_value(SDS::from_str(k), LamportClock{time:7, replica_id:r1})); }
        for k in ks.iter().rev() { m2.insert(k.clone(), ReplicatedValue::with_value(SDS::from_str(k), LamportClock{time:7, replica_id:r1})); }
        let d1 = StateDigest::from_state(&m1, r1, 0, 2); let d2 = StateDigest::from_state(&m2, r1, 0, 2);
        if d1.differs_from(&d2) { diffs += 1; }
        let _ = trial;
    }
    println!("C18 equal states, digests differ in {}/20 trials", diffs);

    // ---- C19: from_config peer ids
    for rid in 1..=3u64 {
        let peers: Vec<String> = (1..=3u64).filter(|j| *j != rid).map(|j| format!("n{}", j)).collect();
        let cfg = ReplicationConfig::new_partitioned_cluster(rid, peers.clone(), 3);
        let ring = Arc::new(std::sync::RwLock::new(HashRing::new((1..=3).map(ReplicaId::new).collect(), 10, 3)));
        let router = GossipRouter::from_config(&cfg, ring);
        let mut ids: Vec<(u64, String)> = router.peer_ids().map(|p| (p.0, router.get_peer_address(*p).unwrap().clone())).collect(); ids.sort();
        println!("C19 replica {} peers {:?} -> {:?}", rid, peers, ids);
    }

    // ---- C01: TTL rounding, MSET/GETSET ttl, DEL expired, ZADD XX, EXPIRE GT -1
    let mut e = CommandExecutor::new();
    e.set_time(VirtualTime::from_millis(0));
    println!("C01 {:?}", e.execute(&cmd(&["SET","k","v","PX","1400"])));
    println!("C01 TTL after PX 1400 = {:?} (Redis: 1)", e.execute(&cmd(&["TTL","k"])));
    e.execute(&cmd(&["SET","m","v","EX","100"])); e.execute(&cmd(&["MSET","m","w"]));
    println!("C01 TTL after SET EX 100; MSET = {:?} (Redis: -1)", e.execute(&cmd(&["TTL","m"])));
    e.execute(&cmd(&["SET","g","v","EX","100"])); e.execute(&cmd(&["GETSET","g","w"]));
    println!("C01 TTL after SET EX 100; GETSET = {:?} (Redis: -1)", e.execute(&cmd(&["TTL","g"])));
    e.execute(&cmd(&["SET","x","v","PX","10"])); e.update_time_readonly(VirtualTime::from_millis(20));
    println!("C01 DEL of key past deadline = {:?} (Redis: 0)", e.execute(&cmd(&["DEL","x"])));
    e.execute(&cmd(&["SET","y","v","PX","10"])); e.update_time_readonly(VirtualTime::from_millis(40));
    println!("C01 MSET on lazily expired key then GET = {:?} {:?} (Redis: OK, w)", e.execute(&cmd(&["MSET","y","w"])), e.execute(&cmd(&["GET","y"])));
    println!("C01 ZADD z XX 1 a on missing = {:?}; EXISTS z = {:?} TYPE z = {:?} (Redis: 0,0,none)", e.execute(&cmd(&["ZADD","z","XX","1","a"])), e.execute(&cmd(&["EXISTS","z"])), e.execute(&cmd(&["TYPE","z"])));
    e.execute(&cmd(&["SET","p","v"]));
    println!("C01 EXPIRE p -1 GT on persistent key = {:?}; EXISTS p = {:?} (Redis: 0, 1)", e.execute(&cmd(&["EXPIRE","p","-1","GT"])), e.execute(&cmd(&["EXISTS","p"])));
    e.execute(&cmd(&["SET","n","007"]));
    println!("C01 INCR on '007' = {:?} (Redis: error)", e.execute(&cmd(&["INCR","n"])));

    // ---- C17: RPOPLPUSH into wrong-type destination
    let mut e = CommandExecutor::new();
    e.execute(&cmd(&["RPUSH","src","a"])); e.execute(&cmd(&["SET","dst","str"]));
    println!("C17 RPOPLPUSH src dst(str) = {:?}; LLEN src = {:?} EXISTS src = {:?} (must be unchanged: 1,1)", e.execute(&cmd(&["RPOPLPUSH","src","dst"])), e.execute(&cmd(&["LLEN","src"])), e.execute(&cmd(&["EXISTS","src"])));

    // ---- C09: batch straddling a rotation
    use redis_sim::streaming::wal::{WalEntry, WalRotator};
    use redis_sim::streaming::wal_store::InMemoryWalStore;
    let store = InMemoryWalStore::new();
    let mk = |i: u64| { let d = ReplicationDelta::new(format!("k{}", i), ReplicatedValue::with_value(SDS::from_str("v"), LamportClock{time:i, replica_id:r1}), r1); WalEntry::from_delta(&d, i).unwrap() };
    let e1 = mk(1); let sz = e1.disk_size();
    let mut rot = WalRotator::new(store.clone(), 16 + sz).unwrap(); // one entry per file
    rot.append(&e1).unwrap(); rot.append(&mk(2)).unwrap(); rot.append(&mk(3)).unwrap();
    rot.sync().unwrap(); // group commit: one sync for the batch -> all three acked Ok by the actor
    store.simulate_crash();
    let rec = WalRotator::new(store.clone(), 16 + sz).unwrap().recover_all_entries().unwrap();
    println!("C09 appended 3 (batch straddles rotations), one sync, crash -> recovered stamps {:?}", rec.iter().map(|e| e.timestamp).collect::<Vec<_>>());

    // ---- C10: timestamp bit flip passes CRC
    let store = InMemoryWalStore::new();
    let mut rot = WalRotator::new(store.clone(), 1<<20).unwrap(); rot.append(&mk(5)).unwrap(); rot.sync().unwrap();
    let name = "wal-00000001.wal"; let mut data = store.get_file_data(name).unwrap(); data[16+4+1] ^= 0x01; store.set_file_data(name, data);
    let rec = rot.recover_all_entries().unwrap();
    println!("C10 flipped a timestamp bit -> recovered stamps {:?} (appended: [5])", rec.iter().map(|e| e.timestamp).collect::<Vec<_>>());
}
