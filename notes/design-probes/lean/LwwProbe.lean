structure Stamp where
  time : Nat
  rid  : Nat
deriving DecidableEq, Repr

def Stamp.lt (a b : Stamp) : Prop := a.time < b.time ∨ (a.time = b.time ∧ a.rid < b.rid)
instance : LT Stamp := ⟨Stamp.lt⟩
instance (a b : Stamp) : Decidable (a < b) := by unfold LT.lt instLTStamp Stamp.lt; exact inferInstance

structure Lww where
  val  : Option (List UInt8)
  ts   : Stamp
  tomb : Bool
deriving DecidableEq, Repr

def Lww.merge (a b : Lww) : Lww := if a.ts < b.ts then b else a

theorem Stamp.lt_def (a b : Stamp) : a < b ↔ (a.time < b.time ∨ (a.time = b.time ∧ a.rid < b.rid)) := Iff.rfl

theorem Stamp.lt_trichotomy (a b : Stamp) : a < b ∨ a = b ∨ b < a := by
  rcases a with ⟨at', ar⟩; rcases b with ⟨bt, br⟩
  simp only [Stamp.lt_def, Stamp.mk.injEq]; omega

theorem Stamp.lt_asymm {a b : Stamp} : a < b → ¬ b < a := by
  rcases a with ⟨at', ar⟩; rcases b with ⟨bt, br⟩
  simp only [Stamp.lt_def]; omega

theorem Stamp.lt_trans {a b c : Stamp} : a < b → b < c → a < c := by
  rcases a with ⟨at', ar⟩; rcases b with ⟨bt, br⟩; rcases c with ⟨ct, cr⟩
  simp only [Stamp.lt_def]; omega

theorem Lww.merge_idem (a : Lww) : a.merge a = a := by
  unfold Lww.merge; split <;> rfl

/-- tie consistency: equal stamps imply equal registers -/
def Tie (a b : Lww) : Prop := a.ts = b.ts → a = b

theorem Lww.merge_comm (a b : Lww) (h : Tie a b) : a.merge b = b.merge a := by
  unfold Lww.merge
  rcases Stamp.lt_trichotomy a.ts b.ts with h1 | h1 | h1
  · simp [h1, Stamp.lt_asymm h1]
  · have := h h1; subst this; simp
  · simp [h1, Stamp.lt_asymm h1]

theorem Lww.merge_assoc (a b c : Lww) : a.merge (b.merge c) = (a.merge b).merge c := by
  have t := @Stamp.lt_trans; have tr := Stamp.lt_trichotomy; have asy := @Stamp.lt_asymm
  unfold Lww.merge
  grind

example : ¬ (∀ a b : Lww, a.merge b = b.merge a) := by
  intro h
  have := h ⟨some [1], ⟨1,1⟩, false⟩ ⟨some [2], ⟨1,1⟩, false⟩
  revert this; decide
