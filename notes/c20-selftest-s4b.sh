#!/bin/bash
# Session-4 self-test of C20 (dynamic part, second file: the BUGGIFY layer): throw-away mutations on a private clone of /repo, run
# against a worktree of this branch whose harness points at the clone.
# prerequisites (removed afterwards):
#   git clone /repo /work/mut-sim
#   git -C /verif worktree add --detach /work/selftest-sim <this branch's head> ; cp -r .build lean/.lake into it (warm)
# usage: notes/c20-selftest-s4.sh [case …]     (no argument: all cases)
set -u
W=${W:-/work/selftest-sim}
MUT=/work/mut-sim
export CARGO_BUILD_JOBS=4
sed -i "s#path = \"/repo\"#path = \"$MUT\"#" $W/harness/Cargo.toml
restore() { sed -i "s#path = \"$MUT\"#path = \"/repo\"#" $W/harness/Cargo.toml; }
trap restore EXIT

run_check() {
  (cd $W && ./check C20 --tier quick --seed 1 > /tmp/c20_s4.out 2>&1; echo "  exit=$?")
  grep -v '^KNOWN-FINDING' /tmp/c20_s4.out | grep -E "VIOLATION|C20 \[quick\]" | sed 's/^ *//' | cut -c1-300 | awk '!seen[substr($0,1,110)]++' | head -${1:-6} | sed "s/^/    | /"
  cd $MUT; git checkout -q .; git clean -qfd
}
CASES="$*"
sel() { [ -z "$CASES" ] && return 0; for c in $CASES; do [ "$c" = "$1" ] && return 0; done; return 1; }
edit() { python3 - "$@"; }
rep() { # file, old, new : exactly one replacement or complain
  python3 - "$1" "$2" "$3" <<'PY'
import sys
p,old,new=sys.argv[1:4]
s=open(p).read()
if s.count(old)<1:
    print("  (mutation NOT applied: pattern not found in", p, ")")
else:
    open(p,'w').write(s.replace(old,new,1))
PY
}

cd $MUT
# ---- model-only mutations of the BUGGIFY layer: identical in every process ----
if sel b1; then echo "== (b1) FaultConfig::chaos: network.packet_drop 0.05 -> 0.06 (a preset table entry)"
rep src/buggify/config.rs "config.set(faults::network::PACKET_DROP, 0.05); // 5%" "config.set(faults::network::PACKET_DROP, 0.06); // 5%"
run_check; fi

if sel b2; then echo "== (b2) FaultConfig::get clamps the base probability, not the product"
rep src/buggify/config.rs "(base * self.global_multiplier).clamp(0.0, 1.0)" "base.clamp(0.0, 1.0) * self.global_multiplier"
run_check; fi

if sel b3; then echo "== (b3) should_buggify: random_value <= prob (was <): one more draw value triggers"
rep src/buggify/mod.rs "let triggered = random_value < prob;" "let triggered = random_value <= prob;"
run_check; fi

if sel b4; then echo "== (b4) should_buggify_with_prob ignores the enabled flag (draws and may trigger under FaultConfig::disabled())"
rep src/buggify/mod.rs "if ctx.suppressed || !ctx.config.enabled {" "if ctx.suppressed {"
run_check; fi

if sel b5; then echo "== (b5) should_buggify draws from [0, 10^6] (was [0, 10^6))"
rep src/buggify/mod.rs "let random_value = rng.gen_range(0, 1_000_000) as f64 / 1_000_000.0;
        let triggered = random_value < prob;" "let random_value = rng.gen_range(0, 1_000_001) as f64 / 1_000_000.0;
        let triggered = random_value < prob;"
run_check; fi

if sel b6; then echo "== (b6) a suppressed check is not recorded (the statistics move)"
rep src/buggify/mod.rs "        // Record the check
        ctx.stats.record_check(fault_id);

        // Check if suppressed
        if ctx.suppressed {
            return false;
        }" "        // Check if suppressed
        if ctx.suppressed {
            return false;
        }
        ctx.stats.record_check(fault_id);"
run_check; fi

if sel b7; then echo "== (b7) with_multiplier no longer floors at 0.0 (a negative multiplier makes every product negative: clamped to 0 — but NaN stays NaN)"
rep src/buggify/config.rs "self.global_multiplier = multiplier.max(0.0);" "self.global_multiplier = multiplier;"
run_check; fi

# ---- harmless for the BUGGIFY layer ----
if sel hb1; then echo "== (hb1) HARMLESS: a new fault id appended to the catalogue that nobody configures or consults; BuggifyStats keeps its counters in BTreeMaps; get() written with an early return"
python3 - <<'PY'
p='/work/mut-sim/src/buggify/faults.rs'; s=open(p).read()
s=s.replace('    pub const STALE_REPLICA: &str = "replication.stale_replica";','    pub const STALE_REPLICA: &str = "replication.stale_replica";\n    /// Anti-entropy digest lost\n    pub const DIGEST_DROP: &str = "replication.digest_drop";',1)
s=s.replace("    replication::STALE_REPLICA,\n];","    replication::STALE_REPLICA,\n    replication::DIGEST_DROP,\n];",1)
open(p,'w').write(s)
p='/work/mut-sim/src/buggify/mod.rs'; s=open(p).read()
s=s.replace("use std::collections::HashMap;","use std::collections::BTreeMap as HashMap;",1)
open(p,'w').write(s)
p='/work/mut-sim/src/buggify/config.rs'; s=open(p).read()
s=s.replace("        let base = self.probabilities.get(fault_id).copied().unwrap_or(0.0);\n        (base * self.global_multiplier).clamp(0.0, 1.0)","        let Some(base) = self.probabilities.get(fault_id).copied() else {\n            return (0.0 * self.global_multiplier).clamp(0.0, 1.0);\n        };\n        let scaled = base * self.global_multiplier;\n        scaled.clamp(0.0, 1.0)",1)
open(p,'w').write(s)
PY
run_check; fi

# ---- rerun with the harness output kept (diagnosis) ----
if sel mn5; then echo "== (mn5) LamportClock::update: max(local, remote + 1) instead of max(local, remote) + 1"
rep src/replication/lattice.rs "self.time = self.time.max(other.time) + 1;" "self.time = self.time.max(other.time + 1);"
(cd $W && ./check C20 --tier quick --seed 1 > /tmp/c20_s4_mn5.out 2>&1; echo "  exit=$?"); tail -5 /tmp/c20_s4_mn5.out | cut -c1-300
cd $MUT; git checkout -q .; git clean -qfd; fi
